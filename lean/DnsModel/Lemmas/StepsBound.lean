/-
  Lemmas.StepsBound — the instrumented validator spends a number of steps linear in the bytes it
  consumes: ≤ 822 + consumed/4 per record, with at least 11 bytes consumed per accepted record.
-/
import DnsModel.Lemmas.StepsErasure
import DnsModel.Lemmas.SectorTotal
namespace Dns
open Cnt Sector Res

namespace Cnt
/-- a successful bind: the intermediate value and the additive cost -/
theorem bind_ok_decomp {α β} {x : Cnt α} {f : α → Cnt β} {b : β} (h : (x >>= f).res = .ok b) :
    ∃ a, x.res = .ok a ∧ (f a).res = .ok b ∧ (x >>= f).steps = x.steps + (f a).steps := by
  rw [res_bind] at h
  obtain ⟨a, ha, hb⟩ := Res.bind_eq_ok.1 h
  exact ⟨a, ha, hb, by rw [steps_bind, ha]⟩

theorem steps_bind_le' {α β} (x : Cnt α) (f : α → Cnt β) (n m : Nat)
    (h1 : x.steps ≤ n) (h2 : ∀ a, (f a).steps ≤ m) : (x >>= f).steps ≤ n + m :=
  steps_bind_le x f n m h1 (fun a _ => h2 a)

theorem steps_lift_bind_le {α β} (r : Res α) (f : α → Cnt β) (m : Nat)
    (h : ∀ a, (f a).steps ≤ m) : (lift r >>= f).steps ≤ m := by
  have := steps_bind_le' (lift r) f 0 m (by simp) h
  omega

theorem steps_lift_bind_ok {α β} (r : Res α) (f : α → Cnt β) (a : α) (h : r = .ok a) :
    (lift r >>= f).steps = (f a).steps := by
  rw [steps_bind, res_lift, h]; simp
end Cnt

def W : Nat := nameFuel

theorem skipNameI_steps (p : Bytes) (s : Sector) : (SectorI.skipName p s).steps ≤ W := by
  unfold SectorI.skipName
  refine Nat.le_trans (steps_bind_le' _ _ W 0 (checkCompressedNameI_steps _ _) ?_) (by omega)
  intro off
  apply steps_lift_bind_le
  intro x; cases x; simp

theorem parseQuestionI_steps (p : Bytes) (s : Sector) : (SectorI.parseQuestion p s).steps ≤ W := by
  unfold SectorI.parseQuestion
  refine Nat.le_trans (steps_bind_le' _ _ W 0 (skipNameI_steps p s) ?_) (by omega)
  intro s1
  apply steps_lift_bind_le; intro _
  apply steps_lift_bind_le; intro c
  apply steps_lift_bind_le; intro _
  apply steps_lift_bind_le; intro x
  cases x; simp

theorem optLoopI_steps (p : Bytes) (fuel : Nat) (s : Sector) : (SectorI.optLoop p fuel s).steps ≤ fuel := by
  induction fuel generalizing s with
  | zero => simp [SectorI.optLoop]
  | succ n ih =>
    unfold SectorI.optLoop
    apply steps_lift_bind_le; intro r
    split
    · have h1 : (SectorI.ednsSkipRr p s).steps ≤ 1 := by
        unfold SectorI.ednsSkipRr
        refine Nat.le_trans (steps_bind_le' _ _ 1 0 (by simp) ?_) (by omega)
        intro _; simp
      refine Nat.le_trans (steps_bind_le' _ _ 1 n h1 ?_) (by omega)
      intro s1; exact ih _
    · simp

/-- steps of a `lift`ed conditional -/
theorem steps_lift_ite_bind {α β} (c : Prop) [Decidable c] (e : Err) (v : α) (f : α → Cnt β) :
    (lift (if c then (.err e : Res α) else .ok v) >>= f).steps = if c then 0 else (f v).steps := by
  split
  · rw [steps_bind]; simp
  · rw [steps_lift_bind_ok _ _ v rfl]

theorem res_lift_ite_bind {α β} (c : Prop) [Decidable c] (e : Err) (v : α) (f : α → Cnt β) :
    (lift (if c then (.err e : Res α) else .ok v) >>= f).res = if c then .err e else (f v).res := by
  split <;> simp

/-- cost of `parse_opt`: at most one step per four bytes of option data, plus two -/
theorem parseOptI_cost {p : Bytes} {s : Sector} (h : s.offset ≤ p.length) :
    (SectorI.parseOpt p s).steps ≤ (p.length - s.offset) / 4 + 2 ∧
      ∀ s', (SectorI.parseOpt p s).res = .ok s' →
        (SectorI.parseOpt p s).steps ≤ (s'.offset - s.offset) / 4 + 2 := by
  have hsucc : ∀ s', (SectorI.parseOpt p s).res = .ok s' → s'.offset = s.offset + 10 + get16 p (s.offset + 8) := by
    intro s' hs
    rw [parseOptI_res] at hs
    exact ((parseOpt_spec h).2 s' hs).1
  have key : (SectorI.parseOpt p s).steps ≤ get16 p (s.offset + 8) / 4 + 2 ∧
      ((SectorI.parseOpt p s).steps ≠ 0 → s.offset + 10 + get16 p (s.offset + 8) ≤ p.length) := by
    unfold SectorI.parseOpt
    simp only [u8Load_eq h, be16Load_eq h, incrementOffset_eq h, failIf]
    consts
    simp only [steps_lift_ite_bind]
    split
    · simp
    split
    · simp
    split
    · simp
    split
    · simp
    split
    · simp
    split
    · simp
    rename_i hlt
    have h10 : s.offset + 10 ≤ p.length := by omega
    rw [ensureRemainingLen_eq (by simpa using h10)]
    simp only [steps_lift_ite_bind]
    split
    · simp
    · rename_i hfit
      simp at hfit
      exact ⟨optLoopI_steps _ _ _, fun _ => by omega⟩
  constructor
  · by_cases hz : (SectorI.parseOpt p s).steps = 0
    · omega
    · have := key.2 hz
      have := key.1
      omega
  · intro s' hs
    have := hsucc s' hs
    have := key.1
    omega

/-- the tail shared by the name-bearing record types costs nothing: `sub`, `failIf`, `incrementOffset`, `pure` -/
theorem steps_tail {p : Bytes} (s : Sector) (fin l : Nat) :
    (do let d ← lift (sub fin s.offset); lift (failIf (d != l) .invalidPacket)
        let (s, _) ← lift (incrementOffset p s l); pure s : Cnt Sector).steps ≤ 0 := by
  apply steps_lift_bind_le; intro _
  apply steps_lift_bind_le; intro _
  apply steps_lift_bind_le; intro x
  cases x; simp

theorem steps_inc_pure {p : Bytes} (s : Sector) (n : Nat) :
    (do let (s, _) ← lift (incrementOffset p s n); pure s : Cnt Sector).steps ≤ 0 := by
  apply steps_lift_bind_le; intro x
  cases x; simp

/-- cost of the type-specific part of `parse_rr` -/
theorem rrBodyI_cost {p : Bytes} {s : Sector} (sec : Section) (rrStart t l : Nat) (h : s.offset ≤ p.length) :
    (SectorI.rrBody p s sec rrStart t l).steps ≤ 2 * W + (p.length - s.offset) / 4 + 2 ∧
      ∀ s', (SectorI.rrBody p s sec rrStart t l).res = .ok s' →
        (SectorI.rrBody p s sec rrStart t l).steps ≤ 2 * W + (s'.offset - s.offset) / 4 + 2 := by
  unfold SectorI.rrBody
  split
  · -- OPT: everything before `parse_opt` is free
    have hc := parseOptI_cost (p := p) (s := s) h
    constructor
    · apply Nat.le_trans _ (by omega : (p.length - s.offset) / 4 + 2 ≤ 2 * W + (p.length - s.offset) / 4 + 2)
      apply steps_lift_bind_le; intro _
      apply steps_lift_bind_le; intro _
      apply steps_lift_bind_le; intro _
      exact hc.1
    · intro s' hs
      obtain ⟨_, _, h2, e2⟩ := bind_ok_decomp hs
      obtain ⟨_, _, h3, e3⟩ := bind_ok_decomp h2
      obtain ⟨_, _, h4, e4⟩ := bind_ok_decomp h3
      have := hc.2 s' h4
      rw [e2, e3, e4]
      simp only [steps_lift]
      omega
  · have hW : ∀ (x : Cnt Sector), x.steps ≤ 2 * W →
        x.steps ≤ 2 * W + (p.length - s.offset) / 4 + 2 ∧
          ∀ s', x.res = .ok s' → x.steps ≤ 2 * W + (s'.offset - s.offset) / 4 + 2 :=
      fun x hx => ⟨by omega, fun _ _ => by omega⟩
    split
    · apply hW
      apply steps_lift_bind_le; intro _
      apply steps_lift_bind_le; intro x; cases x
      refine Nat.le_trans (steps_bind_le' _ _ W 0 (checkCompressedNameI_steps _ _) ?_) (by omega)
      intro fin; exact steps_tail _ _ _
    split
    · apply hW
      apply steps_lift_bind_le; intro _
      apply steps_lift_bind_le; intro x; cases x
      refine Nat.le_trans (steps_bind_le' _ _ W 0 (checkCompressedNameI_steps _ _) ?_) (by omega)
      intro fin; exact steps_tail _ _ _
    split
    · apply hW
      apply steps_lift_bind_le; intro _
      apply steps_lift_bind_le; intro x; cases x
      refine Nat.le_trans (steps_bind_le' _ _ W W (checkCompressedNameI_steps _ _) ?_) (by omega)
      intro fin1
      refine Nat.le_trans (steps_bind_le' _ _ W 0 (checkCompressedNameI_steps _ _) ?_) (by omega)
      intro fin2
      apply steps_lift_bind_le; intro _
      apply steps_lift_bind_le; intro _
      apply steps_lift_bind_le; intro _
      exact steps_inc_pure _ _
    split
    · apply hW
      apply steps_lift_bind_le; intro _
      apply steps_lift_bind_le; intro x; cases x
      refine Nat.le_trans (steps_bind_le' _ _ W 0 (checkUncompressedNameI_steps _ _) ?_) (by omega)
      intro fin; exact steps_tail _ _ _
    split
    · apply hW
      apply steps_lift_bind_le; intro _
      exact Nat.le_trans (steps_inc_pure _ _) (by omega)
    split
    · apply hW
      apply steps_lift_bind_le; intro _
      exact Nat.le_trans (steps_inc_pure _ _) (by omega)
    · apply hW
      exact Nat.le_trans (steps_inc_pure _ _) (by omega)

/-- cost of one `parse_rr`: 1 + at most three name walks + the option walk -/
theorem parseRRI_cost {p : Bytes} {s : Sector} (sec : Section) (h : s.offset ≤ p.length) :
    (SectorI.parseRR p s sec).steps ≤ 1 + 3 * W + (p.length - s.offset) / 4 + 2 ∧
      ∀ s', (SectorI.parseRR p s sec).res = .ok s' →
        s.offset + 11 ≤ s'.offset ∧ s'.offset ≤ p.length ∧
          (SectorI.parseRR p s sec).steps ≤ 1 + 3 * W + (s'.offset - s.offset) / 4 + 2 := by
  have hs1 : ∀ s1, (SectorI.skipName p s).res = .ok s1 → s.offset ≤ s1.offset ∧ s1.offset ≤ p.length := by
    intro s1 hs
    rw [skipNameI_res] at hs
    obtain ⟨off, hcc, e, hoff⟩ := skipName_ok hs
    have := checkCompressedName_ok_gt hcc
    subst e; simp; omega
  constructor
  · unfold SectorI.parseRR
    refine Nat.le_trans (steps_bind_le' _ _ 1 (3 * W + (p.length - s.offset) / 4 + 2) (by simp) ?_) (by omega)
    intro _
    refine Nat.le_trans (steps_bind_le _ _ W (2 * W + (p.length - s.offset) / 4 + 2) (skipNameI_steps p s) ?_) (by omega)
    intro s1 hsk
    obtain ⟨g1, g2⟩ := hs1 s1 hsk
    apply steps_lift_bind_le; intro t
    apply steps_lift_bind_le; intro l
    have := (rrBodyI_cost (p := p) (s := s1) sec s.offset t l g2).1
    have hmono : (p.length - s1.offset) / 4 ≤ (p.length - s.offset) / 4 := Nat.div_le_div_right (by omega)
    omega
  · intro s' hs
    have hpost := (parseRR_spec (p := p) (s := s) sec h).2 s' (by rw [← parseRRI_res]; exact hs)
    refine ⟨hpost.1, hpost.2, ?_⟩
    unfold SectorI.parseRR at hs ⊢
    obtain ⟨_, _, h1, e1⟩ := bind_ok_decomp hs
    obtain ⟨s1, hsk, h2, e2⟩ := bind_ok_decomp h1
    obtain ⟨t, _, h3, e3⟩ := bind_ok_decomp h2
    obtain ⟨l, _, h4, e4⟩ := bind_ok_decomp h3
    obtain ⟨g1, g2⟩ := hs1 s1 hsk
    have hb := (rrBodyI_cost (p := p) (s := s1) sec s.offset t l g2).2 s' h4
    have hsn := skipNameI_steps p s
    rw [e1, e2, e3, e4]
    simp only [steps_tick, steps_lift]
    have hmono : (s'.offset - s1.offset) / 4 ≤ (s'.offset - s.offset) / 4 := Nat.div_le_div_right (by omega)
    omega

/-- slope and per-failure constant of the record loop -/
def K : Nat := 76
def C : Nat := 1 + 3 * W + 2

theorem parseRRsI_cost {p : Bytes} (sec : Section) (n : Nat) {s : Sector} (h : s.offset ≤ p.length) :
    (SectorI.parseRRs p sec n s).steps ≤ K * (p.length - s.offset) + C ∧
      ∀ s', (SectorI.parseRRs p sec n s).res = .ok s' →
        s.offset ≤ s'.offset ∧ s'.offset ≤ p.length ∧
          (SectorI.parseRRs p sec n s).steps ≤ K * (s'.offset - s.offset) := by
  induction n generalizing s with
  | zero =>
    simp only [SectorI.parseRRs, steps_pure, res_pure]
    refine ⟨by omega, ?_⟩
    intro s' hs
    simp at hs; subst hs
    exact ⟨Nat.le_refl _, h, by omega⟩
  | succ k ih =>
    have hc := parseRRI_cost (p := p) (s := s) sec h
    unfold SectorI.parseRRs
    constructor
    · rw [steps_bind]
      cases hr : (SectorI.parseRR p s sec).res with
      | ok s1 =>
        obtain ⟨b1, b2, b3⟩ := hc.2 s1 hr
        have := (ih (s := s1) b2).1
        simp only
        unfold K C at *
        have hW : W = 273 := rfl
        omega
      | err e => simp only; have := hc.1; unfold K C; have hW : W = 273 := rfl; omega
      | panic => simp only; have := hc.1; unfold K C; have hW : W = 273 := rfl; omega
      | diverge => simp only; have := hc.1; unfold K C; have hW : W = 273 := rfl; omega
    · intro s' hs
      obtain ⟨s1, hr, h2, e⟩ := bind_ok_decomp hs
      obtain ⟨b1, b2, b3⟩ := hc.2 s1 hr
      obtain ⟨c1, c2, c3⟩ := (ih (s := s1) b2).2 s' h2
      refine ⟨by omega, c2, ?_⟩
      rw [e]
      unfold K at *
      have hW : W = 273 := rfl
      omega

end Dns
