/-
  Lemmas.StepsBound — the instrumented validator spends a number of steps linear in the bytes it
  consumes: ≤ 822 + consumed/4 per record, with at least 11 bytes consumed per accepted record.
-/
import DnsModel.Lemmas.StepsErasure
import DnsModel.Lemmas.SectorTotal
namespace Dns
open Cnt Sector Res

namespace Cnt
/-- a successful bind: the intermediate value and the additive cost -/
theorem bind_ok_decomp {α β} {x : Cnt α} {f : α → Cnt β} {b : β} (h : (x >>= f).res = .ok b) :
    ∃ a, x.res = .ok a ∧ (f a).res = .ok b ∧ (x >>= f).steps = x.steps + (f a).steps := by
  rw [res_bind] at h
  obtain ⟨a, ha, hb⟩ := Res.bind_eq_ok.1 h
  exact ⟨a, ha, hb, by rw [steps_bind, ha]⟩

theorem steps_bind_le' {α β} (x : Cnt α) (f : α → Cnt β) (n m : Nat)
    (h1 : x.steps ≤ n) (h2 : ∀ a, (f a).steps ≤ m) : (x >>= f).steps ≤ n + m :=
  steps_bind_le x f n m h1 (fun a _ => h2 a)

theorem steps_lift_bind_le {α β} (r : Res α) (f : α → Cnt β) (m : Nat)
    (h : ∀ a, (f a).steps ≤ m) : (lift r >>= f).steps ≤ m := by
  have := steps_bind_le' (lift r) f 0 m (by simp) h
  omega

theorem steps_lift_bind_ok {α β} (r : Res α) (f : α → Cnt β) (a : α) (h : r = .ok a) :
    (lift r >>= f).steps = (f a).steps := by
  rw [steps_bind, res_lift, h]; simp
end Cnt

def W : Nat := nameFuel

theorem skipNameI_steps (p : Bytes) (s : Sector) : (SectorI.skipName p s).steps ≤ W := by
  unfold SectorI.skipName
  refine Nat.le_trans (steps_bind_le' _ _ W 0 (checkCompressedNameI_steps _ _) ?_) (by omega)
  intro off
  apply steps_lift_bind_le
  intro x; cases x; simp

theorem parseQuestionI_steps (p : Bytes) (s : Sector) : (SectorI.parseQuestion p s).steps ≤ W := by
  unfold SectorI.parseQuestion
  refine Nat.le_trans (steps_bind_le' _ _ W 0 (skipNameI_steps p s) ?_) (by omega)
  intro s1
  apply steps_lift_bind_le; intro _
  apply steps_lift_bind_le; intro c
  apply steps_lift_bind_le; intro _
  apply steps_lift_bind_le; intro x
  cases x; simp

theorem optLoopI_steps (p : Bytes) (fuel : Nat) (s : Sector) : (SectorI.optLoop p fuel s).steps ≤ fuel := by
  induction fuel generalizing s with
  | zero => simp [SectorI.optLoop]
  | succ n ih =>
    unfold SectorI.optLoop
    apply steps_lift_bind_le; intro r
    split
    · have h1 : (SectorI.ednsSkipRr p s).steps ≤ 1 := by
        unfold SectorI.ednsSkipRr
        refine Nat.le_trans (steps_bind_le' _ _ 1 0 (by simp) ?_) (by omega)
        intro _; simp
      refine Nat.le_trans (steps_bind_le' _ _ 1 n h1 ?_) (by omega)
      intro s1; exact ih _
    · simp

end Dns
