/-
  Lemmas.Tokens — the token parsers of the record-text recogniser accept their languages:
  blanks, decimal numbers, host names, addresses, quoted strings, hex strings.
-/
import DnsModel.Lemmas.SynthSound
namespace Dns
open Res

/-- the rest does not start with a character satisfying `f` -/
def StopF (f : UInt8 → Bool) (rest : Bytes) : Prop := ∀ c r, rest = c :: r → f c = false

theorem stopF_nil (f : UInt8 → Bool) : StopF f [] := by intro c r h; simp at h
theorem stopF_cons {f : UInt8 → Bool} {c : UInt8} {r : Bytes} (h : f c = false) : StopF f (c :: r) := by
  intro c' r' e; simp at e; rw [← e.1]; exact h

theorem dropWhile_append {f : UInt8 → Bool} {a rest : Bytes} (ha : ∀ c ∈ a, f c = true) (hs : StopF f rest) :
    (a ++ rest).dropWhile f = rest := by
  induction a with
  | nil =>
    cases rest with
    | nil => rfl
    | cons c r => simp [List.dropWhile, hs c r rfl]
  | cons x a ih =>
    simp only [List.cons_append, List.dropWhile, ha x (by simp)]
    exact ih (fun c hc => ha c (by simp [hc]))

theorem takeWhile_append {f : UInt8 → Bool} {a rest : Bytes} (ha : ∀ c ∈ a, f c = true) (hs : StopF f rest) :
    (a ++ rest).takeWhile f = a := by
  induction a with
  | nil =>
    cases rest with
    | nil => rfl
    | cons c r => simp [List.takeWhile, hs c r rfl]
  | cons x a ih =>
    simp only [List.cons_append, List.takeWhile, ha x (by simp)]
    rw [ih (fun c hc => ha c (by simp [hc]))]

theorem skipWhile_lang {f : UInt8 → Bool} {a rest : Bytes} (ha : ∀ c ∈ a, f c = true) (hs : StopF f rest) :
    skipWhile f (a ++ rest) = rest := dropWhile_append ha hs

theorem takeWhile1_lang {f : UInt8 → Bool} {a rest : Bytes} (hne : a ≠ []) (ha : ∀ c ∈ a, f c = true) (hs : StopF f rest) :
    takeWhile1 f (a ++ rest) = some (a, rest) := by
  unfold takeWhile1
  simp only [takeWhile_append ha hs]
  have : a.isEmpty = false := by cases a with
    | nil => exact absurd rfl hne
    | cons _ _ => rfl
  simp [this]

theorem skipHws1_lang {a rest : Bytes} (hne : a ≠ []) (ha : ∀ c ∈ a, isHws c = true) (hs : StopF isHws rest) :
    skipHws1 (a ++ rest) = some rest := by
  cases a with
  | nil => exact absurd rfl hne
  | cons x a =>
    simp only [List.cons_append, skipHws1, ha x (by simp), if_true]
    rw [skipWhile_lang (fun c hc => ha c (by simp [hc])) hs]

/-! ### decimal numbers -/

/-- value of a digit string -/
def decVal (ds : Bytes) : Nat := ds.foldl (fun a d => a * 10 + (d.toNat - 48)) 0

/-- one step of the overflow-checked accumulation -/
def decStep (max : Nat) (acc : Option Nat) (d : UInt8) : Option Nat :=
  match acc with
  | none => none
  | some a => if a * 10 > max then none else if a * 10 + (d.toNat - 48) > max then none else some (a * 10 + (d.toNat - 48))

theorem decimalMax_eq (max : Nat) (i : Bytes) :
    decimalMax max i = match takeWhile1 isDigit i with
      | none => none
      | some (ds, rest) => (ds.foldl (decStep max) (some 0)).map (fun n => (n, rest)) := rfl

theorem decFold_none (max : Nat) (ds : Bytes) : ds.foldl (decStep max) none = none := by
  induction ds with
  | nil => rfl
  | cons d ds ih => simpa [decStep] using ih

theorem decVal_mono : ∀ (l : Bytes) (x : Nat), x ≤ l.foldl (fun a d => a * 10 + (d.toNat - 48)) x := by
  intro l
  induction l with
  | nil => intro x; simp
  | cons y l ihl => intro x; simp only [List.foldl_cons]; have := ihl (x * 10 + (y.toNat - 48)); omega

theorem decFold_spec (max : Nat) : ∀ (ds : Bytes) (a : Nat), a ≤ max →
    ds.foldl (decStep max) (some a) =
    (if ds.foldl (fun a d => a * 10 + (d.toNat - 48)) a ≤ max then some (ds.foldl (fun a d => a * 10 + (d.toNat - 48)) a) else none) := by
  intro ds
  induction ds with
  | nil => intro a ha; simp [ha]
  | cons d ds ih =>
    intro a ha
    simp only [List.foldl_cons]
    have hbig := decVal_mono ds (a * 10 + (d.toNat - 48))
    by_cases h1 : a * 10 > max
    · have : ¬ (ds.foldl (fun a d => a * 10 + (d.toNat - 48)) (a * 10 + (d.toNat - 48)) ≤ max) := by omega
      simp only [decStep, h1, if_true, this, if_false, decFold_none]
    · by_cases h2 : a * 10 + (d.toNat - 48) > max
      · have : ¬ (ds.foldl (fun a d => a * 10 + (d.toNat - 48)) (a * 10 + (d.toNat - 48)) ≤ max) := by omega
        simp only [decStep, h1, h2, if_true, if_false, this, decFold_none]
      · simp only [decStep, h1, h2, if_false]
        exact ih _ (by omega)

theorem decimalMax_lang {max : Nat} {ds rest : Bytes} (hne : ds ≠ []) (hd : ∀ c ∈ ds, isDigit c = true)
    (hs : StopF isDigit rest) (hv : decVal ds ≤ max) : decimalMax max (ds ++ rest) = some (decVal ds, rest) := by
  rw [decimalMax_eq, takeWhile1_lang hne hd hs]
  simp only
  rw [decFold_spec max ds 0 (by omega)]
  unfold decVal at hv
  simp [hv, decVal]

end Dns

namespace Dns
open Res

/-! ### host names -/

def hostFirst (c : UInt8) : Bool := isAlpha c || isDigit c || c == 95
def hostInner (c : UInt8) : Bool := isAlpha c || isDigit c || c == 45

/-- a label of the host-name grammar: 1..62 letters, digits, hyphens (not first), underscore (first only) -/
def HostLabel (l : Bytes) : Prop :=
  ∃ c t, l = c :: t ∧ hostFirst c = true ∧ (∀ x ∈ t, hostInner x = true) ∧ l.length ≤ 62

/-- the accepted prefix consumed so far, as a fold of the predicate -/
def hostRun : Bytes → HostSt → Option HostSt
  | [], st => some st
  | c :: r, st => if (hostPred st c).2 then hostRun r (hostPred st c).1 else none

theorem hostLoop_run : ∀ (a : Bytes) (st st' : HostSt) (acc rest : Bytes), hostRun a st = some st' →
    hostLoop (a ++ rest) st acc = hostLoop rest st' (a.reverse ++ acc) := by
  intro a
  induction a with
  | nil => intro st st' acc rest h; simp [hostRun] at h; subst h; simp
  | cons c a ih =>
    intro st st' acc rest h
    unfold hostRun at h
    split at h
    · rename_i hok
      simp only [List.cons_append, hostLoop]
      cases hp : hostPred st c with
      | mk s2 ok =>
        rw [hp] at hok h
        simp only at hok h ⊢
        simp only [hok, if_true]
        rw [ih s2 st' (c :: acc) rest h]
        simp
    · simp at h

theorem hostRun_append (a b : Bytes) (st : HostSt) :
    hostRun (a ++ b) st = (hostRun a st).bind (hostRun b) := by
  induction a generalizing st with
  | nil => simp [hostRun]
  | cons c a ih =>
    simp only [List.cons_append, hostRun]
    split
    · exact ih _
    · simp

theorem alpha_not_dot_fin : ∀ b : Fin 256, (hostFirst (UInt8.ofNat b.val) = true ∨ hostInner (UInt8.ofNat b.val) = true) →
    (UInt8.ofNat b.val == 46) = false := by decide +kernel

theorem host_not_dot (c : UInt8) (h : hostFirst c = true ∨ hostInner c = true) : (c == 46) = false := by
  have := alpha_not_dot_fin ⟨c.toNat, c.toNat_lt⟩ (by simpa using h)
  simpa using this

/-- the state after an inner run of `k` characters of a label -/
theorem hostRun_inner : ∀ (t : Bytes) (st : HostSt), (∀ x ∈ t, hostInner x = true) → 0 < st.labelLen →
    st.labelLen + t.length ≤ 62 →
    hostRun t st = some { st with labelLen := st.labelLen + t.length, nameLen := st.nameLen + t.length,
                                   onlyNumeric := st.onlyNumeric && t.all isDigit } := by
  intro t
  induction t with
  | nil => intro st _ _ _; simp [hostRun]
  | cons x t ih =>
    intro st hin hpos hlen
    have hx := hin x (by simp)
    have hdot := host_not_dot x (Or.inr hx)
    simp only [List.length_cons] at hlen
    have h62 : ¬ (st.labelLen ≥ 63 - 1) := by omega
    unfold hostRun
    unfold hostInner at hx
    by_cases hal : ((x == 95 && st.labelLen == 0) || (x == 45 && decide (st.labelLen > 0)) || isAlpha x) = true
    · have hp : hostPred st x = ({ st with nameLen := st.nameLen + 1, onlyNumeric := false, labelLen := st.labelLen + 1 }, true) := by
        unfold hostPred
        simp only [hdot, Bool.false_and, Bool.false_eq_true, if_false, decide_eq_true_eq, h62, decide_false, hal, if_true]
      rw [hp]
      simp only [if_true]
      rw [ih _ (fun y hy => hin y (by simp [hy])) (by simp) (by simp; omega)]
      have hnd : isDigit x = false := by
        simp only [Bool.or_eq_true, Bool.and_eq_true] at hal
        rcases hal with (h | h) | h
        · have := h.1; simp at this; subst this; decide
        · have := h.1; simp at this; subst this; decide
        · revert h; unfold isAlpha isDigit; simp; omega
      simp [hnd]; omega
    · have hdg : isDigit x = true := by
        simp only [Bool.or_eq_true, Bool.and_eq_true, not_or] at hal
        simp only [Bool.or_eq_true] at hx
        rcases hx with (h | h) | h
        · exact absurd h hal.2
        · exact h
        · exfalso; apply hal.1.2; exact ⟨h, by simpa using hpos⟩
      have hp : hostPred st x = ({ st with nameLen := st.nameLen + 1, labelLen := st.labelLen + 1 }, true) := by
        unfold hostPred
        simp only [hdot, Bool.false_and, Bool.false_eq_true, if_false, decide_eq_true_eq, h62, decide_false, hal, hdg, if_true]
      rw [hp]
      simp only [if_true]
      rw [ih _ (fun y hy => hin y (by simp [hy])) (by simp) (by simp; omega)]
      simp [hdg]; omega

/-- a whole label from a label boundary -/
theorem hostRun_label {l : Bytes} (hl : HostLabel l) (st : HostSt) (h0 : st.labelLen = 0) :
    hostRun l st = some { st with labelLen := l.length, nameLen := st.nameLen + l.length,
                                   onlyNumeric := st.onlyNumeric && l.all isDigit } := by
  obtain ⟨c, t, rfl, hc, ht, hlen⟩ := hl
  have hdot := host_not_dot c (Or.inl hc)
  have h62 : ¬ (st.labelLen ≥ 63 - 1) := by omega
  unfold hostRun
  unfold hostFirst at hc
  simp only [List.length_cons] at hlen
  by_cases hal : ((c == 95 && st.labelLen == 0) || (c == 45 && decide (st.labelLen > 0)) || isAlpha c) = true
  · have hp : hostPred st c = ({ st with nameLen := st.nameLen + 1, onlyNumeric := false, labelLen := st.labelLen + 1 }, true) := by
      unfold hostPred
      simp only [hdot, Bool.false_and, Bool.false_eq_true, if_false, decide_eq_true_eq, h62, decide_false, hal, if_true]
    rw [hp]
    simp only [if_true]
    rw [hostRun_inner t _ ht (by simp) (by simp [h0]; omega)]
    have hnd : isDigit c = false := by
      simp only [Bool.or_eq_true, Bool.and_eq_true] at hal
      rcases hal with (h | h) | h
      · have := h.1; simp at this; subst this; decide
      · have := h.1; simp at this; subst this; decide
      · revert h; unfold isAlpha isDigit; simp; omega
    simp [hnd, h0]; omega
  · have hdg : isDigit c = true := by
      simp only [Bool.or_eq_true, Bool.and_eq_true, not_or] at hal
      simp only [Bool.or_eq_true] at hc
      rcases hc with (h | h) | h
      · exact absurd h hal.2
      · exact h
      · exfalso; apply hal.1.1; exact ⟨h, by simp [h0]⟩
    have hp : hostPred st c = ({ st with nameLen := st.nameLen + 1, labelLen := st.labelLen + 1 }, true) := by
      unfold hostPred
      simp only [hdot, Bool.false_and, Bool.false_eq_true, if_false, decide_eq_true_eq, h62, decide_false, hal, hdg, if_true]
    rw [hp]
    simp only [if_true]
    rw [hostRun_inner t _ ht (by simp) (by simp [h0]; omega)]
    simp [hdg, h0]; omega

theorem hostLabel_pos {l : Bytes} (h : HostLabel l) : 0 < l.length := by
  obtain ⟨c, t, rfl, _⟩ := h; simp

/-- a label followed by its dot -/
theorem hostRun_label_dot {l : Bytes} (hl : HostLabel l) (st : HostSt) (h0 : st.labelLen = 0) :
    hostRun (l ++ [46]) st = some { st with labelLen := 0, nameLen := st.nameLen + l.length + 1,
                                             onlyNumeric := st.onlyNumeric && l.all isDigit } := by
  rw [hostRun_append, hostRun_label hl st h0]
  simp only [Option.bind_some]
  have hpos := hostLabel_pos hl
  unfold hostRun
  have hp : hostPred { st with labelLen := l.length, nameLen := st.nameLen + l.length, onlyNumeric := st.onlyNumeric && l.all isDigit } 46 =
      ({ st with labelLen := 0, nameLen := st.nameLen + l.length + 1, onlyNumeric := st.onlyNumeric && l.all isDigit }, true) := by
    unfold hostPred
    have : (l.length == 0) = false := by rw [beq_eq_false_iff_ne]; omega
    simp [this]
  rw [hp]
  simp [hostRun]

theorem hostRun_dotted : ∀ (done : List Bytes) (st : HostSt), (∀ l ∈ done, HostLabel l) → st.labelLen = 0 →
    hostRun (dotted done) st = some { st with labelLen := 0, nameLen := st.nameLen + (dotted done).length,
                                               onlyNumeric := st.onlyNumeric && done.all (fun l => l.all isDigit) } := by
  intro done
  induction done with
  | nil => intro st _ h0; cases st; simp_all [dotted, hostRun]
  | cons l done ih =>
    intro st hd h0
    have e : dotted (l :: done) = (l ++ [46]) ++ dotted done := by simp [dotted]
    rw [e, hostRun_append, hostRun_label_dot (hd l (by simp)) st h0]
    simp only [Option.bind_some]
    rw [ih _ (fun x hx => hd x (by simp [hx])) rfl]
    simp [Bool.and_assoc]; omega

end Dns

namespace Dns
open Res

/-- host-name text of the grammar: labels each followed by a dot, then possibly a last label without
dot; not empty; not "all digits and a final dot" -/
def HostText (name : Bytes) : Prop :=
  ∃ done cur, name = dotted done ++ cur ∧ (∀ l ∈ done, HostLabel l) ∧ (cur = [] ∨ HostLabel cur) ∧ name ≠ [] ∧
    ¬ (cur = [] ∧ ∀ l ∈ done, l.all isDigit = true)

/-- what may follow a host name: nothing, or a character that cannot continue one -/
def HostStop (rest : Bytes) : Prop := rest = [] ∨ ∃ c r, rest = c :: r ∧ hostChar c = false

theorem hostPred_stop (st : HostSt) (c : UInt8) (h : hostChar c = false) :
    hostPred st c = ({ st with nameLen := st.nameLen + 1 }, false) := by
  unfold hostChar at h
  simp only [Bool.or_eq_false_iff] at h
  obtain ⟨⟨⟨⟨h46, h45⟩, h95⟩, hal⟩, hdg⟩ := h
  unfold hostPred
  simp [h46, h45, h95, hal, hdg]

theorem hostLoop_stop (st : HostSt) (acc rest : Bytes) (hs : HostStop rest) :
    ∃ st', hostLoop rest st acc = (st', acc.reverse, rest) ∧ st'.formatErr = st.formatErr ∧
      st'.onlyNumeric = st.onlyNumeric ∧ st'.labelLen = st.labelLen := by
  rcases hs with rfl | ⟨c, r, rfl, hc⟩
  · exact ⟨st, by simp [hostLoop], rfl, rfl, rfl⟩
  · refine ⟨{ st with nameLen := st.nameLen + 1 }, ?_, rfl, rfl, rfl⟩
    simp [hostLoop, hostPred_stop st c hc]

theorem hostnameP_lang {name rest : Bytes} (h : HostText name) (hs : HostStop rest) :
    hostnameP (name ++ rest) = some (name, rest) := by
  obtain ⟨done, cur, hname, hd, hc, hne, hnum⟩ := h
  have hrun : ∃ st', hostRun name {} = some st' ∧ st'.formatErr = false ∧ st'.labelLen = cur.length ∧
      st'.onlyNumeric = (done.all (fun l => l.all isDigit) && cur.all isDigit) := by
    rw [hname, hostRun_append, hostRun_dotted done {} hd rfl]
    simp only [Option.bind_some]
    rcases hc with rfl | hcl
    · refine ⟨{ labelLen := 0, nameLen := (0 : Nat) + (dotted done).length, onlyNumeric := true && done.all (fun l => l.all isDigit),
                formatErr := false }, by simp [hostRun], rfl, by simp, by simp⟩
    · rw [hostRun_label hcl _ rfl]
      exact ⟨_, rfl, rfl, by simp, by simp⟩
  obtain ⟨st', hr, hfe, hll, hon⟩ := hrun
  unfold hostnameP
  rw [hostLoop_run name {} st' [] rest hr]
  obtain ⟨st'', hl, h1, h2, h3⟩ := hostLoop_stop st' (name.reverse ++ []) rest hs
  rw [hl]
  simp only [List.append_nil, List.reverse_reverse]
  have hemp : name.isEmpty = false := by cases name with
    | nil => exact absurd rfl hne
    | cons _ _ => rfl
  have hbad : (st''.formatErr || (st''.onlyNumeric && st''.labelLen == 0)) = false := by
    rw [h1, h2, h3, hfe, hon, hll]
    simp only [Bool.false_or]
    by_cases hcur : cur = []
    · subst hcur
      have : ¬ (∀ l ∈ done, l.all isDigit = true) := fun hx => hnum ⟨rfl, hx⟩
      have hda : done.all (fun l => l.all isDigit) = false := by
        rw [Bool.eq_false_iff]; intro hx; apply this; simpa [List.all_eq_true] using hx
      simp [hda]
    · have : (cur.length == 0) = false := by
        rw [beq_eq_false_iff_ne]; intro h0; exact hcur (List.length_eq_zero_iff.1 h0)
      simp [this]
  simp [hemp, hbad]

/-- the single dot -/
theorem hostnameP_dot {rest : Bytes} (hs : HostStop rest) : hostnameP ([46] ++ rest) = some ([46], rest) := by
  have hr : hostRun [46] {} = some { labelLen := 0, nameLen := 1, onlyNumeric := false, formatErr := false } := by
    simp [hostRun, hostPred]
  unfold hostnameP
  rw [hostLoop_run [46] {} _ [] rest hr]
  obtain ⟨st'', hl, h1, h2, h3⟩ := hostLoop_stop { labelLen := 0, nameLen := 1, onlyNumeric := false, formatErr := false }
    ([46].reverse ++ []) rest hs
  rw [hl]
  simp [h1, h2]

end Dns

namespace Dns
open Res

/-! ### IPv4 -/

/-- a decimal numeral: non-empty digit string -/
def Numeral (ds : Bytes) : Prop := ds ≠ [] ∧ ∀ c ∈ ds, isDigit c = true

theorem tokenP_cons (c : UInt8) (r : Bytes) : tokenP c (c :: r) = some r := by simp [tokenP]

theorem ipv4P_lang {d0 d1 d2 d3 rest : Bytes} (h0 : Numeral d0) (h1 : Numeral d1) (h2 : Numeral d2) (h3 : Numeral d3)
    (v0 : decVal d0 ≤ 255) (v1 : decVal d1 ≤ 255) (v2 : decVal d2 ≤ 255) (v3 : decVal d3 ≤ 255) (hs : StopF isDigit rest) :
    ipv4P (d0 ++ 46 :: (d1 ++ 46 :: (d2 ++ 46 :: (d3 ++ rest)))) =
      some ([UInt8.ofNat (decVal d0), UInt8.ofNat (decVal d1), UInt8.ofNat (decVal d2), UInt8.ofNat (decVal d3)], rest) := by
  have hdot : ∀ r : Bytes, StopF isDigit (46 :: r) := fun r => stopF_cons (by decide)
  unfold ipv4P
  simp only [Option.bind_eq_bind, decimalMax_lang h0.1 h0.2 (hdot _) v0, Option.bind_some, tokenP_cons,
    decimalMax_lang h1.1 h1.2 (hdot _) v1, decimalMax_lang h2.1 h2.2 (hdot _) v2, decimalMax_lang h3.1 h3.2 hs v3,
    Option.pure_def]

/-! ### hex strings -/

/-- two hex digits per byte -/
inductive HexText : Bytes → Bytes → Prop
  | nil : HexText [] []
  | cons {a b : UInt8} {s v : Bytes} : isHexDigit a = true → isHexDigit b = true → HexText s v →
      HexText (a :: b :: s) (UInt8.ofNat (hexDigitVal a * 16 + hexDigitVal b) :: v)

theorem HexText.digits {s v : Bytes} (h : HexText s v) : ∀ c ∈ s, isHexDigit c = true := by
  induction h with
  | nil => intro c hc; simp at hc
  | cons ha hb _ ih =>
    intro c hc
    simp at hc
    rcases hc with rfl | rfl | hc
    · exact ha
    · exact hb
    · exact ih c hc

theorem hexPairs_text {s v : Bytes} (h : HexText s v) : hexPairs s = some v := by
  induction h with
  | nil => rfl
  | cons _ _ _ ih => simp [hexPairs, ih]

theorem hexStringP_lang {s v rest : Bytes} (h : HexText s v) (hne : s ≠ []) (hs : StopF isHexDigit rest) :
    hexStringP (s ++ rest) = some (v, rest) := by
  unfold hexStringP
  rw [takeWhile1_lang hne h.digits hs]
  simp [hexPairs_text h]

/-! ### quoted strings -/

/-- how one byte of a quoted string may be written: itself (printable, neither quote nor backslash),
or backslash and three decimal digits -/
inductive EscEnc : UInt8 → Bytes → Prop
  | plain (c : UInt8) : c.toNat > 31 → c.toNat < 128 → c ≠ 92 → c ≠ 34 → EscEnc c [c]
  | esc (a b c : UInt8) : isDigit a = true → isDigit b = true → isDigit c = true →
      (a.toNat - 48) * 100 + (b.toNat - 48) * 10 + (c.toNat - 48) ≤ 255 →
      EscEnc (UInt8.ofNat ((a.toNat - 48) * 100 + (b.toNat - 48) * 10 + (c.toNat - 48))) [92, a, b, c]

/-- the text of a quoted body and the bytes it stands for -/
inductive QuotedText : Bytes → Bytes → Prop
  | nil : QuotedText [] []
  | cons {v : UInt8} {e t vs : Bytes} : EscEnc v e → QuotedText t vs → QuotedText (e ++ t) (v :: vs)

theorem escCharP_enc {v : UInt8} {e rest : Bytes} (h : EscEnc v e) : escCharP (e ++ rest) = some (v, rest) ∧
    ∃ c r, e ++ rest = c :: r ∧ (c == 34) = false := by
  cases h with
  | plain _ h1 h2 h3 h4 =>
    refine ⟨?_, v, rest, rfl, by simp [h4]⟩
    simp only [List.cons_append, List.nil_append]
    unfold escCharP
    split
    · first
        | exact absurd rfl h3
        | (rename_i heq; simp at heq; exact absurd heq.1 h3)
    · rename_i heq
      simp at heq
      obtain ⟨rfl, rfl⟩ := heq
      simp [h1, h2, h3]
    · rename_i heq; simp at heq
  | esc a b c ha hb hc hv =>
    refine ⟨?_, 92, a :: b :: c :: rest, rfl, by decide⟩
    simp [escCharP, ha, hb, hc, hv]

theorem quotedBody_text {t vs : Bytes} (h : QuotedText t vs) :
    ∀ (fuel : Nat) (rest acc : Bytes), fuel > vs.length →
      quotedBody fuel (t ++ 34 :: rest) acc = (acc.reverse ++ vs, 34 :: rest) := by
  induction h with
  | nil =>
    intro fuel rest acc hf
    cases fuel with
    | zero => omega
    | succ n => simp [quotedBody]
  | @cons v e t vs he _ ih =>
    intro fuel rest acc hf
    cases fuel with
    | zero => omega
    | succ n =>
      obtain ⟨hesc, c, r, hcr, hc34⟩ := escCharP_enc (rest := t ++ 34 :: rest) he
      have e1 : e ++ t ++ 34 :: rest = e ++ (t ++ 34 :: rest) := by simp
      rw [e1]
      unfold quotedBody
      rw [hcr]
      simp only [hc34, Bool.false_eq_true, if_false]
      rw [← hcr, hesc]
      simp only
      rw [ih n rest (v :: acc) (by simp at hf; omega)]
      simp

theorem quotedP_lang {t vs rest : Bytes} (h : QuotedText t vs) (hne : vs ≠ []) :
    quotedP (34 :: (t ++ 34 :: rest)) = some (vs, rest) := by
  unfold quotedP
  simp only [Option.bind_eq_bind, tokenP_cons, Option.bind_some]
  have hlen : (t ++ 34 :: rest).length + 1 > vs.length := by
    have : vs.length ≤ t.length := by
      clear hne
      induction h with
      | nil => simp
      | @cons v e t vs he _ ih =>
        have : 1 ≤ e.length := by cases he <;> simp
        simp; omega
    simp; omega
  rw [quotedBody_text h _ rest [] hlen]
  have : vs.isEmpty = false := by cases vs with
    | nil => exact absurd rfl hne
    | cons _ _ => rfl
  simp [this, tokenP_cons]

end Dns

namespace Dns
open Res

/-! ### IPv6 -/

/-- one group: 1..4 hex digits -/
def HexGroup (ds : Bytes) : Prop := ds ≠ [] ∧ ds.length ≤ 4 ∧ ∀ c ∈ ds, isHexDigit c = true

def hexGroupVal (ds : Bytes) : Nat := ds.foldl (fun a d => a * 16 + hexDigitVal d) 0

theorem v6Number_lang {ds rest : Bytes} (h : HexGroup ds) (hs : StopF isHexDigit rest) :
    v6Number (ds ++ rest) = some (hexGroupVal ds, rest) := by
  obtain ⟨hne, hlen, hd⟩ := h
  unfold v6Number
  simp only [takeWhile_append hd hs]
  have h1 : ds.isEmpty = false := by cases ds with
    | nil => exact absurd rfl hne
    | cons _ _ => rfl
  have h2 : ¬ (ds.length > 4) := by omega
  simp [h1, h2, hexGroupVal]

theorem v6Number_colon (r : Bytes) : v6Number (58 :: r) = none := by
  unfold v6Number
  have : (58 : UInt8) :: r = [] ++ (58 :: r) := rfl
  rw [this, takeWhile_append (f := isHexDigit) (a := []) (by simp) (stopF_cons (by decide))]
  simp

/-- groups each preceded by a colon -/
def colonGroups (gs : List Bytes) : Bytes := gs.flatMap (fun g => 58 :: g)

/-- nothing more to read: not a colon followed by a group -/
def V6End (rest : Bytes) : Prop := StopF isHexDigit rest ∧ ∀ r, rest = 58 :: r → v6Number r = none

theorem v6End_nil : V6End [] := ⟨stopF_nil _, by intro r h; simp at h⟩
theorem v6End_dcolon (r : Bytes) : V6End (58 :: 58 :: r) :=
  ⟨stopF_cons (by decide), by intro r' h; simp at h; rw [← h]; exact v6Number_colon r⟩

theorem stopHex_colonGroups (gs : List Bytes) (rest : Bytes) (hs : StopF isHexDigit rest) :
    StopF isHexDigit (colonGroups gs ++ rest) := by
  cases gs with
  | nil => simpa [colonGroups] using hs
  | cons g gs => simp only [colonGroups, List.flatMap_cons, List.cons_append]; exact stopF_cons (by decide)

theorem v6Groups_colon : ∀ (gs : List Bytes) (limit idx : Nat) (acc : List Nat) (rest : Bytes), idx > 0 →
    gs.length ≤ limit → (∀ g ∈ gs, HexGroup g) → V6End rest → (gs.length = limit ∨ True) →
    v6Groups limit idx (colonGroups gs ++ rest) acc = (acc.reverse ++ gs.map hexGroupVal, rest) := by
  intro gs
  induction gs with
  | nil =>
    intro limit idx acc rest hidx _ _ hend _
    cases limit with
    | zero => simp [v6Groups, colonGroups]
    | succ n =>
      simp only [colonGroups, List.flatMap_nil, List.nil_append]
      unfold v6Groups
      have hpos : idx > 0 := hidx
      simp only [hpos, if_true]
      cases rest with
      | nil => simp [tokenP]
      | cons c r =>
        by_cases hc : c = 58
        · subst hc
          simp [tokenP, hend.2 r rfl]
        · have : (c == 58) = false := by simp [hc]
          simp [tokenP, this]
  | cons g gs ih =>
    intro limit idx acc rest hidx hlen hg hend _
    cases limit with
    | zero => simp at hlen
    | succ n =>
      have e : colonGroups (g :: gs) ++ rest = 58 :: (g ++ (colonGroups gs ++ rest)) := by simp [colonGroups]
      rw [e]
      unfold v6Groups
      have hpos : idx > 0 := hidx
      simp only [hpos, if_true, tokenP_cons]
      rw [v6Number_lang (hg g (by simp)) (stopHex_colonGroups gs rest hend.1)]
      simp only
      rw [ih n (idx + 1) (hexGroupVal g :: acc) rest (by omega) (by simpa using hlen) (fun x hx => hg x (by simp [hx])) hend (Or.inr trivial)]
      simp

/-- `limit` reached: the remaining text is not looked at -/
theorem v6Groups_limit : ∀ (gs : List Bytes) (idx : Nat) (acc : List Nat) (rest : Bytes), idx > 0 →
    (∀ g ∈ gs, HexGroup g) → StopF isHexDigit rest →
    v6Groups gs.length idx (colonGroups gs ++ rest) acc = (acc.reverse ++ gs.map hexGroupVal, rest) := by
  intro gs
  induction gs with
  | nil => intro idx acc rest _ _ _; simp [v6Groups, colonGroups]
  | cons g gs ih =>
    intro idx acc rest hidx hg hs
    have e : colonGroups (g :: gs) ++ rest = 58 :: (g ++ (colonGroups gs ++ rest)) := by simp [colonGroups]
    rw [e]
    simp only [List.length_cons]
    unfold v6Groups
    have hpos : idx > 0 := hidx
    simp only [hpos, if_true, tokenP_cons]
    rw [v6Number_lang (hg g (by simp)) (stopHex_colonGroups gs rest hs)]
    simp only
    rw [ih (idx + 1) (hexGroupVal g :: acc) rest (by omega) (fun x hx => hg x (by simp [hx])) hs]
    simp

/-- text of a run of groups starting without colon: empty, or `g0:g1:...` -/
def groupsText : List Bytes → Bytes
  | [] => []
  | g :: gs => g ++ colonGroups gs

theorem v6Groups_start (gs : List Bytes) (limit : Nat) (rest : Bytes) (hlen : gs.length ≤ limit)
    (hg : ∀ g ∈ gs, HexGroup g) (hend : V6End rest) (hfirst : gs = [] → v6Number rest = none) :
    v6Groups limit 0 (groupsText gs ++ rest) [] = (gs.map hexGroupVal, rest) := by
  cases gs with
  | nil =>
    cases limit with
    | zero => simp [v6Groups, groupsText]
    | succ n =>
      simp only [groupsText, List.nil_append]
      unfold v6Groups
      simp [hfirst rfl]
  | cons g gs =>
    cases limit with
    | zero => simp at hlen
    | succ n =>
      simp only [groupsText, List.append_assoc]
      unfold v6Groups
      simp only [Nat.lt_irrefl, gt_iff_lt, if_false]
      rw [v6Number_lang (hg g (by simp)) (stopHex_colonGroups gs rest hend.1)]
      simp only
      rw [v6Groups_colon gs n 1 [hexGroupVal g] rest (by omega) (by simpa using hlen) (fun x hx => hg x (by simp [hx])) hend (Or.inr trivial)]
      simp

/-- IPv6 text: eight groups, or a head and a tail of groups around `::` (at most seven in all) -/
inductive V6Text : Bytes → List Nat → Prop
  | full (gs : List Bytes) : gs.length = 8 → (∀ g ∈ gs, HexGroup g) → V6Text (groupsText gs) (gs.map hexGroupVal)
  | compressed (hs ts : List Bytes) : hs.length + ts.length ≤ 7 → (∀ g ∈ hs, HexGroup g) → (∀ g ∈ ts, HexGroup g) →
      V6Text (groupsText hs ++ 58 :: 58 :: groupsText ts)
        (hs.map hexGroupVal ++ List.replicate (8 - hs.length - ts.length) 0 ++ ts.map hexGroupVal)

theorem ipv6FromStr_text {s : Bytes} {gs : List Nat} (h : V6Text s gs) : ipv6FromStr s = some ((gs.map put16).flatten) := by
  cases h with
  | full gl hlen hg =>
    unfold ipv6FromStr
    have := v6Groups_start gl 8 [] (by omega) hg v6End_nil (by intro e; subst e; simp at hlen)
    simp only [List.append_nil] at this
    rw [this]
    simp [hlen]
  | compressed hs ts hlen hgh hgt =>
    unfold ipv6FromStr
    have h1 := v6Groups_start hs 8 (58 :: 58 :: groupsText ts) (by omega) hgh (v6End_dcolon _)
      (fun _ => v6Number_colon _)
    rw [h1]
    have hne8 : ((hs.map hexGroupVal).length == 8) = false := by simp; omega
    simp only [hne8, Bool.false_eq_true, if_false, tokenP_cons]
    have hfirst : ts = [] → v6Number ([] : Bytes) = none := by intro _; simp [v6Number]
    have h2 := v6Groups_start ts (8 - ((hs.map hexGroupVal).length + 1)) [] (by simp; omega) hgt v6End_nil hfirst
    simp only [List.append_nil] at h2
    rw [h2]
    simp

theorem v6Text_chars {s : Bytes} {gs : List Nat} (h : V6Text s gs) : s ≠ [] ∧ ∀ c ∈ s, (isHexDigit c || c == 58) = true := by
  have hgrp : ∀ l : List Bytes, (∀ g ∈ l, HexGroup g) → ∀ c ∈ groupsText l, (isHexDigit c || c == 58) = true := by
    intro l hl c hc
    cases l with
    | nil => simp [groupsText] at hc
    | cons g gl =>
      simp only [groupsText, List.mem_append, colonGroups, List.mem_flatMap] at hc
      rcases hc with hc | ⟨x, hx, hcx⟩
      · simp [(hl g (by simp)).2.2 c hc]
      · simp at hcx
        rcases hcx with rfl | hcx
        · simp
        · simp [(hl x (by simp [hx])).2.2 c hcx]
  cases h with
  | full gl hlen hg =>
    refine ⟨?_, hgrp gl hg⟩
    cases gl with
    | nil => simp at hlen
    | cons g gl' =>
      have := (hg g (by simp)).1
      simp [groupsText]
      intro e; exact absurd e this
  | compressed hs ts _ hgh hgt =>
    refine ⟨by simp, ?_⟩
    intro c hc
    simp only [List.mem_append, List.mem_cons] at hc
    rcases hc with hc | rfl | rfl | hc
    · exact hgrp hs hgh c hc
    · simp
    · simp
    · exact hgrp ts hgt c hc

theorem ipv6P_lang {s rest : Bytes} {gs : List Nat} (h : V6Text s gs) (hs : StopF (fun c => isHexDigit c || c == 58) rest) :
    ipv6P (s ++ rest) = some ((gs.map put16).flatten, rest) := by
  obtain ⟨hne, hch⟩ := v6Text_chars h
  unfold ipv6P
  rw [takeWhile1_lang hne hch hs]
  simp [ipv6FromStr_text h]

end Dns
