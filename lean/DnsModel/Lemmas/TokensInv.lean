/-
  Lemmas.TokensInv — the token parsers accept *only* their languages (converse of Lemmas/Tokens).
-/
import DnsModel.Lemmas.SynthComplete
namespace Dns
open Res

theorem dropWhile_stop (f : UInt8 → Bool) (t : Bytes) : StopF f (t.dropWhile f) := by
  induction t with
  | nil => exact stopF_nil f
  | cons c t ih =>
    by_cases hc : f c = true
    · simp only [List.dropWhile, hc]; exact ih
    · simp only [List.dropWhile, hc]; exact stopF_cons (by simpa using hc)

theorem takeWhile_all (f : UInt8 → Bool) (t : Bytes) : ∀ c ∈ t.takeWhile f, f c = true := by
  induction t with
  | nil => intro c hc; simp at hc
  | cons x t ih =>
    intro c hc
    by_cases hx : f x = true
    · simp only [List.takeWhile, hx] at hc
      simp at hc
      rcases hc with rfl | hc
      · exact hx
      · exact ih c hc
    · simp [List.takeWhile, hx] at hc

theorem drop_takeWhile_length (f : UInt8 → Bool) (t : Bytes) : t.drop (t.takeWhile f).length = t.dropWhile f := by
  induction t with
  | nil => rfl
  | cons x t ih =>
    by_cases hx : f x = true
    · simp [List.takeWhile, List.dropWhile, hx, ih]
    · simp [List.takeWhile, List.dropWhile, hx]

theorem skipWhile_inv (f : UInt8 → Bool) (t : Bytes) :
    ∃ a, t = a ++ skipWhile f t ∧ (∀ c ∈ a, f c = true) ∧ StopF f (skipWhile f t) :=
  ⟨t.takeWhile f, (List.takeWhile_append_dropWhile).symm, takeWhile_all f t, dropWhile_stop f t⟩

theorem takeWhile1_inv {f : UInt8 → Bool} {t a rest : Bytes} (h : takeWhile1 f t = some (a, rest)) :
    t = a ++ rest ∧ a ≠ [] ∧ (∀ c ∈ a, f c = true) ∧ StopF f rest := by
  unfold takeWhile1 at h
  simp only at h
  split at h
  · simp at h
  · rename_i hne
    simp at h
    obtain ⟨rfl, rfl⟩ := h
    have hd : t.drop (t.takeWhile f).length = t.dropWhile f := drop_takeWhile_length f t
    refine ⟨by rw [hd]; exact (List.takeWhile_append_dropWhile).symm, ?_, takeWhile_all f t, by rw [hd]; exact dropWhile_stop f t⟩
    intro e; rw [e] at hne; simp at hne

theorem skipHws1_inv {t rest : Bytes} (h : skipHws1 t = some rest) :
    ∃ a, t = a ++ rest ∧ Blanks1 a ∧ StopF isHws rest := by
  cases t with
  | nil => simp [skipHws1] at h
  | cons c r =>
    simp only [skipHws1] at h
    split at h
    · rename_i hc
      simp at h
      obtain ⟨a, ha, hall, hstop⟩ := skipWhile_inv isHws r
      rw [h] at ha hstop
      refine ⟨c :: a, by rw [ha]; simp, ⟨by simp, ?_⟩, hstop⟩
      intro x hx
      simp at hx
      rcases hx with rfl | hx
      · exact hc
      · exact hall x hx
    · simp at h

theorem tokenP_inv {c : UInt8} {t rest : Bytes} (h : tokenP c t = some rest) : t = c :: rest := by
  cases t with
  | nil => simp [tokenP] at h
  | cons x r =>
    simp only [tokenP] at h
    split at h
    · rename_i hx; simp at h hx; rw [hx, h]
    · simp at h

theorem decimalMax_inv {max : Nat} {t rest : Bytes} {n : Nat} (h : decimalMax max t = some (n, rest)) :
    ∃ ds, t = ds ++ rest ∧ Numeral ds ∧ StopF isDigit rest ∧ n = decVal ds ∧ n ≤ max := by
  have hle := decimalMax_le h
  rw [decimalMax_eq] at h
  cases ht : takeWhile1 isDigit t with
  | none => rw [ht] at h; simp at h
  | some x =>
    obtain ⟨ds, r⟩ := x
    rw [ht] at h
    simp only [Option.map_eq_some_iff, Prod.mk.injEq] at h
    obtain ⟨v, hv, rfl, rfl⟩ := h
    obtain ⟨e, hne, hall, hstop⟩ := takeWhile1_inv ht
    refine ⟨ds, e, ⟨hne, hall⟩, hstop, ?_, hle⟩
    rw [decFold_spec max ds 0 (by omega)] at hv
    split at hv
    · simp at hv; exact hv.symm
    · simp at hv

end Dns

namespace Dns
open Res

/-! ### host names -/

theorem hostLoop_inv : ∀ (i : Bytes) (st : HostSt) (acc : Bytes) (st' : HostSt) (name rest : Bytes),
    hostLoop i st acc = (st', name, rest) →
    ∃ a st1, i = a ++ rest ∧ name = acc.reverse ++ a ∧ hostRun a st = some st1 ∧ (rest = [] → st' = st1) ∧
      (∀ c r, rest = c :: r → (hostPred st1 c).2 = false ∧ st' = (hostPred st1 c).1) := by
  intro i
  induction i with
  | nil =>
    intro st acc st' name rest h
    simp [hostLoop] at h
    obtain ⟨rfl, rfl, rfl⟩ := h
    exact ⟨[], st, rfl, by simp, rfl, fun _ => rfl, by intro c r e; simp at e⟩
  | cons x i ih =>
    intro st acc st' name rest h
    simp only [hostLoop] at h
    cases hp : hostPred st x with
    | mk s2 ok =>
      rw [hp] at h
      simp only at h
      by_cases hok : ok = true
      · simp only [hok, if_true] at h
        obtain ⟨a, st1, h1, h2, h3, h4, h5⟩ := ih s2 (x :: acc) st' name rest h
        refine ⟨x :: a, st1, by simp [h1], by simp [h2], ?_, h4, h5⟩
        simp [hostRun, hp, hok, h3]
      · simp only [hok, Bool.false_eq_true, if_false, Prod.mk.injEq] at h
        obtain ⟨rfl, rfl, rfl⟩ := h
        refine ⟨[], st, rfl, by simp, rfl, by intro e; simp at e, ?_⟩
        intro c r e
        simp at e
        obtain ⟨rfl, rfl⟩ := e
        simp [hp]
        simpa using hok

/-- one accepted non-dot character -/
theorem hostPred_ok_inv (st : HostSt) (c : UInt8) (hok : (hostPred st c).2 = true) (hc : c ≠ 46) :
    st.labelLen < 62 ∧ (st.labelLen = 0 → hostFirst c = true) ∧ (st.labelLen > 0 → hostInner c = true) ∧
      hostPred st c = ({ st with labelLen := st.labelLen + 1, nameLen := st.nameLen + 1,
                                  onlyNumeric := st.onlyNumeric && isDigit c }, true) := by
  have h46 : (c == 46) = false := by simp [hc]
  unfold hostPred at hok ⊢
  simp only [h46, Bool.false_and, Bool.false_eq_true, if_false] at hok ⊢
  by_cases h3 : (decide (st.labelLen ≥ 63 - 1) && (c == 45 || isAlpha c || isDigit c)) = true
  · simp [h3] at hok
  · simp only [h3, Bool.false_eq_true, if_false] at hok ⊢
    by_cases h4 : ((c == 95 && st.labelLen == 0) || (c == 45 && decide (st.labelLen > 0)) || isAlpha c) = true
    · simp only [h4, if_true]
      simp only [Bool.or_eq_true, Bool.and_eq_true, decide_eq_true_eq, beq_iff_eq] at h4
      have hnd : isDigit c = false := by
        rcases h4 with (⟨rfl, _⟩ | ⟨rfl, _⟩) | h
        · decide
        · decide
        · revert h; unfold isAlpha isDigit; simp; omega
      have hlt : st.labelLen < 62 := by
        rcases h4 with (⟨_, h0⟩ | ⟨rfl, _⟩) | h
        · omega
        · simp at h3; omega
        · simp [h] at h3; omega
      refine ⟨hlt, ?_, ?_, by simp [hnd]⟩
      · intro h0
        unfold hostFirst
        rcases h4 with (⟨rfl, _⟩ | ⟨_, hp⟩) | h
        · decide
        · omega
        · simp [h]
      · intro hp
        unfold hostInner
        rcases h4 with (⟨_, h0⟩ | ⟨rfl, _⟩) | h
        · omega
        · decide
        · simp [h]
    · simp only [h4, Bool.false_eq_true, if_false] at hok ⊢
      by_cases h5 : isDigit c = true
      · simp only [h5, if_true]
        have hlt : st.labelLen < 62 := by simp [h5] at h3; omega
        refine ⟨hlt, fun _ => by simp [hostFirst, h5], fun _ => by simp [hostInner, h5], by simp⟩
      · simp [h5] at hok

theorem hostRun_seg_inv : ∀ (l : Bytes) (st st' : HostSt), (∀ c ∈ l, c ≠ 46) → hostRun l st = some st' →
    st'.labelLen = st.labelLen + l.length ∧ st'.formatErr = st.formatErr ∧
      st'.onlyNumeric = (st.onlyNumeric && l.all isDigit) ∧ (l ≠ [] → st'.labelLen ≤ 62) ∧
      (∀ c t, l = c :: t → (st.labelLen = 0 → hostFirst c = true) ∧ (st.labelLen > 0 → hostInner c = true) ∧
        ∀ x ∈ t, hostInner x = true) := by
  intro l
  induction l with
  | nil =>
    intro st st' _ h
    simp [hostRun] at h
    subst h
    exact ⟨by simp, rfl, by simp, by simp, by intro c t e; simp at e⟩
  | cons c l ih =>
    intro st st' hnd h
    unfold hostRun at h
    split at h
    · rename_i hok
      obtain ⟨hlt, hf, hi, hp⟩ := hostPred_ok_inv st c hok (hnd c (by simp))
      rw [hp] at h
      simp only at h
      obtain ⟨a1, a2, a3, a4, a5⟩ := ih _ st' (fun x hx => hnd x (by simp [hx])) h
      simp only at a1 a2 a3 a4 a5
      refine ⟨by simp; omega, a2, by rw [a3]; simp [Bool.and_assoc], ?_, ?_⟩
      · intro _
        cases l with
        | nil => simp at a1; omega
        | cons y l' => exact a4 (by simp)
      · intro c' t e
        simp at e
        obtain ⟨rfl, rfl⟩ := e
        refine ⟨hf, hi, ?_⟩
        intro x hx
        cases l with
        | nil => simp at hx
        | cons y l' =>
          obtain ⟨_, b2, b3⟩ := a5 y l' rfl
          simp at hx
          rcases hx with rfl | hx
          · exact b2 (by simp)
          · exact b3 x hx
    · simp at h

theorem hostRun_dot_inv (st st' : HostSt) (hpos : st.labelLen > 0) (h : hostRun [46] st = some st') :
    st' = { st with labelLen := 0, nameLen := st.nameLen + 1 } := by
  have hz : (st.labelLen == 0) = false := by rw [beq_eq_false_iff_ne]; omega
  simp [hostRun, hostPred, hz] at h
  exact h.symm

/-- the accepted run over `dotted done ++ cur` (labels dot-free and non-empty): every label is a label
of the grammar -/
theorem hostRun_dotted_inv : ∀ (done : List Bytes) (cur : Bytes) (st st' : HostSt), st.labelLen = 0 →
    (∀ l ∈ done, l ≠ [] ∧ ∀ c ∈ l, c ≠ 46) → (∀ c ∈ cur, c ≠ 46) → hostRun (dotted done ++ cur) st = some st' →
    (∀ l ∈ done, HostLabel l) ∧ (cur = [] ∨ HostLabel cur) ∧ st'.labelLen = cur.length ∧ st'.formatErr = st.formatErr ∧
      st'.onlyNumeric = (st.onlyNumeric && done.all (fun l => l.all isDigit) && cur.all isDigit) := by
  intro done
  induction done with
  | nil =>
    intro cur st st' h0 _ hc h
    simp only [dotted, List.flatMap_nil, List.nil_append] at h
    obtain ⟨a1, a2, a3, a4, a5⟩ := hostRun_seg_inv cur st st' hc h
    refine ⟨by simp, ?_, by omega, a2, by simp [a3]⟩
    cases cur with
    | nil => exact Or.inl rfl
    | cons c t =>
      right
      obtain ⟨b1, _, b3⟩ := a5 c t rfl
      exact ⟨c, t, rfl, b1 h0, b3, by have := a4 (by simp); omega⟩
  | cons l done ih =>
    intro cur st st' h0 hd hc h
    have e : dotted (l :: done) ++ cur = l ++ ([46] ++ (dotted done ++ cur)) := by simp [dotted]
    rw [e, hostRun_append] at h
    cases h1 : hostRun l st with
    | none => rw [h1] at h; simp at h
    | some s1 =>
      rw [h1] at h
      simp only [Option.bind_some] at h
      rw [hostRun_append] at h
      cases h2 : hostRun [46] s1 with
      | none => rw [h2] at h; simp at h
      | some s2 =>
        rw [h2] at h
        simp only [Option.bind_some] at h
        obtain ⟨hlne, hlnd⟩ := hd l (by simp)
        obtain ⟨a1, a2, a3, a4, a5⟩ := hostRun_seg_inv l st s1 hlnd h1
        have hl : HostLabel l := by
          cases hl' : l with
          | nil => exact absurd hl' hlne
          | cons c t =>
            obtain ⟨b1, _, b3⟩ := a5 c t hl'
            exact ⟨c, t, rfl, b1 h0, b3, by have := a4 hlne; rw [hl'] at a1; simp at a1 ⊢; omega⟩
        have hpos : s1.labelLen > 0 := by
          have : l.length > 0 := by cases l with
            | nil => exact absurd rfl hlne
            | cons _ _ => simp
          omega
        have hs2 := hostRun_dot_inv s1 s2 hpos h2
        obtain ⟨c1, c2, c3, c4, c5⟩ := ih cur s2 st' (by rw [hs2]) (fun x hx => hd x (by simp [hx])) hc h
        refine ⟨?_, c2, c3, by rw [c4, hs2]; exact a2, ?_⟩
        · intro x hx
          simp at hx
          rcases hx with rfl | hx
          · exact hl
          · exact c1 x hx
        · rw [c5, hs2]
          simp only [a3, List.all_cons]
          simp [Bool.and_assoc]

end Dns

namespace Dns
open Res

/-- a failing predicate that does not flag a format error leaves the label state alone -/
theorem hostPred_fail (st : HostSt) (c : UInt8) (h : (hostPred st c).2 = false) (hfe : (hostPred st c).1.formatErr = false)
    (h0 : st.formatErr = false) :
    (hostPred st c).1.labelLen = st.labelLen ∧ (hostPred st c).1.onlyNumeric = st.onlyNumeric := by
  unfold hostPred at h hfe ⊢
  simp only at h hfe ⊢
  cases k1 : (c == 46 && st.labelLen == 0) with
  | true =>
    simp only [k1, if_true] at h hfe
    cases k1b : (st.nameLen + 1 != 1) with
    | true => simp [k1b] at hfe
    | false => simp [k1b] at h
  | false =>
    simp only [k1, Bool.false_eq_true, if_false] at h hfe ⊢
    cases k2 : (c == 46) with
    | true => simp [k2] at h
    | false =>
      simp only [k2, Bool.false_eq_true, if_false] at h hfe ⊢
      cases k3 : (decide (st.labelLen ≥ 63 - 1) && (c == 45 || isAlpha c || isDigit c)) with
      | true => simp [k3] at hfe
      | false =>
        simp only [k3, Bool.false_eq_true, if_false] at h hfe ⊢
        cases k4 : ((c == 95 && st.labelLen == 0) || (c == 45 && decide (st.labelLen > 0)) || isAlpha c) with
        | true => simp [k4] at h
        | false =>
          simp only [k4, Bool.false_eq_true, if_false] at h hfe ⊢
          cases k5 : isDigit c with
          | true => simp [k5] at h
          | false => simp

/-- **host names, converse**: what the parser takes as a host name and the converter accepts is a
host name of the grammar with the labels the converter returns -/
theorem hostname_inv {t name rest raw : Bytes} (hp : hostnameP t = some (name, rest)) (hr : rawNameFromStr name none = .ok raw) :
    t = name ++ rest ∧ ∃ ls, HostName name ls ∧ raw = encLabels ls ++ [0] := by
  unfold hostnameP at hp
  cases hl : hostLoop t {} [] with
  | mk st nr =>
    obtain ⟨n, r⟩ := nr
    rw [hl] at hp
    simp only at hp
    split at hp
    · simp at hp
    rename_i hne
    split at hp
    · simp at hp
    rename_i hbad
    simp at hp
    obtain ⟨rfl, rfl⟩ := hp
    obtain ⟨a, st1, h1, h2, h3, h4, h5⟩ := hostLoop_inv t {} [] st n r hl
    simp only [List.reverse_nil, List.nil_append] at h2
    subst h2
    refine ⟨h1, ?_⟩
    simp only [Bool.or_eq_true, Bool.and_eq_true, not_or, not_and, beq_iff_eq] at hbad
    obtain ⟨hfe, hnum⟩ := hbad
    have hfe' : st.formatErr = false := by simpa using hfe
    obtain ⟨_, hlen, hcase⟩ := C14.from_text_sound hr
    rcases hcase with ⟨rfl, rfl⟩ | ⟨done, cur, hname, hd, hc, hraw⟩
    · exact ⟨[], Or.inl ⟨rfl, rfl⟩, by simp [encLabels]⟩
    · rw [hname] at h3
      obtain ⟨c1, c2, c3, c4, c5⟩ := hostRun_dotted_inv done cur {} st1 rfl
        (fun l hl => ⟨(hd l hl).1, fun c hc' => ((hd l hl).2.2 c hc').1⟩) (fun c hc' => (hc.2 c hc').1) h3
      -- the final state the parser tested
      have hst : st.labelLen = st1.labelLen ∧ st.onlyNumeric = st1.onlyNumeric := by
        cases r with
        | nil => rw [h4 rfl]; exact ⟨rfl, rfl⟩
        | cons c r' =>
          obtain ⟨hf, hse⟩ := h5 c r' rfl
          rw [hse]
          exact hostPred_fail st1 c hf (by rw [← hse]; exact hfe') (by rw [c4])
      refine ⟨C14.labelsOf done cur, Or.inr ⟨done, cur, hname, c1, c2, ?_, ?_, rfl, ?_⟩, ?_⟩
      · intro e; rw [e] at hne; simp at hne
      · rintro ⟨rfl, hall⟩
        apply hnum
        · rw [hst.2, c5]
          simp [List.all_eq_true]
          intro x hx y hy
          have := hall x hx
          simp [List.all_eq_true] at this
          exact this y hy
        · rw [hst.1, c3]; rfl
      · have : raw.length = labSum (C14.labelsOf done cur) + 1 := by
          rw [hraw]; by_cases h : cur = [] <;> simp [h, encLabels_length]
        omega
      · rw [hraw]; by_cases h : cur = [] <;> simp [h]

end Dns

namespace Dns
open Res

/-! ### IPv4, hex strings, quoted strings, type words -/

theorem ipv4P_inv {t rest ip : Bytes} (h : ipv4P t = some (ip, rest)) :
    ∃ d0 d1 d2 d3, t = (d0 ++ 46 :: (d1 ++ 46 :: (d2 ++ 46 :: d3))) ++ rest ∧ RDataText 1 (d0 ++ 46 :: (d1 ++ 46 :: (d2 ++ 46 :: d3))) ip := by
  unfold ipv4P at h
  simp only [Option.bind_eq_bind, Option.bind_eq_some_iff, Option.pure_def, Option.some.injEq, Prod.mk.injEq] at h
  obtain ⟨⟨a, i1⟩, h1, i2, t1, ⟨b, i3⟩, h2, i4, t2, ⟨c, i5⟩, h3, i6, t3, ⟨d, i7⟩, h4, hip, hrest⟩ := h
  obtain ⟨d0, e0, n0, _, v0, l0⟩ := decimalMax_inv h1
  obtain ⟨d1, e1, n1, _, v1, l1⟩ := decimalMax_inv h2
  obtain ⟨d2, e2, n2, _, v2, l2⟩ := decimalMax_inv h3
  obtain ⟨d3, e3, n3, _, v3, l3⟩ := decimalMax_inv h4
  have q1 := tokenP_inv t1
  have q2 := tokenP_inv t2
  have q3 := tokenP_inv t3
  simp only at q1 q2 q3 e0 e1 e2 e3 hrest v0 v1 v2 v3 l0 l1 l2 l3
  subst hrest
  refine ⟨d0, d1, d2, d3, by rw [e0, q1, e1, q2, e2, q3, e3]; simp, ?_⟩
  rw [← hip, v0, v1, v2, v3]
  exact RDataText.a d0 d1 d2 d3 n0 n1 n2 n3 (by omega) (by omega) (by omega) (by omega)

theorem hexPairs_inv (s : Bytes) : ∀ (v : Bytes), hexPairs s = some v → (∀ c ∈ s, isHexDigit c = true) → HexText s v := by
  fun_induction hexPairs s with
  | case1 => intro v h _; simp at h; subst h; exact HexText.nil
  | case2 x => intro v h _; simp at h
  | case3 a b r ih =>
    intro v h hd
    simp only [Option.map_eq_some_iff] at h
    obtain ⟨t, ht, rfl⟩ := h
    exact HexText.cons (hd a (by simp)) (hd b (by simp)) (ih t ht (fun c hc => hd c (by simp [hc])))

theorem hexStringP_inv {t rest v : Bytes} (h : hexStringP t = some (v, rest)) :
    ∃ s, t = s ++ rest ∧ HexText s v ∧ s ≠ [] := by
  unfold hexStringP at h
  cases ht : takeWhile1 isHexDigit t with
  | none => rw [ht] at h; simp at h
  | some x =>
    obtain ⟨s, r⟩ := x
    rw [ht] at h
    simp only [Option.map_eq_some_iff, Prod.mk.injEq] at h
    obtain ⟨w, hw, rfl, rfl⟩ := h
    obtain ⟨e, hne, hall, _⟩ := takeWhile1_inv ht
    exact ⟨s, e, hexPairs_inv s w hw hall, hne⟩

theorem escCharP_inv {t rest : Bytes} {v : UInt8} (h : escCharP t = some (v, rest)) (hq : ∀ r, t ≠ 34 :: r) :
    ∃ e, t = e ++ rest ∧ EscEnc v e := by
  unfold escCharP at h
  split at h
  · rename_i a b c r
    split at h
    · rename_i hd
      simp only [Bool.and_eq_true] at hd
      simp only at h
      split at h
      · rename_i hv
        simp only [Option.some.injEq, Prod.mk.injEq] at h
        obtain ⟨rfl, rfl⟩ := h
        exact ⟨[92, a, b, c], by simp, EscEnc.esc a b c hd.1.1 hd.1.2 hd.2 hv⟩
      · simp at h
    · simp at h
  · rename_i c r hno
    split at h
    · rename_i hc
      simp at h
      obtain ⟨rfl, rfl⟩ := h
      simp only [Bool.and_eq_true, decide_eq_true_eq, bne_iff_ne, ne_eq] at hc
      refine ⟨[c], by simp, EscEnc.plain c hc.1.1 hc.1.2 hc.2 ?_⟩
      intro e; exact hq r (by rw [e])
    · simp at h
  · simp at h

theorem quotedBody_inv : ∀ (fuel : Nat) (i acc body rest : Bytes), quotedBody fuel i acc = (body, rest) →
    ∃ t vs, i = t ++ rest ∧ QuotedText t vs ∧ body = acc.reverse ++ vs := by
  intro fuel
  induction fuel with
  | zero => intro i acc body rest h; simp [quotedBody] at h; exact ⟨[], [], by simp [h.2], QuotedText.nil, by simp [h.1]⟩
  | succ n ih =>
    intro i acc body rest h
    unfold quotedBody at h
    cases i with
    | nil => simp at h; exact ⟨[], [], by simp [h.2], QuotedText.nil, by simp [h.1]⟩
    | cons c r =>
      simp only at h
      by_cases hc : (c == 34) = true
      · simp only [hc, if_true, Prod.mk.injEq] at h
        exact ⟨[], [], by simp [h.2], QuotedText.nil, by simp [h.1]⟩
      · simp only [hc, Bool.false_eq_true, if_false] at h
        cases he : escCharP (c :: r) with
        | none => rw [he] at h; simp at h; exact ⟨[], [], by simp [h.2], QuotedText.nil, by simp [h.1]⟩
        | some x =>
          obtain ⟨v, r'⟩ := x
          rw [he] at h
          simp only at h
          obtain ⟨e, hee, henc⟩ := escCharP_inv he (by intro r'' e'; simp at e'; simp [e'.1] at hc)
          obtain ⟨t, vs, h1, h2, h3⟩ := ih r' (v :: acc) body rest h
          exact ⟨e ++ t, v :: vs, by rw [hee, h1]; simp, QuotedText.cons henc h2, by rw [h3]; simp⟩

theorem quotedP_inv {t rest vs : Bytes} (h : quotedP t = some (vs, rest)) :
    ∃ body, t = (34 :: (body ++ [34])) ++ rest ∧ QuotedText body vs ∧ vs ≠ [] := by
  unfold quotedP at h
  simp only [Option.bind_eq_bind, Option.bind_eq_some_iff] at h
  obtain ⟨i1, h1, h⟩ := h
  have q1 := tokenP_inv h1
  cases hb : quotedBody (i1.length + 1) i1 [] with
  | mk body i2 =>
    rw [hb] at h
    simp only at h
    split at h
    · simp at h
    rename_i hne
    simp only [Option.bind_eq_some_iff, Option.pure_def, Option.some.injEq, Prod.mk.injEq] at h
    obtain ⟨i3, h3, rfl, rfl⟩ := h
    have q3 := tokenP_inv h3
    obtain ⟨tx, vs', e1, hq, e2⟩ := quotedBody_inv _ _ _ _ _ hb
    simp only [List.reverse_nil, List.nil_append] at e2
    subst e2
    refine ⟨tx, by rw [q1, e1, q3]; simp, hq, ?_⟩
    intro e; rw [e] at hne; simp at hne

theorem typeWord_inv {w : Bytes} {t : Nat} (h : rrTypeOfStr w = some t) : TypeWord w t := by
  unfold rrTypeOfStr eqNoCase at h
  consts
  unfold TypeWord
  split at h
  · rename_i hc; simp at h; subst h; left; exact ⟨by rw [beq_iff_eq.1 hc]; decide, rfl⟩
  split at h
  · rename_i hc; simp at h; subst h; right; left; exact ⟨by rw [beq_iff_eq.1 hc]; decide, rfl⟩
  split at h
  · rename_i hc; simp at h; subst h; right; right; left; exact ⟨by rw [beq_iff_eq.1 hc]; decide, rfl⟩
  split at h
  · rename_i hc; simp at h; subst h; right; right; right; left; exact ⟨by rw [beq_iff_eq.1 hc]; decide, rfl⟩
  split at h
  · rename_i hc; simp at h; subst h; right; right; right; right; left; exact ⟨by rw [beq_iff_eq.1 hc]; decide, rfl⟩
  split at h
  · rename_i hc; simp at h; subst h; right; right; right; right; right; left; exact ⟨by rw [beq_iff_eq.1 hc]; decide, rfl⟩
  split at h
  · rename_i hc; simp at h; subst h; right; right; right; right; right; right; left; exact ⟨by rw [beq_iff_eq.1 hc]; decide, rfl⟩
  split at h
  · rename_i hc; simp at h; subst h; right; right; right; right; right; right; right; left; exact ⟨by rw [beq_iff_eq.1 hc]; decide, rfl⟩
  split at h
  · rename_i hc; simp at h; subst h; right; right; right; right; right; right; right; right; exact ⟨by rw [beq_iff_eq.1 hc]; decide, rfl⟩
  · simp at h

end Dns

namespace Dns
open Res

/-! ### IPv6 -/

theorem v6Number_inv {i i' : Bytes} {g : Nat} (h : v6Number i = some (g, i')) :
    ∃ ds, HexGroup ds ∧ i = ds ++ i' ∧ g = hexGroupVal ds := by
  unfold v6Number at h
  simp only at h
  split at h
  · simp at h
  · rename_i hc
    simp only [Bool.or_eq_true, not_or, decide_eq_true_eq, Nat.not_lt] at hc
    simp only [Option.some.injEq, Prod.mk.injEq] at h
    obtain ⟨rfl, rfl⟩ := h
    refine ⟨i.takeWhile isHexDigit, ⟨?_, by omega, takeWhile_all _ _⟩, ?_, rfl⟩
    · intro e; rw [e] at hc; simp at hc
    · rw [drop_takeWhile_length]; exact (List.takeWhile_append_dropWhile).symm

theorem v6Groups_inv : ∀ (limit idx : Nat) (i : Bytes) (acc groups : List Nat) (rest : Bytes),
    v6Groups limit idx i acc = (groups, rest) →
    ∃ gs : List Bytes, (∀ g ∈ gs, HexGroup g) ∧ gs.length ≤ limit ∧ groups = acc.reverse ++ gs.map hexGroupVal ∧
      i = (if idx = 0 then groupsText gs else colonGroups gs) ++ rest := by
  intro limit
  induction limit with
  | zero =>
    intro idx i acc groups rest h
    simp [v6Groups] at h
    exact ⟨[], by simp, by simp, by simp [h.1], by simp [groupsText, colonGroups, h.2]⟩
  | succ n ih =>
    intro idx i acc groups rest h
    unfold v6Groups at h
    simp only at h
    split at h
    · rename_i g i' hr
      obtain ⟨gs, hg, hl, hgr, hi⟩ := ih (idx + 1) i' (g :: acc) groups rest h
      have hidx : ¬ (idx + 1 = 0) := by omega
      simp only [hidx, if_false] at hi
      by_cases h0 : idx > 0
      · simp only [h0, if_true] at hr
        cases ht : tokenP 58 i with
        | none => rw [ht] at hr; simp at hr
        | some i1 =>
          rw [ht] at hr
          simp only at hr
          obtain ⟨ds, hds, e1, e2⟩ := v6Number_inv hr
          have q := tokenP_inv ht
          have hne : ¬ (idx = 0) := by omega
          refine ⟨ds :: gs, ?_, by simp; omega, by rw [hgr, e2]; simp, ?_⟩
          · intro x hx; simp at hx; rcases hx with rfl | hx; exact hds; exact hg x hx
          · simp only [hne, if_false]
            rw [q, e1, hi]; simp [colonGroups]
      · have h00 : idx = 0 := by omega
        simp only [h0, if_false] at hr
        obtain ⟨ds, hds, e1, e2⟩ := v6Number_inv hr
        refine ⟨ds :: gs, ?_, by simp; omega, by rw [hgr, e2]; simp, ?_⟩
        · intro x hx; simp at hx; rcases hx with rfl | hx; exact hds; exact hg x hx
        · simp only [h00, if_true]
          rw [e1, hi]; simp [groupsText]
    · simp only [Prod.mk.injEq] at h
      exact ⟨[], by simp, by simp, by simp [h.1], by simp [groupsText, colonGroups, h.2]⟩

theorem ipv6FromStr_inv {s b : Bytes} (h : ipv6FromStr s = some b) : ∃ gs, V6Text s gs ∧ b = (gs.map put16).flatten := by
  unfold ipv6FromStr at h
  cases hg : v6Groups 8 0 s [] with
  | mk head i =>
    rw [hg] at h
    simp only at h
    obtain ⟨hs, hhs, hl, hgr, hi⟩ := v6Groups_inv 8 0 s [] head i hg
    simp only [if_true, List.reverse_nil, List.nil_append] at hgr hi
    by_cases h8 : (head.length == 8) = true
    · simp only [h8, if_true] at h
      split at h
      · rename_i hemp
        simp only [Option.map_some, Option.some.injEq] at h
        have : i = [] := by simpa using hemp
        subst this
        simp only [List.append_nil] at hi
        refine ⟨head, ?_, h.symm⟩
        rw [hi, hgr]
        exact V6Text.full hs (by simp at h8; rw [hgr] at h8; simpa using h8) hhs
      · simp at h
    · simp only [h8, Bool.false_eq_true, if_false] at h
      cases ht1 : tokenP 58 i with
      | none => rw [ht1] at h; simp at h
      | some i1 =>
        rw [ht1] at h
        simp only at h
        cases ht2 : tokenP 58 i1 with
        | none => rw [ht2] at h; simp at h
        | some i2 =>
          rw [ht2] at h
          simp only at h
          cases hg2 : v6Groups (8 - (head.length + 1)) 0 i2 [] with
          | mk tail i3 =>
            rw [hg2] at h
            simp only at h
            obtain ⟨ts, hts, hl2, hgr2, hi2⟩ := v6Groups_inv _ 0 i2 [] tail i3 hg2
            simp only [if_true, List.reverse_nil, List.nil_append] at hgr2 hi2
            split at h
            · rename_i hemp
              simp only [Option.map_some, Option.some.injEq] at h
              have : i3 = [] := by simpa using hemp
              subst this
              simp only [List.append_nil] at hi2
              have q1 := tokenP_inv ht1
              have q2 := tokenP_inv ht2
              have hlen : head.length = hs.length := by rw [hgr]; simp
              have hlen2 : tail.length = ts.length := by rw [hgr2]; simp
              have h8' : hs.length ≠ 8 := by simp at h8; omega
              refine ⟨_, ?_, h.symm⟩
              rw [hi, q1, q2, hi2, hgr, hgr2]
              have := V6Text.compressed hs ts (by omega) hhs hts
              simpa using this
            · simp at h

theorem ipv6P_inv {t rest ip : Bytes} (h : ipv6P t = some (ip, rest)) : ∃ s, t = s ++ rest ∧ RDataText 28 s ip := by
  unfold ipv6P at h
  cases ht : takeWhile1 (fun c => isHexDigit c || c == 58) t with
  | none => rw [ht] at h; simp at h
  | some x =>
    obtain ⟨s, r⟩ := x
    rw [ht] at h
    simp only [Option.map_eq_some_iff, Prod.mk.injEq] at h
    obtain ⟨a, ha, rfl, rfl⟩ := h
    obtain ⟨e, _, _, _⟩ := takeWhile1_inv ht
    obtain ⟨gs, hv, hb⟩ := ipv6FromStr_inv ha
    exact ⟨s, e, by rw [hb]; exact RDataText.aaaa s gs hv⟩

end Dns
