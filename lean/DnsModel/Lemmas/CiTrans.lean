/-
  Lemmas.CiTrans — if a record of `c` and a record of `u2` have the same canonical form, whatever
  is equal to the first up to case is equal to the second up to case.
-/
import DnsModel.Lemmas.CompressRun
namespace Dns
open Res

theorem take8_get16 {a b : Bytes} {i j : Nat} (h : (a.drop i).take 8 = (b.drop j).take 8) (ha : i + 8 ≤ a.length)
    (hb : j + 8 ≤ b.length) : get16 a i = get16 b j := by
  have e1 : (a.drop i).take 2 = (b.drop j).take 2 := by
    have := congrArg (List.take 2) h
    simpa [List.take_take] using this
  rw [put16_get16 (by omega), put16_get16 (by omega)] at e1
  have h1 := get16_lt a i
  have h2 := get16_lt b j
  unfold put16 at e1
  simp at e1
  obtain ⟨e3, e4⟩ := e1
  have := congrArg UInt8.toNat e3
  have := congrArg UInt8.toNat e4
  simp at *
  omega

theorem put16_inj {a b : Nat} (ha : a < 65536) (hb : b < 65536) (h : put16 a = put16 b) : a = b := by
  unfold put16 at h
  simp at h
  obtain ⟨e3, e4⟩ := h
  have := congrArg UInt8.toNat e3
  have := congrArg UInt8.toNat e4
  simp at *
  omega

/-- splitting two equal canonical forms -/
theorem canon_split {o1 o2 : List (List UInt8)} {f1 f2 rd1 rd2 : Bytes} (h1 : ∀ l ∈ o1, okLabel l) (h2 : ∀ l ∈ o2, okLabel l)
    (hf1 : f1.length = 8) (hf2 : f2.length = 8)
    (h : (encLabels o1 ++ [0]) ++ f1 ++ put16 rd1.length ++ rd1 = (encLabels o2 ++ [0]) ++ f2 ++ put16 rd2.length ++ rd2) :
    o1 = o2 ∧ f1 = f2 ∧ rd1 = rd2 := by
  have e0 : encLabels o1 ++ 0 :: (f1 ++ put16 rd1.length ++ rd1) = encLabels o2 ++ 0 :: (f2 ++ put16 rd2.length ++ rd2) := by
    simpa [List.append_assoc] using h
  have eo := encLabels_inj h1 h2 _ _ e0
  subst eo
  have e1 := List.append_cancel_left e0
  simp only [List.cons.injEq, true_and] at e1
  rw [List.append_assoc, List.append_assoc] at e1
  have e2 := List.append_inj e1 (by omega)
  obtain ⟨ef, e3⟩ := e2
  have e4 := List.append_inj e3 (by simp [put16])
  exact ⟨rfl, ef, e4.2⟩

end Dns

namespace Dns
open Res

/-- **transfer**: `r'` in `c` and `r2` in `u2` have the same canonical form `x`; a record `r` of `u`
equal to `r'` up to case is equal to `r2` up to case -/
theorem recCi_transfer {u c u2 : Bytes} {r r' r2 : RecPos} {sec sec2 : Section} {ob oa ob2 oa2 : Bool}
    (hrc : RRAtPos c sec r' ob oa) (hr2 : RRAtPos u2 sec2 r2 ob2 oa2) {x : Bytes}
    (hc : RecCanon c r' x) (h2 : RecCanon u2 r2 x) (hci : RecCi u r c r') (h10u : r.ne + 10 ≤ u.length) :
    RecCi u r u2 r2 := by
  obtain ⟨oc, rdc, hvoc, hrdc, hxc⟩ := hc
  obtain ⟨o2, rd2, hvo2, hrd2, hx2⟩ := h2
  obtain ⟨_, h10c, hnextc, hfitc, _⟩ := hrc
  obtain ⟨_, h102, hnext2, hfit2, _⟩ := hr2
  have hf8c : ((c.drop r'.ne).take 8).length = 8 := length_take_drop (by omega)
  have hf82 : ((u2.drop r2.ne).take 8).length = 8 := length_take_drop (by omega)
  obtain ⟨eo, ef, erd⟩ := canon_split (validName_ok hvoc).1 (validName_ok hvo2).1 hf8c hf82 (by rw [← hxc, ← hx2])
  subst eo; subst erd
  obtain ⟨ou, oc', hvou, hvoc', hcio, hf8, hrdci⟩ := hci
  have eoc : oc' = oc := (validName_functional hvoc' hvoc).1
  subst eoc
  have htc : get16 c r'.ne = get16 u r.ne := take8_get16 hf8 (by omega) (by omega)
  have ht2 : get16 u2 r2.ne = get16 c r'.ne := take8_get16 ef.symm (by omega) (by omega)
  refine ⟨ou, oc', hvou, hvo2, hcio, by rw [← ef, hf8], ?_⟩
  rw [htc] at hrdc
  rw [ht2, htc] at hrd2
  unfold RdCi at hrdci ⊢
  unfold RdCanon at hrdc hrd2
  by_cases hns : get16 u r.ne = 2 ∨ get16 u r.ne = 5 ∨ get16 u r.ne = 12
  · simp only [hns, if_true] at hrdci hrdc hrd2 ⊢
    obtain ⟨ls, lsc', hvu, hvc', hcil⟩ := hrdci
    obtain ⟨lsc, hvc, e1⟩ := hrdc
    obtain ⟨ls2, hv2, e2⟩ := hrd2
    have : lsc' = lsc := (validName_functional hvc' hvc).1
    subst this
    have : lsc' = ls2 := by
      rw [e1] at e2
      exact encLabels_inj (validName_ok hvc).1 (validName_ok hv2).1 [] [] (by simpa using e2)
    subst this
    exact ⟨ls, lsc', hvu, hv2, hcil⟩
  simp only [hns, if_false] at hrdci hrdc hrd2 ⊢
  by_cases hmx : get16 u r.ne = 15
  · simp only [hmx, if_true] at hrdci hrdc hrd2 ⊢
    obtain ⟨hpref, ls, lsc', hvu, hvc', hcil⟩ := hrdci
    obtain ⟨lsc, hvc, e1⟩ := hrdc
    obtain ⟨ls2, hv2, e2⟩ := hrd2
    have : lsc' = lsc := (validName_functional hvc' hvc).1
    subst this
    have hp2c : ((c.drop (r'.ne + 10)).take 2).length = 2 := by have := hvc.1; exact length_take_drop (by omega)
    have hp22 : ((u2.drop (r2.ne + 10)).take 2).length = 2 := by have := hv2.1; exact length_take_drop (by omega)
    rw [e1] at e2
    have e3 := List.append_inj e2 (by omega)
    have : lsc' = ls2 := encLabels_inj (validName_ok hvc).1 (validName_ok hv2).1 [] [] (by simpa using e3.2)
    subst this
    exact ⟨by rw [← e3.1, hpref], ls, lsc', hvu, hv2, hcil⟩
  simp only [hmx, if_false] at hrdci hrdc hrd2 ⊢
  by_cases hsoa : get16 u r.ne = 6
  · simp only [hsoa, if_true] at hrdci hrdc hrd2 ⊢
    obtain ⟨l1, l2, l1c', l2c', e1u, e1c', hv1u, hv2u, hv1c', hv2c', hci1, hci2, hmeta⟩ := hrdci
    obtain ⟨l1c, l2c, e1c, hv1c, hv2c, ec⟩ := hrdc
    obtain ⟨l12, l22, e12, hv12, hv22, e2⟩ := hrd2
    obtain ⟨a1, a2⟩ := validName_functional hv1c' hv1c
    subst a1; subst a2
    have a3 : l2c' = l2c := (validName_functional hv2c' hv2c).1
    subst a3
    rw [ec] at e2
    have e3 : encLabels l1c' ++ 0 :: ((encLabels l2c' ++ [0]) ++ (c.drop (r'.ne + 10 + get16 c (r'.ne + 8) - 20)).take 20) =
        encLabels l12 ++ 0 :: ((encLabels l22 ++ [0]) ++ (u2.drop (r2.ne + 10 + get16 u2 (r2.ne + 8) - 20)).take 20) := by
      simpa [List.append_assoc] using e2
    have b1 : l1c' = l12 := encLabels_inj (validName_ok hv1c).1 (validName_ok hv12).1 _ _ e3
    subst b1
    have e4 := List.append_cancel_left e3
    simp only [List.cons.injEq, true_and] at e4
    have e5 : encLabels l2c' ++ 0 :: (c.drop (r'.ne + 10 + get16 c (r'.ne + 8) - 20)).take 20 =
        encLabels l22 ++ 0 :: (u2.drop (r2.ne + 10 + get16 u2 (r2.ne + 8) - 20)).take 20 := by
      simpa [List.append_assoc] using e4
    have b2 : l2c' = l22 := encLabels_inj (validName_ok hv2c).1 (validName_ok hv22).1 _ _ e5
    subst b2
    have e6 := List.append_cancel_left e5
    simp only [List.cons.injEq, true_and] at e6
    exact ⟨l1, l2, l1c', l2c', e1u, e12, hv1u, hv2u, hv12, hv22, hci1, hci2, by rw [← e6, hmeta]⟩
  simp only [hsoa, if_false] at hrdci hrdc hrd2 ⊢
  obtain ⟨hl, hwin⟩ := hrdci
  have hlc : ((c.drop (r'.ne + 10)).take (get16 c (r'.ne + 8))).length = get16 c (r'.ne + 8) := length_take_drop (by omega)
  have hl2 : ((u2.drop (r2.ne + 10)).take (get16 u2 (r2.ne + 8))).length = get16 u2 (r2.ne + 8) := length_take_drop (by omega)
  have hlen : get16 u2 (r2.ne + 8) = get16 c (r'.ne + 8) := by
    have := congrArg List.length hrdc
    rw [hrd2, hl2, hlc] at this
    exact this
  refine ⟨by rw [hlen, hl], ?_⟩
  have h3 : (u2.drop (r2.ne + 10)).take (get16 u2 (r2.ne + 8)) = (c.drop (r'.ne + 10)).take (get16 c (r'.ne + 8)) := by
    rw [← hrd2, hrdc]
  rw [hlen, hl] at h3
  rw [h3, hwin]

/-- the same for whole runs -/
theorem runCi_transfer {u c u2 : Bytes} {sec sec2 : Section} :
    ∀ {l l' l2 : List RecPos} {ps : List Bytes} {off e off2 e2 : Nat} {ob oe ob2 oe2 : Bool},
      RRsL c sec l' off ob e oe → RRsL u2 sec2 l2 off2 ob2 e2 oe2 → CanonRun c l' ps → CanonRun u2 l2 ps →
      RunCi u c l l' → (∀ r ∈ l, r.ne + 10 ≤ u.length) → RunCi u u2 l l2 := by
  intro l l' l2 ps off e off2 e2 ob oe ob2 oe2 hc h2 hcc hc2 hci hfit
  induction hci generalizing l2 ps off off2 ob ob2 with
  | nil =>
    cases hcc
    cases hc2
    exact RunCi.nil
  | @cons r r' l l' hrc _ ih =>
    cases hcc with
    | @cons _ _ x ps hx hcc' =>
      cases hc2 with
      | @cons r2 l2 _ _ hx2 hc2' =>
        obtain ⟨_, om, hpos, hrest⟩ := hc.cons_inv
        obtain ⟨_, om2, hpos2, hrest2⟩ := h2.cons_inv
        exact RunCi.cons (recCi_transfer hpos hpos2 hx hx2 hrc (hfit r (by simp)))
          (ih hrest hrest2 hcc' hc2' (fun z hz => hfit z (by simp [hz])))

end Dns
