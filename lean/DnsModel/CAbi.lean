/-
  DnsModel.CAbi — the entries of the exported C function table (c_abi.rs) as thin wrappers over
  the native model, driven the way a C hook drives them: section callbacks with an action at the
  k-th record, copy-out into caller buffers of a stated capacity, -1 + error description on failure.
  A panic inside an `extern "C"` function aborts the process: modelled as `none` (script stops).
-/
import DnsModel.Script
import DnsModel.Synth
namespace Dns

inductive CAction
  | name | rrType | rrClass | ttl | setTtl (n : Nat) | ip (cap : Nat) | setIp (b : Bytes)
  | setRawName (n : Bytes) | setName (txt : Bytes) (zone : Option Bytes) | delete | delete2 | nothing

def retErr (e : Option Err) : String :=
  match e with | none => "ret=0" | some e => "ret=-1 err=" ++ e.name

/-- bytes of a C string: up to the first NUL -/
def cstrPrefix (b : Bytes) : Bytes := b.takeWhile (· != 0)

/-- one action on the record under the cursor; `none` = the process would abort -/
def cAct (pp : PP) (c : Cursor) : CAction → Option (PP × Cursor × String)
  | .name => match c.name pp.packet with
      | .ok n => if n.length ≤ DNS_MAX_HOSTNAME_LEN then some (pp, c, "name=" ++ toHex (cstrPrefix n)) else none
      | _ => none
  | .rrType => match c.rrType pp.packet with | .ok v => some (pp, c, s!"type={v}") | _ => none
  | .rrClass => match c.rrClass pp.packet with | .ok v => some (pp, c, s!"class={v}") | _ => none
  | .ttl => match c.rrTtl pp.packet with | .ok v => some (pp, c, s!"ttl={v}") | _ => none
  | .setTtl n => match setRrTtl pp c n with | .ok pp' => some (pp', c, "ok") | _ => none
  | .ip cap => match c.rrIp pp.packet with
      -- `cap` is the capacity the caller announces: the wrapper asserts it suffices, copies exactly the address and
      -- writes the address length back
      | .ok b => if b.length ≤ cap then some (pp, c, s!"ip={toHex b}/{b.length}") else none
      | _ => none
  | .setIp b => match c.rrIp pp.packet with
      | .ok _ =>
        if b.length != 4 && b.length != 16 then none else
        (match setRrIp pp c b with
        | .ok (pp', none) => some (pp', c, "ok")
        | _ => none)
      | _ => none
  | .setRawName n => match setRawName pp c n with
      | .ok o => some (o.pp, o.cur, retErr o.result)
      | .err e => some (pp, c, retErr (some e))
      | _ => none
  | .setName txt zone => match rawNameFromStr txt zone with
      | .err e => some (pp, c, retErr (some e))
      | .ok raw => (match setRawName pp c raw with
        | .ok o => some (o.pp, o.cur, retErr o.result)
        | .err e => some (pp, c, retErr (some e))
        | _ => none)
      | _ => none
  | .delete => match deleteRR pp c with
      | .ok o => some (o.pp, o.cur, retErr o.result)
      | .err e => some (pp, c, retErr (some e))
      | _ => none
  | .delete2 => match deleteRR pp c with
      | .ok o => (match deleteRR o.pp o.cur with
        | .ok o2 => some (o2.pp, o2.cur, retErr o.result ++ "+" ++ retErr o2.result)
        | .err e => some (o.pp, o.cur, retErr o.result ++ "+" ++ retErr (some e))
        | _ => none)
      | .err e => some (pp, c, retErr (some e))
      | _ => none
  | .nothing => some (pp, c, "none")

/-- `iter_answer` / `iter_nameservers` / `iter_additional`: the callback runs on every record the
iterator yields; at the k-th call it performs `act` -/
def cIterLoop (step : PP → Cursor → Res (Option Cursor)) (k : Nat) (act : CAction) :
    Nat → PP → Cursor → Nat → String → Option (PP × Nat × String)
  | 0, _, _, _, _ => none
  | fuel+1, pp, c, n, out =>
    match step pp c with
    | .ok none => some (pp, n, out)
    | .ok (some c') =>
      if n == k then
        match cAct pp c' act with
        | some (pp', c'', s) => cIterLoop step k act fuel pp' c'' (n + 1) s
        | none => none
      else cIterLoop step k act fuel pp c' (n + 1) out
    | _ => none

inductive COp
  | flags | setFlags (n : Nat) | rcode | setRcode (n : Nat) | opcode | setOpcode (n : Nat)
  | iter (s : Section) (k : Nat) (a : CAction)
  | add (s : Section) (txt : Bytes) | rawPacket (cap : Nat) | question
  | rename (t s : Bytes) (sfx : Bool) | name2raw (txt : Bytes) | abi

def cStep (pp : PP) : COp → Option (PP × String)
  | .flags => match hFlags pp.packet pp.extFlags with | .ok v => some (pp, s!"flags={v}") | _ => none
  | .setFlags n => match hSetFlags pp.packet n with | .ok p => some ({ pp with packet := p }, "ok") | _ => none
  | .rcode => match hRcode pp.packet with | .ok v => some (pp, s!"rcode={v}") | _ => none
  | .setRcode n => match hSetRcode pp.packet n with | .ok p => some ({ pp with packet := p }, "ok") | _ => none
  | .opcode => match hOpcode pp.packet with | .ok v => some (pp, s!"opcode={v}") | _ => none
  | .setOpcode n => match hSetOpcode pp.packet n with | .ok p => some ({ pp with packet := p }, "ok") | _ => none
  | .iter s k a =>
    let step := match s with | .edns => nextEdns | _ => nextSkippingOpt
    let a := match s with | .edns => CAction.nothing | _ => a
    let k := match s with | .edns => 70001 | _ => k
    (cIterLoop step k a 140000 pp (Cursor.new s) 0 "-").map (fun (pp', n, out) => (pp', s!"n={n} act={out}"))
  | .add s txt =>
    -- `CStr::to_str`: invalid UTF-8 is a ParseError (the harness only sends UTF-8 here)
    match synth txt with
    | .err e => some (pp, retErr (some e))
    | .ok rr => (match insertRR pp s rr with
      | .ok (pp', e) => some (pp', retErr e)
      | .err e => some (pp, retErr (some e))
      | _ => none)
    | _ => none
  | .rawPacket cap =>
    if pp.packet.length > cap then some (pp, "ret=-1")
    else if pp.packet.length > DNS_MAX_UNCOMPRESSED_SIZE then none
    else some (pp, s!"ret=0 len={pp.packet.length} bytes={toHex pp.packet}")
  | .question => match questionText pp with
    | .ok none => some (pp, "ret=-1 name=- type=0")
    | .ok (some (n, t, _)) =>
      if n.length > DNS_MAX_HOSTNAME_LEN then some (pp, s!"ret=-1 name=- type={t}")
      else some (pp, s!"ret=0 name={toHex (cstrPrefix n)} type={t}")
    | _ => none
  | .rename t s sfx => match pp.renameWithRawNames t s sfx with
    | .ok (pp', e) => some (pp', retErr e)
    | .err e => some (pp, retErr (some e))
    | _ => none
  | .name2raw txt => match rawNameFromStr txt none with
    | .ok raw => if raw.length ≤ DNS_MAX_HOSTNAME_LEN + 1 then some (pp, "ret=0 raw=" ++ toHex raw) else none
    | .err e => some (pp, retErr (some e))
    | _ => none
  | .abi => some (pp, "abi=2")

def runCabi : PP → List COp → List String → List String
  | pp, [], acc => (s!"b={toHex pp.packet} v={(fmtView pp.view).replace " " ","}" :: acc).reverse
  | pp, op :: ops, acc =>
    match cStep pp op with
    | some (pp', s) => runCabi pp' ops (s :: acc)
    | none => ("abort" :: acc).reverse

end Dns
