import DnsModel.Threads
import DnsModel.Steps
namespace Dns.C18
end Dns.C18
