/-
  C18 — Validation work is linear in the packet size.
  `parseI` (DnsModel/Steps.lean) is the validator instrumented with the step counter that the
  cfg-guarded hook implements in the Rust code: one step per iteration of the two name-walking
  loops, one per record, one per EDNS option — counted on failing paths too.
-/
import DnsModel.Lemmas.StepsBound
import DnsModel.Tie.Name
import DnsModel.Tie.Parse
namespace Dns.C18
open Dns Cnt Sector Res

/-- forgetting the counter gives back the validator of C01/C02 -/
theorem erasure (p : Bytes) : (parseI p).res = parse p := parseI_res p

/-- a section loop followed by a continuation whose cost is linear in what is left -/
private theorem seq_cost {β} {p : Bytes} {s : Sector} (sec : Section) (n : Nat) (h : s.offset ≤ p.length)
    (f : Sector → Cnt β)
    (hf : ∀ s', s.offset ≤ s'.offset → s'.offset ≤ p.length → (f s').steps ≤ K * (p.length - s'.offset) + C) :
    (SectorI.parseRRs p sec n s >>= f).steps ≤ K * (p.length - s.offset) + C := by
  have c := parseRRsI_cost (p := p) sec n h
  rw [steps_bind]
  cases hr : (SectorI.parseRRs p sec n s).res with
  | ok s' =>
    obtain ⟨a1, a2, a3⟩ := c.2 s' hr
    have := hf s' a1 a2
    simp only
    unfold K at *
    omega
  | err e => simp only; exact c.1
  | panic => simp only; exact c.1
  | diverge => simp only; exact c.1

/-- **C18.** For every byte string, the number of elementary steps the validator spends is at most
`76 * len + 1095` (≤ `80 * len + 1200`): no crafted packet makes validation loop or go quadratic. -/
theorem steps_linear (p : Bytes) : (parseI p).steps ≤ 80 * p.length + 1200 := by
  unfold parseI
  simp only [failIf]
  consts
  -- header checks and counts are free
  rw [steps_lift_ite_bind]
  split
  · omega
  rename_i hlen
  simp at hlen
  apply Nat.le_trans (steps_lift_bind_le _ _ (76 * p.length + 1095) ?_) (by omega)
  intro flags
  apply steps_lift_bind_le; intro qd
  apply steps_lift_bind_le; intro _
  apply steps_lift_bind_le; intro _
  rw [steps_bind]
  simp only [steps_lift, res_lift]
  cases hso : Sector.setOffset p Sector.new 12 with
  | ok r =>
    obtain ⟨s1, old⟩ := r
    obtain ⟨e1, e2, _⟩ := setOffset_ok hso
    have h1 : s1.offset ≤ p.length := by rw [e1]; simp; omega
    simp only
    have hq := parseQuestionI_steps p s1
    rw [steps_bind]
    cases hrq : (SectorI.parseQuestion p s1).res with
    | ok s2 =>
      have h2 : s2.offset ≤ p.length :=
        ((parseQuestion_spec (p := p) (s := s1) h1).2 s2 (by rw [← parseQuestionI_res]; exact hrq)).2
      simp only
      apply Nat.le_trans (Nat.add_le_add_left (Nat.add_le_add hq (steps_lift_bind_le _ _ (K * (p.length - s2.offset) + C) ?_)) 0)
      · unfold K C; have hW : W = 273 := rfl; omega
      intro an
      apply steps_lift_bind_le; intro _
      apply seq_cost .answer an h2
      intro s3 _ h3
      apply steps_lift_bind_le; intro ns
      apply steps_lift_bind_le; intro _
      apply seq_cost .nameServers ns h3
      intro s4 _ h4
      apply steps_lift_bind_le; intro ar
      apply seq_cost .additional ar h4
      intro s5 _ h5
      apply steps_lift_bind_le; intro _
      apply steps_lift_bind_le; intro _
      simp
    | err e => simp only; have hW : W = 273 := rfl; omega
    | panic => simp only; have hW : W = 273 := rfl; omega
    | diverge => simp only; have hW : W = 273 := rfl; omega
  | err e => simp
  | panic => simp
  | diverge => simp


/-! ### Tie to the current source text: the counted walkers compute what the translated validators compute
(`Generated/TrName.lean`, rewritten by rs2lean.py on every run), within the per-name budget. -/

theorem source_walkers (p : Bytes) (off : Nat) :
    (checkCompressedNameI p off).res = Tr.Name.check_compressed_name p off ∧
    (checkCompressedNameI p off).steps ≤ DNS_MAX_HOSTNAME_INDIRECTIONS + DNS_MAX_HOSTNAME_LEN + 2 ∧
    (checkUncompressedNameI p off).res = Tr.Name.check_uncompressed_name p off ∧
    (checkUncompressedNameI p off).steps ≤ DNS_MAX_HOSTNAME_INDIRECTIONS + DNS_MAX_HOSTNAME_LEN + 2 :=
  ⟨by rw [Tie.check_compressed_name_eq]; exact checkCompressedNameI_res p off, checkCompressedNameI_steps p off,
   by rw [Tie.check_uncompressed_name_eq]; exact checkUncompressedNameI_res p off, checkUncompressedNameI_steps p off⟩

/-- the counted validator computes what the validator translated from the current source computes -/
theorem source_erasure (p : Bytes) :
    ((parseI p).res >>= fun v => Res.ok (Tie.viewTup p v)) = Tr.Sector.parse p 0 none none 0 none none none 512 := by
  rw [Tie.parse_eq, erasure]

end Dns.C18

namespace Dns.C18
/-! non-vacuity: the counter really counts (a question name of one label costs two walker
iterations; a pointer chain costs one per hop) -/
example : (parseI [0,0,0,0, 0,1, 0,0, 0,0, 0,0, 1,97,0, 0,1, 0,1]).steps = 2 := by decide
example : (parseI [0,0,0x80,0, 0,1, 0,1, 0,0, 0,0, 1,97,0, 0,1, 0,1, 0xc0,12, 0,1, 0,1, 0,0,0,0, 0,4, 1,2,3,4]).steps = 6 := by decide
end Dns.C18
