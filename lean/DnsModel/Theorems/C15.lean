/-
  C15 — The C function table is a faithful, memory-safe facade over the native API.
  Part 1 (proved here, on data regenerated from the sources on every run): the order, count and
  ABI-class signatures of the table in c_abi.rs are those of the struct declared in c_hook.h, and
  the initialiser of `fn_table()` fills the fields in declaration order.
-/
import DnsModel.Generated.FnTable
namespace Dns.C15
open Dns.FnTable

/-- what the C ABI sees of an entry: function or data, parameter classes, return class -/
def sig (e : Entry) : Bool × List String × String := (e.isFn, e.args, e.ret)

/-- The header's table and the Rust table agree entry by entry (position, arity, ABI class of every
parameter and of the result); there are 30 entries (29 functions and the ABI version), and
`fn_table()` initialises them in declaration order. -/
theorem layout :
    rustTable.map sig = headerTable.map sig ∧ rustTable.length = 30 ∧
      rustInit = rustTable.map (·.name) := by decide

/-- no entry uses a type the translator could not classify -/
theorem classified :
    (rustTable ++ headerTable).all (fun e => (e.ret :: e.args).all (fun c =>
      c ∈ ["ptr", "u8", "u16", "u32", "u64", "usize", "int", "bool", "void", "fnptr"])) = true := by decide

end Dns.C15
