/-
  C15 — The C function table is a faithful, memory-safe facade over the native API.
  Part 1 (proved here, on data regenerated from the sources on every run): the order, count and
  ABI-class signatures of the table in c_abi.rs are those of the struct declared in c_hook.h, and
  the initialiser of `fn_table()` fills the fields in declaration order.
  Part 2 (proved on the model of the wrappers, `CAbi.lean`, whose agreement with the real table is
  checked by the three-way correspondence): the buffer discipline on accepted packets — the name of
  any record fits a 256-byte buffer with its terminating NUL (so the wrapper's length assertion never
  fires), an address copy-out is exactly 4 or 16 bytes, and the raw-packet copy-out never writes more
  than the stated capacity.
  Memory safety of the `unsafe` blocks themselves is observed (canaries, the C driver), not proved.
-/
import DnsModel.Generated.FnTable
import DnsModel.Theorems.C03
import DnsModel.Lemmas.CaseFold
import DnsModel.CAbi
namespace Dns.C15
open Dns.FnTable

/-- what the C ABI sees of an entry: function or data, parameter classes, return class -/
def sig (e : Entry) : Bool × List String × String := (e.isFn, e.args, e.ret)

/-- The header's table and the Rust table agree entry by entry (position, arity, ABI class of every
parameter and of the result); there are 30 entries (29 functions and the ABI version), and
`fn_table()` initialises them in declaration order. -/
theorem layout :
    rustTable.map sig = headerTable.map sig ∧ rustTable.length = 30 ∧
      rustInit = rustTable.map (·.name) := by decide

/-- no entry uses a type the translator could not classify -/
theorem classified :
    (rustTable ++ headerTable).all (fun e => (e.ret :: e.args).all (fun c =>
      c ∈ ["ptr", "u8", "u16", "u32", "u64", "usize", "int", "bool", "void", "fnptr"])) = true := by decide

open Dns in
/-- the text of a name is no longer than its wire form (labels with permitted characters need no escape) -/
theorem joinText_length (ls : List (List UInt8)) (hg : ∀ l ∈ ls, goodChars l = true) (res : Bytes) :
    (joinText res ls).length ≤ res.length + labSum ls := by
  induction ls generalizing res with
  | nil => simp [joinText, labSum]
  | cons l ls ih =>
    have hl : escapeLabel l = l := escapeLabel_good (hg l (by simp))
    have := ih (fun x hx => hg x (by simp [hx])) ((if res.isEmpty then res else res ++ [46]) ++ escapeLabel l)
    simp only [joinText, List.foldl_cons] at this ⊢
    rw [labSum_cons]
    rw [hl] at this ⊢
    have h2 : ((if res.isEmpty = true then res else res ++ [46]) ++ l).length ≤ res.length + (l.length + 1) := by
      split <;> simp <;> omega
    omega

open Dns in
/-- **names fit the caller's buffer**: on a record of an accepted packet the name accessor returns at
most 254 bytes, so with its NUL it fits the 256-byte buffer of `name()` / `question()` and the
wrapper's assertion cannot fire -/
theorem name_fits {p : Bytes} {sec : Section} {r : RecPos} {ob oa : Bool} (hr : RRAtPos p sec r ob oa)
    (c : Cursor) (hc : posOf c = some r) :
    ∃ n, c.name p = .ok n ∧ n.length + 1 ≤ 256 ∧ n.length ≤ DNS_MAX_HOSTNAME_LEN := by
  obtain ⟨ls, hv, _, hname, _⟩ := C03.accessors hr c hc
  refine ⟨_, hname, ?_, ?_⟩
  all_goals
    rw [lowerBytes_length]
    have := joinText_length ls hv.2.2.2 []
    have hw := hv.2.2.1
    rw [wireLen_eq] at hw
    simp only [List.length_nil, Nat.zero_add] at this
    have hmax : DNS_MAX_HOSTNAME_LEN = 255 := rfl
    omega

open Dns in
/-- **an address copy-out is exactly 4 or 16 bytes** (A / AAAA records of an accepted packet) -/
theorem ip_len {p : Bytes} {sec : Section} {r : RecPos} {ob oa : Bool} (hr : RRAtPos p sec r ob oa)
    (c : Cursor) (hc : posOf c = some r) (b : Bytes) (h : c.rrIp p = .ok b) : b.length = 4 ∨ b.length = 16 := by
  rw [C03.ip_accessor hr c hc] at h
  obtain ⟨_, h10, hnext, hfit, hbody⟩ := hr
  split at h
  · rename_i ht
    simp only [Res.ok.injEq] at h
    subst h
    have hlen : ((p.drop (r.ne + 10)).take (get16 p (r.ne + 8))).length = get16 p (r.ne + 8) := by
      simp only [List.length_take, List.length_drop]; omega
    rw [hlen]
    have h41 : get16 p r.ne ≠ 41 := by rcases ht with ht | ht <;> omega
    simp only [h41, if_false] at hbody
    unfold RDataOK at hbody
    rcases ht with ht | ht
    · simp [ht] at hbody; exact Or.inl hbody.1
    · simp [ht] at hbody; exact Or.inr hbody.1
  · cases h

open Dns in
/-- **the raw-packet copy-out never exceeds the stated capacity** -/
theorem raw_packet_fits (pp pp' : PP) (cap : Nat) (out : String) (h : cStep pp (.rawPacket cap) = some (pp', out)) :
    pp' = pp ∧ (out = "ret=-1" ∨ pp.packet.length ≤ cap) := by
  simp only [cStep] at h
  split at h
  · simp at h; exact ⟨h.1.symm, Or.inl h.2.symm⟩
  · rename_i hle
    split at h
    · cases h
    · simp at h; exact ⟨h.1.symm, Or.inr (by omega)⟩

end Dns.C15
