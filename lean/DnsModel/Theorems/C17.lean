import DnsModel.Threads
import DnsModel.Steps
namespace Dns.C17
end Dns.C17
