/-
  C17 — Results depend only on the arguments, never on earlier or concurrent calls.
  In the model, `parse`, `uncompress`, `compress`, `renameWithRawNames` and `synth` are Lean functions,
  so their purity is definitional; what could break it in the code — a suffix dictionary or scratch
  buffer that survives a call, a process-wide cache — has no counterpart here: the dictionary is
  created inside `compress` / `renameWithRawNames` (`({}, hdr)`), and the only randomness of the
  library, the id of `ParsedPacket::empty()`, is a parameter (`PP.empty tid`).
  The statement below fixes that reading: a session threads an explicit ambient state through the
  calls, and that state is the unit type. The substance of C17 is the history-based correspondence
  (alone / back to back / concurrent), see DESIGN.md §6 C17.
-/
import DnsModel.Renamer
import DnsModel.Synth
namespace Dns.C17
open Dns

inductive Call
  | parse (p : Bytes) | uncompress (p : Bytes) | compress (p : Bytes)
  | rename (p t s : Bytes) (sfx : Bool) | synth (txt : Bytes)

inductive Out
  | view (r : Res View) | bytes (r : Res Bytes)

/-- one call, from a fresh state -/
def run1 : Call → Out
  | .parse p => .view (parse p)
  | .uncompress p => .bytes (uncompress p)
  | .compress p => .bytes (compress p)
  | .rename p t s sfx => .bytes ((parsePP p).bind (fun pp => renameWithRawNames pp t s sfx))
  | .synth t => .bytes (synth t)

/-- the ambient state a call could read or leave behind: nothing -/
abbrev Ambient := Unit

def step (a : Ambient) (c : Call) : Ambient × Out := (a, run1 c)

def runSession : Ambient → List Call → List Out
  | _, [] => []
  | a, c :: cs => (step a c).2 :: runSession (step a c).1 cs

/-- every call of a session returns what it returns alone -/
theorem session (calls : List Call) : runSession () calls = calls.map run1 := by
  induction calls with
  | nil => rfl
  | cons c cs ih => simp [runSession, step, ih]

end Dns.C17
