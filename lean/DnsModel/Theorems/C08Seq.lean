/-
  C08 (sequences) — the invariant over any sequence of operations.

  A hook script works on one packet object with at most one open record-section iterator.  `applyOp` is
  the model's semantics of one step (built from the model functions the correspondence check ties to
  the real code); `Inv` is `Consistent` plus "the iterator's cursor is void, or stands on a record of
  its section"; `Allowed` spells out the documented preconditions and the by-design exclusions
  (KF1–KF5).  `step_inv`: every allowed step that returns keeps `Inv`; `run_inv`: so does every run;
  `step_total` / `run_total`: every allowed step / script does return (no panic, no divergence).
-/
import DnsModel.Theorems.C08
import DnsModel.Tie.Counts
import DnsModel.Tie.Insert
import DnsModel.Theorems.C10
namespace Dns.C08
open Dns Res

/-- the operations of a script -/
inductive Op
  | openIter (sec : Section)
  | next
  | close
  | delete
  | setTtl (ttl : Nat)
  | setIp (ip : Bytes)
  | setName (owner : List (List UInt8))
  | insert (sec : Section) (rr : Bytes)
  | setTid (n : Nat) | setFlags (n : Nat) | setResponse (b : Bool) | setRcode (n : Nat) | setOpcode (n : Nat)
  | recompute

/-- the object and its (at most one) open iterator -/
structure St where
  pp : PP
  cur : Option Cursor

/-- one step; the `Option Err` is what the caller is told -/
def applyOp (s : St) : Op → Res (St × Option Err)
  | .openIter sec => pure ({ s with cur := some (Cursor.new sec) }, none)
  | .next =>
    match s.cur with
    | none => pure (s, none)
    | some c => do
      match ← nextIncludingOpt s.pp c with
      | none => pure ({ s with cur := none }, none)
      | some c' => pure ({ s with cur := some c' }, none)
  | .close => pure ({ s with cur := none }, none)
  | .delete =>
    match s.cur with
    | none => pure (s, none)
    | some c => do let o ← deleteRR s.pp c; pure (⟨o.pp, some o.cur⟩, o.result)
  | .setTtl ttl =>
    match s.cur with
    | none => pure (s, none)
    | some c => do let pp' ← setRrTtl s.pp c ttl; pure (⟨pp', some c⟩, none)
  | .setIp ip =>
    match s.cur with
    | none => pure (s, none)
    | some c => do let (pp', e) ← setRrIp s.pp c ip; pure (⟨pp', some c⟩, e)
  | .setName owner =>
    match s.cur with
    | none => pure (s, none)
    | some c => do let o ← setRawName s.pp c (encLabels owner ++ [0]); pure (⟨o.pp, some o.cur⟩, o.result)
  | .insert sec rr =>
    match s.cur with
    | some _ => pure (s, none)          -- the borrow checker does not allow it while the iterator lives
    | none => do let (pp', e) ← insertRR s.pp sec rr; pure (⟨pp', none⟩, e)
  | .setTid n => match s.cur with
    | some _ => pure (s, none)
    | none => do let p ← hSetTid s.pp.packet (n % 65536); pure (⟨{ s.pp with packet := p }, none⟩, none)
  | .setFlags n => match s.cur with
    | some _ => pure (s, none)
    | none => do let p ← hSetFlags s.pp.packet n; pure (⟨{ s.pp with packet := p }, none⟩, none)
  | .setResponse b => match s.cur with
    | some _ => pure (s, none)
    | none => do let p ← hSetResponse s.pp.packet b; pure (⟨{ s.pp with packet := p }, none⟩, none)
  | .setRcode n => match s.cur with
    | some _ => pure (s, none)
    | none => do let p ← hSetRcode s.pp.packet n; pure (⟨{ s.pp with packet := p }, none⟩, none)
  | .setOpcode n => match s.cur with
    | some _ => pure (s, none)
    | none => do let p ← hSetOpcode s.pp.packet n; pure (⟨{ s.pp with packet := p }, none⟩, none)
  | .recompute => match s.cur with
    | some _ => pure (s, none)
    | none => do let (pp', e) ← s.pp.recompute; pure (⟨pp', none⟩, e)

/-- the cursor stands on the `j`-th record of section `sec` -/
def CurOn {pp : PP} (P : PlainObj pp) (sec : Section) (j : Nat) (c : Cursor) : Prop :=
  ∃ (hj : j < (P.lst sec).length) (ob oa : Bool), c.sec = sec ∧
    c.offset = some (P.start sec + ((P.lst sec).take j).flatten.length) ∧
    c.offsetNext = P.start sec + ((P.lst sec).take j).flatten.length + ((P.lst sec)[j]).length ∧
    c.rrsLeft = (P.lst sec).length - j - 1 ∧
    RRAtPos pp.packet sec ⟨P.start sec + ((P.lst sec).take j).flatten.length, c.nameEnd,
      P.start sec + ((P.lst sec).take j).flatten.length + ((P.lst sec)[j]).length⟩ ob oa

/-- the cursor of the open iterator is void or stands on a record of its section -/
def CurOK {pp : PP} (P : PlainObj pp) : Option Cursor → Prop
  | none => True
  | some c => c.sec.isRec = true ∧ (c.offset = none ∨ ∃ j, CurOn P c.sec j c)

/-- **the invariant of a script state** -/
def Inv (s : St) : Prop :=
  ∃ P : PlainObj s.pp, (s.pp.cached = none ∨ s.pp.cached = some (questionOf P)) ∧ EdnsOK P ∧ CurOK P s.cur

theorem Inv.consistent {s : St} (h : Inv s) : Consistent s.pp := by
  obtain ⟨P, hc, he, _⟩ := h
  exact ⟨P, hc, he⟩

/-- the record under the cursor is not the OPT pseudo-record (KF5) -/
def NotOptTarget (s : St) : Prop := ∀ c, s.cur = some c → ∀ t, c.rrType s.pp.packet = .ok t → t ≠ 41

/-- documented preconditions and by-design exclusions -/
def Allowed (s : St) : Op → Prop
  | .openIter sec => sec.isRec = true
  | .setTtl _ => (∃ c, s.cur = some c ∧ c.offset.isSome) ∧ NotOptTarget s
  | .setIp _ => ∃ c, s.cur = some c ∧ c.offset.isSome
  | .setName owner => GoodLabels owner ∧ NotOptTarget s
  | .insert sec rr => sec.isRec = true ∧ (∀ b, PieceOK sec rr b b) ∧ (sec ≠ .additional → get16 s.pp.packet 2 / 32768 % 2 = 1)
  | .setFlags n => ∀ p', hSetFlags s.pp.packet n = .ok p' → get16 p' 2 / 32768 % 2 = 0 → get16 s.pp.packet 6 = 0 ∧ get16 s.pp.packet 8 = 0
  | .setResponse b => ∀ p', hSetResponse s.pp.packet b = .ok p' → get16 p' 2 / 32768 % 2 = 0 → get16 s.pp.packet 6 = 0 ∧ get16 s.pp.packet 8 = 0
  | .setRcode n => ∀ p', hSetRcode s.pp.packet n = .ok p' → get16 p' 2 / 32768 % 2 = 0 → get16 s.pp.packet 6 = 0 ∧ get16 s.pp.packet 8 = 0
  | .setOpcode n => ∀ p', hSetOpcode s.pp.packet n = .ok p' → get16 p' 2 / 32768 % 2 = 0 → get16 s.pp.packet 6 = 0 ∧ get16 s.pp.packet 8 = 0
  | _ => True

/-! ### the cursor relation under the operations -/

theorem CurOn.curAt_succ {pp : PP} {P : PlainObj pp} {sec : Section} {j : Nat} {c : Cursor} (h : CurOn P sec j c) :
    CurAt P sec (j + 1) c := by
  obtain ⟨hj, ob, oa, hsec, hoff, hnext, hleft, _⟩ := h
  refine ⟨hsec, Or.inr ⟨_, hoff, ?_, by omega, by omega⟩⟩
  rw [hnext, List.take_succ_eq_append_getElem hj, List.flatten_append, List.length_append]
  simp only [List.flatten_cons, List.flatten_nil, List.append_nil]
  omega

theorem take_mid' {α} (xs zs : List α) (y : α) (j : Nat) (hj : j = xs.length) : (xs ++ y :: zs).take j = xs := by
  subst hj; simp

/-- the cursor still stands on record `j` after that record was replaced by `rc'` -/
theorem curOn_after_replace {pp pp' : PP} (P : PlainObj pp) (P' : PlainObj pp') (sec : Section) (hs : sec.isRec = true)
    (j : Nat) (hj : j < (P.lst sec).length) (rc' : Bytes) (owner : List (List UInt8)) (rest : Bytes)
    (f1 : P'.lst sec = (P.lst sec).take j ++ rc' :: (P.lst sec).drop (j + 1)) (f2 : ∀ s, s ≠ sec → P'.lst s = P.lst s)
    (f3 : P'.qls = P.qls) (hrc' : rc' = (encLabels owner ++ [0]) ++ rest) (hgo : GoodLabels owner) (c' : Cursor) (hsec : c'.sec = sec)
    (hoff : c'.offset = some (P.start sec + ((P.lst sec).take j).flatten.length))
    (hnext : c'.offsetNext = P.start sec + ((P.lst sec).take j).flatten.length + rc'.length)
    (hne : c'.nameEnd = P.start sec + ((P.lst sec).take j).flatten.length + labSum owner + 1)
    (hleft : c'.rrsLeft = (P.lst sec).length - j - 1) : CurOn P' sec j c' := by
  have hst : P'.start sec = P.start sec := P.start_congr P' sec f3 f2
  have hlen : (P'.lst sec).length = (P.lst sec).length := by
    rw [f1]; simp; omega
  have hj' : j < (P'.lst sec).length := by omega
  have htake : (P'.lst sec).take j = (P.lst sec).take j := by
    rw [f1]; exact take_mid' _ _ _ _ (by simp; omega)
  have hget : (P'.lst sec)[j] = rc' := by
    have hl : ((P.lst sec).take j).length = j := by simp; omega
    have e : (P'.lst sec)[j]? = some rc' := by
      rw [f1, List.getElem?_append_right (by omega), hl, Nat.sub_self]
      rfl
    have := List.getElem?_eq_getElem hj'
    rw [this] at e
    exact Option.some.inj e
  obtain ⟨ne, ob, oa, hr⟩ := P'.rec_at sec hs f1
  have hne' := P'.ne_of_shape sec hs f1 owner rest hrc' hgo hr
  rw [hst] at hr hne'
  refine ⟨hj', ob, oa, hsec, by rw [hst, htake]; exact hoff, by rw [hst, htake, hget]; exact hnext, by rw [hlen]; exact hleft, ?_⟩
  rw [hst, htake, hget, hne, ← hne']
  exact hr

/-- the type of the record under a cursor standing on a record -/
theorem type_under {pp : PP} (P : PlainObj pp) (sec : Section) (j : Nat) (c : Cursor) (h : CurOn P sec j c) :
    c.rrType pp.packet = .ok (get16 pp.packet c.nameEnd) := by
  obtain ⟨hj, ob, oa, hsec, hoff, hnext, hleft, hr⟩ := h
  have h10 : c.nameEnd + 10 ≤ pp.packet.length := hr.2.1
  exact rrType_at hoff h10

/-! ### one step -/

theorem step_next {s s' : St} {e : Option Err} (h : Inv s) (hrun : applyOp s .next = .ok (s', e)) : Inv s' := by
  obtain ⟨P, hc, he, hcur⟩ := h
  simp only [applyOp] at hrun
  cases hs : s.cur with
  | none =>
    rw [hs] at hrun
    simp only [pure_eq, ok.injEq, Prod.mk.injEq] at hrun
    rw [← hrun.1]
    exact ⟨P, hc, he, by rw [hs]; trivial⟩
  | some c =>
    rw [hs] at hrun hcur
    simp only at hrun
    obtain ⟨hrec, hpos⟩ := hcur
    have hat : ∃ j, CurAt P c.sec j c := by
      rcases hpos with hv | ⟨j, hon⟩
      · exact ⟨0, rfl, Or.inl ⟨hv, rfl⟩⟩
      · exact ⟨j + 1, hon.curAt_succ⟩
    obtain ⟨j, hat⟩ := hat
    by_cases hj : j < (P.lst c.sec).length
    · obtain ⟨ne, ob, oa, hr, hnx⟩ := next_some P c.sec hrec j c hat hj
      simp only [hnx, bind_ok, pure_eq, ok.injEq, Prod.mk.injEq] at hrun
      rw [← hrun.1]
      refine ⟨P, hc, he, hrec, Or.inr ⟨j, hj, ob, oa, rfl, rfl, rfl, rfl, hr⟩⟩
    · rw [next_none P c.sec hrec j c hat hj] at hrun
      simp only [bind_ok, pure_eq, ok.injEq, Prod.mk.injEq] at hrun
      rw [← hrun.1]
      exact ⟨P, hc, he, trivial⟩

theorem step_delete {s s' : St} {e : Option Err} (h : Inv s) (hrun : applyOp s .delete = .ok (s', e)) : Inv s' := by
  obtain ⟨P, hc, he, hcur⟩ := h
  simp only [applyOp] at hrun
  cases hs : s.cur with
  | none =>
    rw [hs] at hrun
    simp only [pure_eq, ok.injEq, Prod.mk.injEq] at hrun
    rw [← hrun.1]
    exact ⟨P, hc, he, by rw [hs]; trivial⟩
  | some c =>
    rw [hs] at hrun hcur
    simp only at hrun
    obtain ⟨hrec, hpos⟩ := hcur
    rcases hpos with hv | ⟨j, hon⟩
    · rw [delete_void s.pp c hv] at hrun
      simp only [bind_ok, pure_eq, ok.injEq, Prod.mk.injEq] at hrun
      rw [← hrun.1]
      exact ⟨P, hc, he, hrec, Or.inl hv⟩
    · obtain ⟨hj, ob, oa, hsec, hoff, hnext, hleft, hr⟩ := hon
      obtain ⟨st, hdel, _, ⟨P', hc', he'⟩, hvoid, hsec'⟩ := delete_consistent P he c.sec hrec (split_at (P.lst c.sec) j hj) c hr hoff hnext rfl
      rw [hdel] at hrun
      simp only [bind_ok, pure_eq, ok.injEq, Prod.mk.injEq] at hrun
      rw [← hrun.1]
      exact ⟨P', hc', he', by rw [hsec']; exact hrec, Or.inl hvoid⟩

theorem step_setTtl {s s' : St} {e : Option Err} (ttl : Nat) (h : Inv s) (ha : Allowed s (.setTtl ttl))
    (hrun : applyOp s (.setTtl ttl) = .ok (s', e)) : Inv s' := by
  obtain ⟨P, hc, he, hcur⟩ := h
  obtain ⟨⟨c, hs, hsome⟩, hnot⟩ := ha
  simp only [applyOp] at hrun
  rw [hs] at hrun hcur
  simp only at hrun
  obtain ⟨hrec, hpos⟩ := hcur
  rcases hpos with hv | ⟨j, hon⟩
  · rw [hv] at hsome; cases hsome
  · have hty := type_under P c.sec j c hon
    have h41 := hnot c hs _ hty
    obtain ⟨hj, ob, oa, hsec, hoff, hnext, hleft, hr⟩ := hon
    obtain ⟨owner, f8, rd, pp', P', hrc, hgo, hf8, hset, _, hc', he', f1, f2, f3⟩ :=
      set_ttl_consistent P hc he c.sec hrec (split_at (P.lst c.sec) j hj) c hr hoff rfl h41 ttl
    rw [hset] at hrun
    simp only [bind_ok, pure_eq, ok.injEq, Prod.mk.injEq] at hrun
    rw [← hrun.1]
    have hne := P.ne_of_shape c.sec hrec (split_at (P.lst c.sec) j hj) owner (f8 ++ put16 rd.length ++ rd) (by rw [hrc]; simp) hgo hr
    refine ⟨P', hc', he', hrec, Or.inr ⟨j, ?_⟩⟩
    refine curOn_after_replace P P' c.sec hrec j hj _ owner ((f8.take 4 ++ put32 ttl) ++ put16 rd.length ++ rd) f1 f2 f3
      (by simp) hgo c rfl hoff ?_ hne hleft
    rw [hnext, hrc]
    simp [put32_length, hf8]; omega

theorem step_setIp {s s' : St} {e : Option Err} (ip : Bytes) (h : Inv s) (ha : Allowed s (.setIp ip))
    (hrun : applyOp s (.setIp ip) = .ok (s', e)) : Inv s' := by
  obtain ⟨P, hc, he, hcur⟩ := h
  obtain ⟨c, hs, hsome⟩ := ha
  simp only [applyOp] at hrun
  rw [hs] at hrun hcur
  simp only at hrun
  obtain ⟨hrec, hpos⟩ := hcur
  rcases hpos with hv | ⟨j, hon⟩
  · rw [hv] at hsome; cases hsome
  · obtain ⟨r, hr1, hrun⟩ := bind_eq_ok.1 hrun
    obtain ⟨pp1, e1⟩ := r
    simp only [pure_eq, ok.injEq, Prod.mk.injEq] at hrun
    obtain ⟨hs', he1⟩ := hrun
    rw [← hs']
    cases e1 with
    | some err =>
      have := setRrIp_failure _ _ _ _ _ hr1
      subst this
      exact ⟨P, hc, he, hrec, Or.inr ⟨j, hon⟩⟩
    | none =>
      have hty := type_under P c.sec j c hon
      obtain ⟨hj, ob, oa, hsec, hoff, hnext, hleft, hr⟩ := hon
      -- a successful call means: address record, right family
      have hfam : (get16 s.pp.packet c.nameEnd = 1 ∧ ip.length = 4) ∨ (get16 s.pp.packet c.nameEnd = 28 ∧ ip.length = 16) := by
        unfold setRrIp at hr1
        rw [hty] at hr1
        simp only [bind_ok] at hr1
        by_cases h1 : (get16 s.pp.packet c.nameEnd == TYPE_A) = true
        · simp only [h1, if_true] at hr1
          by_cases h2 : (ip.length == 4) = true
          · exact Or.inl ⟨by simpa [TYPE_A] using h1, by simpa using h2⟩
          · simp [h2] at hr1
        · simp only [h1, Bool.false_eq_true, if_false] at hr1
          by_cases h3 : (get16 s.pp.packet c.nameEnd == TYPE_AAAA) = true
          · simp only [h3, if_true] at hr1
            by_cases h4 : (ip.length == 16) = true
            · exact Or.inr ⟨by simpa [TYPE_AAAA] using h3, by simpa using h4⟩
            · simp [h4] at hr1
          · simp [h3] at hr1
      obtain ⟨owner, f8, rd, pp', P', hrc, hgo, hf8, hrdl, hset, _, hc', he', f1, f2, f3⟩ :=
        set_ip_consistent P hc he c.sec hrec (split_at (P.lst c.sec) j hj) c hr hoff rfl ip hfam
      rw [hset] at hr1
      simp only [ok.injEq, Prod.mk.injEq, and_true] at hr1
      subst hr1
      have hne := P.ne_of_shape c.sec hrec (split_at (P.lst c.sec) j hj) owner (f8 ++ put16 rd.length ++ rd) (by rw [hrc]; simp) hgo hr
      refine ⟨P', hc', he', hrec, Or.inr ⟨j, ?_⟩⟩
      refine curOn_after_replace P P' c.sec hrec j hj _ owner (f8 ++ put16 rd.length ++ ip) f1 f2 f3
        (by simp) hgo c rfl hoff ?_ hne hleft
      rw [hnext, hrc]
      simp [hrdl]

theorem plain_uncached {pp : PP} (P : PlainObj pp) : ∃ P0 : PlainObj { pp with cached := none }, (∀ s, P0.lst s = P.lst s) ∧
    (∀ s, P0.start s = P.start s) ∧ P0.R = P.R ∧ P0.qls = P.qls := by
  exact ⟨⟨P.hdr, P.q4, P.qls, P.A, P.N, P.R, P.o2, P.o3, P.o4, P.hh, P.hqd, P.hgq, P.hq4, P.hcl, P.hA, P.hN, P.hR, P.hca, P.hcn, P.hcr,
    P.hqr, P.bytes, P.oq, P.oa, P.on, P.oR, P.mc⟩, fun _ => rfl, fun _ => rfl, rfl, rfl⟩

theorem step_setName {s s' : St} {e : Option Err} (owner' : List (List UInt8)) (h : Inv s) (ha : Allowed s (.setName owner'))
    (hrun : applyOp s (.setName owner') = .ok (s', e)) : Inv s' := by
  obtain ⟨P, hc, he, hcur⟩ := h
  obtain ⟨hgo', hnot⟩ := ha
  simp only [applyOp] at hrun
  cases hs : s.cur with
  | none =>
    rw [hs] at hrun
    simp only [pure_eq, ok.injEq, Prod.mk.injEq] at hrun
    rw [← hrun.1]
    exact ⟨P, hc, he, by rw [hs]; trivial⟩
  | some c =>
    rw [hs] at hrun hcur
    simp only at hrun
    obtain ⟨hrec, hpos⟩ := hcur
    obtain ⟨hn, _⟩ : ∃ n, checkCompressedName (encLabels owner' ++ [0]) 0 = .ok n := ⟨_, checkArg_ok owner' hgo'⟩
    rcases hpos with hv | ⟨j, hon⟩
    · have := C10.set_name_void s.pp c (encLabels owner' ++ [0]) (checkArg_ok owner' hgo') P.mc hv
      rw [this] at hrun
      simp only [bind_ok, pure_eq, ok.injEq, Prod.mk.injEq] at hrun
      rw [← hrun.1]
      exact ⟨P, hc, he, hrec, Or.inl hv⟩
    · have hty := type_under P c.sec j c hon
      have h41 := hnot c hs _ hty
      obtain ⟨hj, ob, oa, hsec, hoff, hnext, hleft, hr⟩ := hon
      by_cases hsz : c.nameEnd - (P.start c.sec + ((P.lst c.sec).take j).flatten.length) < labSum owner' + 1 →
          s.pp.packet.length + (labSum owner' + 1) - (c.nameEnd - (P.start c.sec + ((P.lst c.sec).take j).flatten.length)) ≤ 65535
      · obtain ⟨pp', c', P', rc', hset, _, hc', he', f2, f3, ⟨rest, hrc'⟩, hne', hsec', hleft', f1, hoff', hnext', _⟩ :=
          set_name_consistent P he c.sec hrec (split_at (P.lst c.sec) j hj) c hr hoff hnext rfl rfl
            (by rw [hleft]; simp; omega) h41 owner' hgo' hsz
        rw [hset] at hrun
        simp only [mOk, bind_ok, pure_eq, ok.injEq, Prod.mk.injEq] at hrun
        rw [← hrun.1]
        have hst : P'.start c.sec = P.start c.sec := P.start_congr P' c.sec f3 f2
        refine ⟨P', hc', he', by rw [hsec']; exact hrec, Or.inr ⟨j, ?_⟩⟩
        rw [hsec']
        refine curOn_after_replace P P' c.sec hrec j hj rc' owner' rest f1 f2 f3 hrc' hgo' c' hsec' (by rw [hoff', hoff])
          (by rw [hnext', hst]) (by rw [hne', hst]) (by rw [hleft', hleft])
      · -- refused for size: only the cache is emptied
        have hgrow : c.nameEnd - (P.start c.sec + ((P.lst c.sec).take j).flatten.length) < labSum owner' + 1 :=
          Classical.byContradiction (fun hn => hsz (fun h => absurd h hn))
        have hbig : s.pp.packet.length + (labSum owner' + 1) - (c.nameEnd - (P.start c.sec + ((P.lst c.sec).take j).flatten.length)) > 65535 := by
          apply Classical.byContradiction
          intro hn
          exact hsz (fun _ => by omega)
        have := C10.set_name_too_large P c.sec hrec (split_at (P.lst c.sec) j hj) c hr hoff rfl owner' hgo' hgrow hbig
        rw [this] at hrun
        simp only [bind_ok, pure_eq, ok.injEq, Prod.mk.injEq] at hrun
        rw [← hrun.1]
        obtain ⟨P0, e1, e2, e3, e4⟩ := plain_uncached P
        refine ⟨P0, Or.inl rfl, ?_, hrec, Or.inr ⟨j, ?_⟩⟩
        · unfold EdnsOK at he ⊢
          rw [e3, e2]; exact he
        · simp only [CurOn, e1, e2]
          exact ⟨hj, ob, oa, trivial, hoff, hnext, hleft, hr⟩

/-- a full section refuses one more record, unchanged -/
theorem insert_count_full {pp : PP} (P : PlainObj pp) (sec : Section) (hs : sec.isRec = true) (rr : Bytes)
    (hsize : pp.packet.length + rr.length ≤ 8192) (hfull : (P.lst sec).length ≥ 65535) :
    insertRR pp sec rr = .ok (pp, some .invalidPacket) := by
  have hpk : pp.packet = P.hdr ++ (((encLabels P.qls ++ [0]) ++ P.q4) ++ P.A.flatten ++ P.N.flatten ++ P.R.flatten) := by
    rw [P.bytes]; simp
  have hne : sec ≠ .edns := by intro h; rw [h] at hs; simp [Section.isRec] at hs
  have hcnt : sectionCount pp.packet sec = .ok (P.lst sec).length := by
    rw [hpk, sectionCount_hdr P.hh sec hne]
    cases sec with
    | answer => simp [sectionCountOffset, PlainObj.lst, P.hca]
    | nameServers => simp [sectionCountOffset, PlainObj.lst, P.hcn]
    | additional => simp [sectionCountOffset, PlainObj.lst, P.hcr]
    | question => simp [Section.isRec] at hs
    | edns => simp [Section.isRec] at hs
  unfold insertRR
  have hbig : ¬ (pp.packet.length + rr.length > DNS_MAX_UNCOMPRESSED_SIZE) := by
    have : DNS_MAX_UNCOMPRESSED_SIZE = 8192 := rfl
    omega
  simp only [P.mc, Bool.false_eq_true, if_false, pure_eq, bind_ok, Option.isSome_none, hbig]
  unfold rrcountInc
  have hq : ((sec == Section.question) && decide ((P.lst sec).length ≥ 1)) = false := by
    cases sec <;> simp_all [Section.isRec]
  have hfull' : (P.lst sec).length ≥ 0xffff := hfull
  simp [hcnt, hq, hfull']

theorem qr_of_packet {pp : PP} (P : PlainObj pp) : get16 pp.packet 2 = get16 P.hdr 2 := by
  rw [P.bytes]
  simp only [List.append_assoc]
  rw [get16_append_left (by rw [P.hh]; omega)]

theorem step_insert {s s' : St} {e : Option Err} (sec : Section) (rr : Bytes) (h : Inv s) (ha : Allowed s (.insert sec rr))
    (hrun : applyOp s (.insert sec rr) = .ok (s', e)) : Inv s' := by
  obtain ⟨P, hc, he, hcur⟩ := h
  obtain ⟨hrec, hpc, hqr⟩ := ha
  simp only [applyOp] at hrun
  cases hs : s.cur with
  | some c =>
    rw [hs] at hrun
    simp only [pure_eq, ok.injEq, Prod.mk.injEq] at hrun
    rw [← hrun.1]
    exact ⟨P, hc, he, hcur⟩
  | none =>
    rw [hs] at hrun
    simp only at hrun
    obtain ⟨r, hr1, hrun⟩ := bind_eq_ok.1 hrun
    obtain ⟨pp1, e1⟩ := r
    simp only [pure_eq, ok.injEq, Prod.mk.injEq] at hrun
    obtain ⟨hs', he1⟩ := hrun
    rw [← hs']
    cases e1 with
    | some err =>
      have := C10.insert_failure_plain _ _ _ _ _ P.mc hr1
      subst this
      exact ⟨P, hc, he, trivial⟩
    | none =>
      have hsize : s.pp.packet.length + rr.length ≤ 8192 := by
        apply Classical.byContradiction
        intro hn
        have := C10.insert_too_large s.pp sec rr P.mc (by omega)
        rw [this] at hr1
        simp at hr1
      have hcount : (P.lst sec).length < 65535 := by
        apply Classical.byContradiction
        intro hn
        have := insert_count_full P sec hrec rr hsize (by omega)
        rw [this] at hr1
        simp at hr1
      cases sec with
      | answer =>
        have hq : get16 P.hdr 2 / 32768 % 2 = 1 := by rw [← qr_of_packet P]; exact hqr (by decide)
        obtain ⟨pp', hins, ⟨P', hc', he'⟩⟩ := insert_answer_consistent P hc he rr (hpc _) hsize hcount hq
        rw [hins] at hr1
        simp only [ok.injEq, Prod.mk.injEq, and_true] at hr1
        subst hr1
        exact ⟨P', hc', he', trivial⟩
      | nameServers =>
        have hq : get16 P.hdr 2 / 32768 % 2 = 1 := by rw [← qr_of_packet P]; exact hqr (by decide)
        obtain ⟨pp', hins, ⟨P', hc', he'⟩⟩ := insert_authority_consistent P hc he rr (hpc _) hsize hcount hq
        rw [hins] at hr1
        simp only [ok.injEq, Prod.mk.injEq, and_true] at hr1
        subst hr1
        exact ⟨P', hc', he', trivial⟩
      | additional =>
        obtain ⟨pp', hins, ⟨P', hc', he'⟩⟩ := insert_additional_consistent P hc he rr (hpc _) hsize hcount
        rw [hins] at hr1
        simp only [ok.injEq, Prod.mk.injEq, and_true] at hr1
        subst hr1
        exact ⟨P', hc', he', trivial⟩
      | question => simp [Section.isRec] at hrec
      | edns => simp [Section.isRec] at hrec

theorem sameExcept_weaken {p p' : Bytes} {lo hi : Nat} (h : C12.sameExcept p p' lo hi) (hhi : hi ≤ 4) : C12.sameExcept p p' 0 4 :=
  ⟨h.1, fun j hj => h.2 j (by omega)⟩

/-- a header setter (bytes 0–3 only) under the QR guard -/
theorem step_header {s : St} (h : Inv s) (hcur : s.cur = none) (p' : Bytes) {lo hi : Nat} (hse : C12.sameExcept s.pp.packet p' lo hi) (hhi : hi ≤ 4)
    (hqr : get16 p' 2 / 32768 % 2 = 0 → get16 s.pp.packet 6 = 0 ∧ get16 s.pp.packet 8 = 0) :
    Inv ⟨{ s.pp with packet := p' }, none⟩ := by
  obtain ⟨P, hc, he, _⟩ := h
  have hcons := header_consistent P hc he p' (sameExcept_weaken hse hhi) (by
    intro hq
    obtain ⟨h6, h8⟩ := hqr hq
    have e6 : get16 s.pp.packet 6 = get16 P.hdr 6 := by
      rw [P.bytes]; simp only [List.append_assoc]; rw [get16_append_left (by rw [P.hh]; omega)]
    have e8 : get16 s.pp.packet 8 = get16 P.hdr 8 := by
      rw [P.bytes]; simp only [List.append_assoc]; rw [get16_append_left (by rw [P.hh]; omega)]
    constructor
    · apply List.length_eq_zero_iff.1; rw [← P.hca, ← e6, h6]
    · apply List.length_eq_zero_iff.1; rw [← P.hcn, ← e8, h8])
  obtain ⟨P', hc', he'⟩ := hcons
  exact ⟨P', hc', he', trivial⟩

theorem hdr_len {pp : PP} (P : PlainObj pp) : 12 ≤ pp.packet.length := by have := P.len; omega

/-- **one allowed step that returns keeps the invariant** -/
theorem step_inv {s s' : St} {e : Option Err} (op : Op) (h : Inv s) (ha : Allowed s op) (hrun : applyOp s op = .ok (s', e)) : Inv s' := by
  cases op with
  | openIter sec =>
    simp only [applyOp, pure_eq, ok.injEq, Prod.mk.injEq] at hrun
    rw [← hrun.1]
    obtain ⟨P, hc, he, _⟩ := h
    exact ⟨P, hc, he, ha, Or.inl rfl⟩
  | next => exact step_next h hrun
  | close =>
    simp only [applyOp, pure_eq, ok.injEq, Prod.mk.injEq] at hrun
    rw [← hrun.1]
    obtain ⟨P, hc, he, _⟩ := h
    exact ⟨P, hc, he, trivial⟩
  | delete => exact step_delete h hrun
  | setTtl ttl => exact step_setTtl ttl h ha hrun
  | setIp ip => exact step_setIp ip h ha hrun
  | setName owner => exact step_setName owner h ha hrun
  | insert sec rr => exact step_insert sec rr h ha hrun
  | recompute =>
    obtain ⟨P, hc, he, hcur⟩ := h
    simp only [applyOp] at hrun
    cases hs : s.cur with
    | some c =>
      rw [hs] at hrun
      simp only [pure_eq, ok.injEq, Prod.mk.injEq] at hrun
      rw [← hrun.1]
      exact ⟨P, hc, he, hcur⟩
    | none =>
      rw [hs] at hrun
      simp only [recompute_plain s.pp P.mc, bind_ok, pure_eq, ok.injEq, Prod.mk.injEq] at hrun
      rw [← hrun.1]
      exact ⟨P, hc, he, trivial⟩
  | setTid n =>
    simp only [applyOp] at hrun
    cases hs : s.cur with
    | some c =>
      rw [hs] at hrun
      simp only [pure_eq, ok.injEq, Prod.mk.injEq] at hrun
      rw [← hrun.1]; exact h
    | none =>
      rw [hs] at hrun
      obtain ⟨P, hc, he, hcur⟩ := h
      obtain ⟨p', hset, hse, _, hword⟩ := C12.set_tid_frame s.pp.packet n (hdr_len P)
      simp only [hset, bind_ok, pure_eq, ok.injEq, Prod.mk.injEq] at hrun
      rw [← hrun.1]
      refine step_header ⟨P, hc, he, hcur⟩ hs p' hse (by omega) ?_
      intro hq
      have hw : get16 p' 2 = get16 s.pp.packet 2 := hword
      rw [hw, qr_of_packet P] at hq
      obtain ⟨hA, hN⟩ := P.hqr hq
      have e6 : get16 s.pp.packet 6 = get16 P.hdr 6 := by
        rw [P.bytes]; simp only [List.append_assoc]; rw [get16_append_left (by rw [P.hh]; omega)]
      have e8 : get16 s.pp.packet 8 = get16 P.hdr 8 := by
        rw [P.bytes]; simp only [List.append_assoc]; rw [get16_append_left (by rw [P.hh]; omega)]
      exact ⟨by rw [e6, P.hca, hA]; rfl, by rw [e8, P.hcn, hN]; rfl⟩
  | setFlags n =>
    simp only [applyOp] at hrun
    cases hs : s.cur with
    | some c =>
      rw [hs] at hrun
      simp only [pure_eq, ok.injEq, Prod.mk.injEq] at hrun
      rw [← hrun.1]; exact h
    | none =>
      rw [hs] at hrun
      have hP := h
      obtain ⟨P, _⟩ := hP
      obtain ⟨p', hset, hse, _⟩ := C12.set_flags_frame s.pp.packet n (hdr_len P)
      simp only [hset, bind_ok, pure_eq, ok.injEq, Prod.mk.injEq] at hrun
      rw [← hrun.1]
      exact step_header h hs p' hse (by omega) (ha p' hset)
  | setResponse b =>
    simp only [applyOp] at hrun
    cases hs : s.cur with
    | some c =>
      rw [hs] at hrun
      simp only [pure_eq, ok.injEq, Prod.mk.injEq] at hrun
      rw [← hrun.1]; exact h
    | none =>
      rw [hs] at hrun
      have hP := h
      obtain ⟨P, _⟩ := hP
      obtain ⟨p', hset, hse, _⟩ := C12.set_response_frame s.pp.packet b (hdr_len P)
      simp only [hset, bind_ok, pure_eq, ok.injEq, Prod.mk.injEq] at hrun
      rw [← hrun.1]
      exact step_header h hs p' hse (by omega) (ha p' hset)
  | setRcode n =>
    simp only [applyOp] at hrun
    cases hs : s.cur with
    | some c =>
      rw [hs] at hrun
      simp only [pure_eq, ok.injEq, Prod.mk.injEq] at hrun
      rw [← hrun.1]; exact h
    | none =>
      rw [hs] at hrun
      have hP := h
      obtain ⟨P, _⟩ := hP
      obtain ⟨p', hset, hse, _⟩ := C12.set_rcode_frame s.pp.packet n (hdr_len P)
      simp only [hset, bind_ok, pure_eq, ok.injEq, Prod.mk.injEq] at hrun
      rw [← hrun.1]
      exact step_header h hs p' hse (by omega) (ha p' hset)
  | setOpcode n =>
    simp only [applyOp] at hrun
    cases hs : s.cur with
    | some c =>
      rw [hs] at hrun
      simp only [pure_eq, ok.injEq, Prod.mk.injEq] at hrun
      rw [← hrun.1]; exact h
    | none =>
      rw [hs] at hrun
      have hP := h
      obtain ⟨P, _⟩ := hP
      obtain ⟨p', hset, hse, _⟩ := C12.set_opcode_frame s.pp.packet n (hdr_len P)
      simp only [hset, bind_ok, pure_eq, ok.injEq, Prod.mk.injEq] at hrun
      rw [← hrun.1]
      exact step_header h hs p' hse (by omega) (ha p' hset)

/-- a run of a script: the errors reported along the way do not stop it -/
def run : St → List Op → Res St
  | s, [] => .ok s
  | s, op :: ops =>
    match applyOp s op with
    | .ok (s', _) => run s' ops
    | .err e => .err e
    | .panic => .panic
    | .diverge => .diverge

/-- every operation of the script is allowed in the state in which it is issued -/
def AllowedRun : St → List Op → Prop
  | _, [] => True
  | s, op :: ops => Allowed s op ∧ ∀ s' e, applyOp s op = .ok (s', e) → AllowedRun s' ops

/-- **C08 over operation sequences**: from a consistent object (what decompression / recompute / the
first mutation through an iterator leave of any accepted packet) with no iterator open, after any
finite script of allowed operations — opening and advancing record-section iterators, deleting,
changing TTL, address and owner name through them, inserting records, the header setters, recompute —
the object is consistent (`consistent_view`: its bytes are accepted and a fresh parse reports exactly
its view) and the open iterator's cursor, if any, is void or stands on a record of its section -/
theorem run_inv : ∀ (ops : List Op) (s s' : St), Inv s → AllowedRun s ops → run s ops = .ok s' → Inv s' := by
  intro ops
  induction ops with
  | nil => intro s s' h _ hr; simp only [run, ok.injEq] at hr; rw [← hr]; exact h
  | cons op ops ih =>
    intro s s' h ha hr
    obtain ⟨ha1, ha2⟩ := ha
    unfold run at hr
    cases hstep : applyOp s op with
    | ok r =>
      obtain ⟨s1, e1⟩ := r
      rw [hstep] at hr
      exact ih s1 s' (step_inv op h ha1 hstep) (ha2 s1 e1 hstep) hr
    | err e => rw [hstep] at hr; cases hr
    | panic => rw [hstep] at hr; cases hr
    | diverge => rw [hstep] at hr; cases hr

/-- the starting point: any accepted packet after `recompute` (or the decompress-first step) -/
theorem inv_start {pp0 : PP} {p : Bytes} {v : View} (F : Fresh pp0 p v) (hmp : pp0.maxPayload = v.maxPayload) :
    ∃ (L : C03.Layout p) (o : C05.Output p L) (v2 : View), Inv ⟨pp0.rebased o.bytes v2, none⟩ := by
  obtain ⟨L, o, v2, _, _, ⟨P, hc, he⟩⟩ := after_decompression F hmp
  exact ⟨L, o, v2, P, hc, he, trivial⟩


/-! ### no allowed step panics -/

/-- on a plain object `insert_rr` always returns (a record of the right shape, QR permitting) -/
theorem insert_returns {pp : PP} (P : PlainObj pp) (sec : Section) (hrec : sec.isRec = true) (rr : Bytes)
    (hpc : ∀ b, PieceOK sec rr b b) (hqr : sec ≠ .additional → get16 pp.packet 2 / 32768 % 2 = 1) :
    ∃ pp' e, insertRR pp sec rr = .ok (pp', e) := by
  by_cases hsize : pp.packet.length + rr.length ≤ 8192
  · by_cases hcount : (P.lst sec).length < 65535
    · cases sec with
      | answer =>
        have hq : get16 P.hdr 2 / 32768 % 2 = 1 := by rw [← qr_of_packet P]; exact hqr (by decide)
        obtain ⟨pp', _, h, _⟩ := insert_answer P rr (hpc _) hsize hcount hq
        exact ⟨pp', none, h⟩
      | nameServers =>
        have hq : get16 P.hdr 2 / 32768 % 2 = 1 := by rw [← qr_of_packet P]; exact hqr (by decide)
        obtain ⟨pp', _, h, _⟩ := insert_authority P rr (hpc _) hsize hcount hq
        exact ⟨pp', none, h⟩
      | additional =>
        obtain ⟨pp', _, h, _⟩ := insert_additional P rr (hpc _) hsize hcount
        exact ⟨pp', none, h⟩
      | question => simp [Section.isRec] at hrec
      | edns => simp [Section.isRec] at hrec
    · exact ⟨pp, _, insert_count_full P sec hrec rr hsize (by omega)⟩
  · exact ⟨pp, _, C10.insert_too_large pp sec rr P.mc (by omega)⟩

/-- under the invariant and the preconditions every step returns: no panic, no divergence, no
internal error -/
theorem step_total {s : St} (op : Op) (h : Inv s) (ha : Allowed s op) : ∃ s' e, applyOp s op = .ok (s', e) := by
  obtain ⟨P, hc, he, hcur⟩ := h
  cases op with
  | openIter sec => exact ⟨_, _, rfl⟩
  | close => exact ⟨_, _, rfl⟩
  | next =>
    simp only [applyOp]
    cases hs : s.cur with
    | none => exact ⟨_, _, rfl⟩
    | some c =>
      rw [hs] at hcur
      obtain ⟨hrec, hpos⟩ := hcur
      have hat : ∃ j, CurAt P c.sec j c := by
        rcases hpos with hv | ⟨j, hon⟩
        · exact ⟨0, rfl, Or.inl ⟨hv, rfl⟩⟩
        · exact ⟨j + 1, hon.curAt_succ⟩
      obtain ⟨j, hat⟩ := hat
      by_cases hj : j < (P.lst c.sec).length
      · obtain ⟨ne, ob, oa, hr, hnx⟩ := next_some P c.sec hrec j c hat hj
        simp only [hnx, bind_ok]
        exact ⟨_, _, rfl⟩
      · simp only [next_none P c.sec hrec j c hat hj, bind_ok]
        exact ⟨_, _, rfl⟩
  | delete =>
    simp only [applyOp]
    cases hs : s.cur with
    | none => exact ⟨_, _, rfl⟩
    | some c =>
      rw [hs] at hcur
      obtain ⟨hrec, hpos⟩ := hcur
      rcases hpos with hv | ⟨j, hon⟩
      · simp only [delete_void s.pp c hv, bind_ok]
        exact ⟨_, _, rfl⟩
      · obtain ⟨hj, ob, oa, hsec, hoff, hnext, hleft, hr⟩ := hon
        obtain ⟨st, hdel, _⟩ := delete_consistent P he c.sec hrec (split_at (P.lst c.sec) j hj) c hr hoff hnext rfl
        simp only [hdel, bind_ok]
        exact ⟨_, _, rfl⟩
  | setTtl ttl =>
    obtain ⟨⟨c, hs, hsome⟩, hnot⟩ := ha
    simp only [applyOp, hs]
    rw [hs] at hcur
    obtain ⟨hrec, hpos⟩ := hcur
    rcases hpos with hv | ⟨j, hon⟩
    · rw [hv] at hsome; cases hsome
    · have hty := type_under P c.sec j c hon
      have h41 := hnot c hs _ hty
      obtain ⟨hj, ob, oa, hsec, hoff, hnext, hleft, hr⟩ := hon
      obtain ⟨_, _, _, pp', _, _, _, _, hset, _⟩ := set_ttl_consistent P hc he c.sec hrec (split_at (P.lst c.sec) j hj) c hr hoff rfl h41 ttl
      simp only [hset, bind_ok]
      exact ⟨_, _, rfl⟩
  | setIp ip =>
    obtain ⟨c, hs, hsome⟩ := ha
    simp only [applyOp, hs]
    rw [hs] at hcur
    obtain ⟨hrec, hpos⟩ := hcur
    rcases hpos with hv | ⟨j, hon⟩
    · rw [hv] at hsome; cases hsome
    · have hty := type_under P c.sec j c hon
      obtain ⟨hj, ob, oa, hsec, hoff, hnext, hleft, hr⟩ := hon
      -- either an address record with the right family (the success theorem), or an error value
      by_cases hfam : (get16 s.pp.packet c.nameEnd = 1 ∧ ip.length = 4) ∨ (get16 s.pp.packet c.nameEnd = 28 ∧ ip.length = 16)
      · obtain ⟨_, _, _, pp', _, _, _, _, _, hset, _⟩ := set_ip_consistent P hc he c.sec hrec (split_at (P.lst c.sec) j hj) c hr hoff rfl ip hfam
        simp only [hset, bind_ok]
        exact ⟨_, _, rfl⟩
      · have : ∃ e, setRrIp s.pp c ip = .ok (s.pp, some e) := by
          unfold setRrIp
          rw [hty]
          simp only [bind_ok]
          by_cases h1 : (get16 s.pp.packet c.nameEnd == TYPE_A) = true
          · have h4 : (ip.length == 4) = false := by
              cases h4 : (ip.length == 4) with
              | false => rfl
              | true => exact absurd (Or.inl ⟨by simpa [TYPE_A] using h1, by simpa using h4⟩) hfam
            simp only [h1, if_true, h4, Bool.false_eq_true, if_false, pure_eq]
            exact ⟨_, rfl⟩
          · simp only [h1, Bool.false_eq_true, if_false]
            by_cases h3 : (get16 s.pp.packet c.nameEnd == TYPE_AAAA) = true
            · have h16 : (ip.length == 16) = false := by
                cases h16 : (ip.length == 16) with
                | false => rfl
                | true => exact absurd (Or.inr ⟨by simpa [TYPE_AAAA] using h3, by simpa using h16⟩) hfam
              simp only [h3, if_true, h16, Bool.false_eq_true, if_false, pure_eq]
              exact ⟨_, rfl⟩
            · simp only [h3, Bool.false_eq_true, if_false, pure_eq]
              exact ⟨_, rfl⟩
        obtain ⟨e, he'⟩ := this
        simp only [he', bind_ok]
        exact ⟨_, _, rfl⟩
  | setName owner' =>
    obtain ⟨hgo', hnot⟩ := ha
    simp only [applyOp]
    cases hs : s.cur with
    | none => exact ⟨_, _, rfl⟩
    | some c =>
      rw [hs] at hcur
      obtain ⟨hrec, hpos⟩ := hcur
      rcases hpos with hv | ⟨j, hon⟩
      · simp only [C10.set_name_void s.pp c (encLabels owner' ++ [0]) (checkArg_ok owner' hgo') P.mc hv, bind_ok]
        exact ⟨_, _, rfl⟩
      · have hty := type_under P c.sec j c hon
        have h41 := hnot c hs _ hty
        obtain ⟨hj, ob, oa, hsec, hoff, hnext, hleft, hr⟩ := hon
        by_cases hsz : c.nameEnd - (P.start c.sec + ((P.lst c.sec).take j).flatten.length) < labSum owner' + 1 →
            s.pp.packet.length + (labSum owner' + 1) - (c.nameEnd - (P.start c.sec + ((P.lst c.sec).take j).flatten.length)) ≤ 65535
        · obtain ⟨pp', c', _, _, hset, _⟩ :=
            set_name_consistent P he c.sec hrec (split_at (P.lst c.sec) j hj) c hr hoff hnext rfl rfl
              (by rw [hleft]; simp; omega) h41 owner' hgo' hsz
          simp only [hset, mOk, bind_ok]
          exact ⟨_, _, rfl⟩
        · have hgrow : c.nameEnd - (P.start c.sec + ((P.lst c.sec).take j).flatten.length) < labSum owner' + 1 :=
            Classical.byContradiction (fun hn => hsz (fun h => absurd h hn))
          have hbig : s.pp.packet.length + (labSum owner' + 1) - (c.nameEnd - (P.start c.sec + ((P.lst c.sec).take j).flatten.length)) > 65535 := by
            apply Classical.byContradiction
            intro hn
            exact hsz (fun _ => by omega)
          simp only [C10.set_name_too_large P c.sec hrec (split_at (P.lst c.sec) j hj) c hr hoff rfl owner' hgo' hgrow hbig, bind_ok]
          exact ⟨_, _, rfl⟩
  | insert sec rr =>
    obtain ⟨hrec, hpc, hqr⟩ := ha
    simp only [applyOp]
    cases hs : s.cur with
    | some c => exact ⟨_, _, rfl⟩
    | none =>
      obtain ⟨pp', e, hins⟩ := insert_returns P sec hrec rr hpc hqr
      simp only [hins, bind_ok]
      exact ⟨_, _, rfl⟩
  | recompute =>
    simp only [applyOp]
    cases hs : s.cur with
    | some c => exact ⟨_, _, rfl⟩
    | none =>
      simp only [recompute_plain s.pp P.mc, bind_ok]
      exact ⟨_, _, rfl⟩
  | setTid n =>
    simp only [applyOp]
    cases hs : s.cur with
    | some c => exact ⟨_, _, rfl⟩
    | none =>
      obtain ⟨p', hset, _⟩ := C12.set_tid_frame s.pp.packet n (hdr_len P)
      simp only [hset, bind_ok]
      exact ⟨_, _, rfl⟩
  | setFlags n =>
    simp only [applyOp]
    cases hs : s.cur with
    | some c => exact ⟨_, _, rfl⟩
    | none =>
      obtain ⟨p', hset, _⟩ := C12.set_flags_frame s.pp.packet n (hdr_len P)
      simp only [hset, bind_ok]
      exact ⟨_, _, rfl⟩
  | setResponse b =>
    simp only [applyOp]
    cases hs : s.cur with
    | some c => exact ⟨_, _, rfl⟩
    | none =>
      obtain ⟨p', hset, _⟩ := C12.set_response_frame s.pp.packet b (hdr_len P)
      simp only [hset, bind_ok]
      exact ⟨_, _, rfl⟩
  | setRcode n =>
    simp only [applyOp]
    cases hs : s.cur with
    | some c => exact ⟨_, _, rfl⟩
    | none =>
      obtain ⟨p', hset, _⟩ := C12.set_rcode_frame s.pp.packet n (hdr_len P)
      simp only [hset, bind_ok]
      exact ⟨_, _, rfl⟩
  | setOpcode n =>
    simp only [applyOp]
    cases hs : s.cur with
    | some c => exact ⟨_, _, rfl⟩
    | none =>
      obtain ⟨p', hset, _⟩ := C12.set_opcode_frame s.pp.packet n (hdr_len P)
      simp only [hset, bind_ok]
      exact ⟨_, _, rfl⟩

/-- **total correctness of scripts**: from a consistent state, every finite script of allowed operations
runs to the end — no panic, no divergence, no internal error — and ends in a consistent state -/
theorem run_total : ∀ (ops : List Op) (s : St), Inv s → AllowedRun s ops → ∃ s', run s ops = .ok s' ∧ Inv s' := by
  intro ops
  induction ops with
  | nil => intro s h _; exact ⟨s, rfl, h⟩
  | cons op ops ih =>
    intro s h ha
    obtain ⟨ha1, ha2⟩ := ha
    obtain ⟨s1, e1, hstep⟩ := step_total op h ha1
    obtain ⟨s', hr, hi⟩ := ih s1 (step_inv op h ha1 hstep) (ha2 s1 e1 hstep)
    refine ⟨s', ?_, hi⟩
    unfold run
    rw [hstep]
    exact hr

/-- the preconditions are satisfiable: walking into a section and deleting what is found is always allowed -/
example (s : St) : AllowedRun s [.openIter .answer, .next, .delete, .next, .close, .recompute] := by
  simp [AllowedRun, Allowed, Section.isRec]


/-! ### Tie to the current source text: the record-count bookkeeping every insertion and deletion goes through
(`rrcount_inc`, `rrcount_dec`, `insertion_offset` of parsed_packet.rs with the `set_*count` writers of dns_sector.rs,
re-translated on every run: `Generated/TrCounts.lean`, `Tie/Counts.lean`) -/
theorem source_counts_tie (pp : PP) (s : Section) :
    (Tr.Counts.rrcount_inc pp.packet s >>= fun r => Res.ok r.2) = (rrcountInc pp s >>= Tie.incResult) ∧
    Tr.Counts.rrcount_dec pp.packet s = (rrcountDec pp s >>= fun r => Res.ok (r.2, r.1.packet)) ∧
    Tr.Counts.insertion_offset pp.packet pp.offsetAnswers pp.offsetNameservers pp.offsetAdditional s
      = insertionOffset pp s :=
  ⟨Tie.rrcount_inc_eq pp s, Tie.rrcount_dec_eq pp s, Tie.insertion_offset_eq pp s⟩


/-- **insert_rr of the current source text.**  `Tr.Counts.insert_rr` is `ParsedPacket::insert_rr` as re-translated from
/repo/src/parsed_packet.rs on every run (with `rrcount_inc`, `insertion_offset`, the `set_*count` writers and `recompute`; `Compress::uncompress` is the model's): on an object that needs no decompression and whose section starts lie inside the packet it computes
what the model's `insertRR` computes — a refusal of the model being an error of the source (`Tie/Insert.lean`, where
`insert_rr_compressed` does the same for the path through decompression). -/
theorem source_insert_rr (pp : PP) (s : Section) (rr : Bytes) (hmc : pp.maybeCompressed = false) (hoff : Tie.OffOK pp) :
    Tr.Counts.insert_rr pp.packet pp.offsetQuestion pp.offsetAnswers pp.offsetNameservers pp.offsetAdditional pp.offsetEdns
        pp.ednsCount pp.extRcode pp.ednsVersion pp.extFlags pp.maybeCompressed pp.cached s rr
      = (insertRR pp s rr >>= Tie.insFinish) :=
  Tie.insert_rr_plain pp s rr hmc hoff


/-- `ParsedPacket::recompute` of the current source (re-translated on every run; it calls the translated `DNSSector::new` and
`parse`) is the model's `PP.recompute`, a refusal of the model being an error of the source -/
theorem source_recompute (q : PP) :
    Tr.Counts.recompute q.packet q.offsetQuestion q.offsetAnswers q.offsetNameservers q.offsetAdditional q.offsetEdns
        q.ednsCount q.extRcode q.ednsVersion q.extFlags q.maybeCompressed q.cached
      = (q.recompute >>= fun r => match r.2 with | some e => Res.err e | none => Res.ok (Tie.ppTup r.1)) :=
  Tie.recompute_eq q

end Dns.C08
