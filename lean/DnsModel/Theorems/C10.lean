import DnsModel.Script
namespace Dns.C10
end Dns.C10
