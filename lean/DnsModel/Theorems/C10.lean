/-
  C10 — A failed operation changes nothing; the size limit cannot be bypassed.
  Proved here (partial: insertion only; the other mutators are covered by the script correspondence):
  * `insert_size_limit`: for *every* object and *every* record bytes, a successful `insert_rr` leaves a
    packet of at most 8192 bytes — whatever the size of the packet it started from;
  * `insert_failure_plain`: on a pointer-free object, a failing `insert_rr` (too large, a second
    question, a full section) returns the object unchanged.
-/
import DnsModel.Lemmas.InsertRec
namespace Dns.C10
open Dns Res

theorem rrcountInc_length {pp pp' : PP} {s : Section} {e : Option Err} (h : rrcountInc pp s = .ok (pp', e)) :
    pp'.packet.length = pp.packet.length := by
  unfold rrcountInc at h
  cases hn : sectionCount pp.packet s with
  | ok n =>
    rw [hn] at h
    simp only [bind_ok] at h
    split at h
    · simp at h; rw [← h.1]
    split at h
    · simp at h; rw [← h.1]
    cases hw : writeAt pp.packet (sectionCountOffset s) (put16 (n + 1)) with
    | ok p' =>
      rw [hw] at h
      simp at h
      rw [← h.1]
      exact writeAt_length hw
    | err e => rw [hw] at h; simp at h
    | panic => rw [hw] at h; simp at h
    | diverge => rw [hw] at h; simp at h
  | err e => rw [hn] at h; simp at h
  | panic => rw [hn] at h; simp at h
  | diverge => rw [hn] at h; simp at h

/-- **the size limit cannot be bypassed**: whatever the object and the record, a successful insertion
leaves at most 8192 bytes -/
theorem insert_size_limit (pp pp' : PP) (sect : Section) (rr : Bytes) (h : insertRR pp sect rr = .ok (pp', none)) :
    pp'.packet.length ≤ 8192 := by
  unfold insertRR at h
  obtain ⟨r, hr, h⟩ := bind_eq_ok.1 h
  obtain ⟨pp1, e1⟩ := r
  simp only at h
  split at h
  · rename_i he
    simp at h
    rw [h.2] at he
    simp at he
  split at h
  · simp at h
  rename_i hsz
  obtain ⟨r2, hr2, h⟩ := bind_eq_ok.1 h
  obtain ⟨pp2, e2⟩ := r2
  simp only at h
  split at h
  · rename_i he
    simp at h
    rw [h.2] at he
    simp at he
  have hl2 := rrcountInc_length hr2
  obtain ⟨io, hio, h⟩ := bind_eq_ok.1 h
  split at h
  · simp at h
  rename_i hle
  have hmax : DNS_MAX_UNCOMPRESSED_SIZE = 8192 := rfl
  have hlen : (pp2.packet.take io ++ rr ++ pp2.packet.drop io).length ≤ 8192 := by
    simp only [List.length_append, List.length_take, List.length_drop]
    omega
  cases sect
  case edns => simp at h
  all_goals
    simp only [pure_eq, ok.injEq, Prod.mk.injEq] at h
    rw [← h.1]
    exact hlen

theorem rrcountInc_failure {pp pp' : PP} {s : Section} {e : Err} (h : rrcountInc pp s = .ok (pp', some e)) : pp' = pp := by
  unfold rrcountInc at h
  cases hn : sectionCount pp.packet s with
  | ok n =>
    rw [hn] at h
    simp only [bind_ok] at h
    split at h
    · simp at h; exact h.1.symm
    split at h
    · simp at h; exact h.1.symm
    cases hw : writeAt pp.packet (sectionCountOffset s) (put16 (n + 1)) with
    | ok p' => rw [hw] at h; simp at h
    | err e => rw [hw] at h; simp at h
    | panic => rw [hw] at h; simp at h
    | diverge => rw [hw] at h; simp at h
  | err e => rw [hn] at h; simp at h
  | panic => rw [hn] at h; simp at h
  | diverge => rw [hn] at h; simp at h

/-- **a failed insertion changes nothing** (pointer-free object): whatever the reason reported — too
large, a second question, a full section — the object returned is the object given -/
theorem insert_failure_plain (pp pp' : PP) (sect : Section) (rr : Bytes) (e : Err) (hmc : pp.maybeCompressed = false)
    (h : insertRR pp sect rr = .ok (pp', some e)) : pp' = pp := by
  unfold insertRR at h
  simp only [hmc, Bool.false_eq_true, if_false, pure_eq, bind_ok, Option.isSome_none] at h
  split at h
  · simp at h; exact h.1.symm
  obtain ⟨r2, hr2, h⟩ := bind_eq_ok.1 h
  obtain ⟨pp2, e2⟩ := r2
  simp only at h
  split at h
  · rename_i he
    simp at h
    obtain ⟨h1, h2⟩ := h
    subst h1
    subst h2
    exact rrcountInc_failure hr2
  obtain ⟨io, hio, h⟩ := bind_eq_ok.1 h
  split at h
  · simp at h
  cases sect <;> simp at h

/-- the reasons are reachable: a packet already over the limit is refused, unchanged -/
theorem insert_too_large (pp : PP) (sect : Section) (rr : Bytes) (hmc : pp.maybeCompressed = false)
    (hbig : pp.packet.length + rr.length > 8192) : insertRR pp sect rr = .ok (pp, some .packetTooLarge) := by
  unfold insertRR
  have : pp.packet.length + rr.length > DNS_MAX_UNCOMPRESSED_SIZE := hbig
  simp [hmc, this]

end Dns.C10
