/-
  C10 — A failed operation changes nothing; the size limit cannot be bypassed.
  Proved here:
  * `insert_size_limit`: for *every* object and *every* record bytes, a successful `insert_rr` leaves a
    packet of at most 8192 bytes — whatever the size of the packet it started from; `insert_too_large`:
    a packet that would exceed the limit is refused with PacketTooLarge, unchanged;
  * `insert_failure_plain`: on a pointer-free object a failing `insert_rr` (too large, a second
    question, a full section) returns the object given;
  * `delete_void_unchanged`, `set_name_void`: an operation through the cursor of a deleted record
    reports VoidRecord and returns object and cursor as they were;
  * `set_name_invalid` (+ `set_name_arg_total`): an invalid or over-long name is refused by the checker
    before any byte moves;
  * `set_ip_failure`: wrong address family / not an address record: error, object unchanged;
  * `rename_failure`: a rename that overflows a name (or whose result is refused) returns the object
    unchanged;
  * `set_name_too_large`: a name that would push the packet past 65535 bytes is refused; only the
    question cache is emptied.
  An unchanged object trivially still satisfies C08.  Not covered by a theorem (script correspondence
  only): malformed record text at the object API (the text is refused by synthesis — C13
  `excluded_is_error` — before insertion is attempted), failures of insertion into a still-compressed object
  (decompression happens first; the bytes change, the decoded message does not).
-/
import DnsModel.Lemmas.InsertRec
import DnsModel.Tie.Counts
import DnsModel.Tie.Insert
import DnsModel.Lemmas.SetName
namespace Dns.C10
open Dns Res

theorem rrcountInc_length {pp pp' : PP} {s : Section} {e : Option Err} (h : rrcountInc pp s = .ok (pp', e)) :
    pp'.packet.length = pp.packet.length := by
  unfold rrcountInc at h
  cases hn : sectionCount pp.packet s with
  | ok n =>
    rw [hn] at h
    simp only [bind_ok] at h
    split at h
    · simp at h; rw [← h.1]
    split at h
    · simp at h; rw [← h.1]
    cases hw : writeAt pp.packet (sectionCountOffset s) (put16 (n + 1)) with
    | ok p' =>
      rw [hw] at h
      simp at h
      rw [← h.1]
      exact writeAt_length hw
    | err e => rw [hw] at h; simp at h
    | panic => rw [hw] at h; simp at h
    | diverge => rw [hw] at h; simp at h
  | err e => rw [hn] at h; simp at h
  | panic => rw [hn] at h; simp at h
  | diverge => rw [hn] at h; simp at h

/-- **the size limit cannot be bypassed**: whatever the object and the record, a successful insertion
leaves at most 8192 bytes -/
theorem insert_size_limit (pp pp' : PP) (sect : Section) (rr : Bytes) (h : insertRR pp sect rr = .ok (pp', none)) :
    pp'.packet.length ≤ 8192 := by
  unfold insertRR at h
  obtain ⟨r, hr, h⟩ := bind_eq_ok.1 h
  obtain ⟨pp1, e1⟩ := r
  simp only at h
  split at h
  · rename_i he
    simp at h
    rw [h.2] at he
    simp at he
  split at h
  · simp at h
  rename_i hsz
  obtain ⟨r2, hr2, h⟩ := bind_eq_ok.1 h
  obtain ⟨pp2, e2⟩ := r2
  simp only at h
  split at h
  · rename_i he
    simp at h
    rw [h.2] at he
    simp at he
  have hl2 := rrcountInc_length hr2
  obtain ⟨io, hio, h⟩ := bind_eq_ok.1 h
  split at h
  · simp at h
  rename_i hle
  have hmax : DNS_MAX_UNCOMPRESSED_SIZE = 8192 := rfl
  have hlen : (pp2.packet.take io ++ rr ++ pp2.packet.drop io).length ≤ 8192 := by
    simp only [List.length_append, List.length_take, List.length_drop]
    omega
  cases sect
  case edns => simp at h
  all_goals
    simp only [pure_eq, ok.injEq, Prod.mk.injEq] at h
    rw [← h.1]
    exact hlen

theorem rrcountInc_failure {pp pp' : PP} {s : Section} {e : Err} (h : rrcountInc pp s = .ok (pp', some e)) : pp' = pp := by
  unfold rrcountInc at h
  cases hn : sectionCount pp.packet s with
  | ok n =>
    rw [hn] at h
    simp only [bind_ok] at h
    split at h
    · simp at h; exact h.1.symm
    split at h
    · simp at h; exact h.1.symm
    cases hw : writeAt pp.packet (sectionCountOffset s) (put16 (n + 1)) with
    | ok p' => rw [hw] at h; simp at h
    | err e => rw [hw] at h; simp at h
    | panic => rw [hw] at h; simp at h
    | diverge => rw [hw] at h; simp at h
  | err e => rw [hn] at h; simp at h
  | panic => rw [hn] at h; simp at h
  | diverge => rw [hn] at h; simp at h

/-- **a failed insertion changes nothing** (pointer-free object): whatever the reason reported — too
large, a second question, a full section — the object returned is the object given -/
theorem insert_failure_plain (pp pp' : PP) (sect : Section) (rr : Bytes) (e : Err) (hmc : pp.maybeCompressed = false)
    (h : insertRR pp sect rr = .ok (pp', some e)) : pp' = pp := by
  unfold insertRR at h
  simp only [hmc, Bool.false_eq_true, if_false, pure_eq, bind_ok, Option.isSome_none] at h
  split at h
  · simp at h; exact h.1.symm
  obtain ⟨r2, hr2, h⟩ := bind_eq_ok.1 h
  obtain ⟨pp2, e2⟩ := r2
  simp only at h
  split at h
  · rename_i he
    simp at h
    obtain ⟨h1, h2⟩ := h
    subst h1
    subst h2
    exact rrcountInc_failure hr2
  obtain ⟨io, hio, h⟩ := bind_eq_ok.1 h
  split at h
  · simp at h
  cases sect <;> simp at h

/-- the reasons are reachable: a packet already over the limit is refused, unchanged -/
theorem insert_too_large (pp : PP) (sect : Section) (rr : Bytes) (hmc : pp.maybeCompressed = false)
    (hbig : pp.packet.length + rr.length > 8192) : insertRR pp sect rr = .ok (pp, some .packetTooLarge) := by
  unfold insertRR
  have : pp.packet.length + rr.length > DNS_MAX_UNCOMPRESSED_SIZE := hbig
  simp [hmc, this]

/-- **an operation through a void cursor** (nothing yielded yet, or the record already deleted):
`delete` reports it and returns the object and the cursor as they were -/
theorem delete_void_unchanged (pp : PP) (c : Cursor) (h : c.offset = none) :
    deleteRR pp c = .ok { pp := pp, cur := c, result := some .voidRecord } := delete_void pp c h

/-- **an invalid or over-long name**: `set_raw_name` reports the checker's error before anything moves -/
theorem set_name_invalid (pp : PP) (c : Cursor) (name : Bytes) (e : Err) (h : checkCompressedName name 0 = .err e) :
    setRawName pp c name = .ok { pp := pp, cur := c, result := some e } := by
  unfold setRawName
  rw [h]
  rfl

/-- the name checker never panics or loops: an argument is either accepted or refused with an error -/
theorem set_name_arg_total (name : Bytes) :
    (∃ e, checkCompressedName name 0 = .err e) ∨ (∃ n, checkCompressedName name 0 = .ok n) :=
  checkCompressedName_total name 0

/-- `set_raw_name` through a void cursor on a pointer-free object: reported, nothing touched -/
theorem set_name_void (pp : PP) (c : Cursor) (name : Bytes) {n : Nat} (hn : checkCompressedName name 0 = .ok n)
    (hmc : pp.maybeCompressed = false) (h : c.offset = none) :
    setRawName pp c name = .ok { pp := pp, cur := c, result := some .voidRecord } := by
  unfold setRawName
  simp [hn, hmc, h, mOk, mErr]

/-- **wrong address family / not an address record**: `set_rr_ip` reports it, the object is unchanged -/
theorem set_ip_failure (pp pp' : PP) (c : Cursor) (ip : Bytes) (e : Err) (h : setRrIp pp c ip = .ok (pp', some e)) : pp' = pp :=
  setRrIp_failure pp pp' c ip e h

/-- **a rename that fails** (a renamed name would overflow, or the result is refused) returns the object
unchanged -/
theorem rename_failure (pp pp' : PP) (target source : Bytes) (sfx : Bool) (e : Err)
    (h : pp.renameWithRawNames target source sfx = .ok (pp', some e)) : pp' = pp := by
  unfold PP.renameWithRawNames at h
  cases hr : Dns.renameWithRawNames pp target source sfx with
  | err e' => rw [hr] at h; simp at h; exact h.1.symm
  | panic => rw [hr] at h; simp at h
  | diverge => rw [hr] at h; simp at h
  | ok packet =>
    rw [hr] at h
    simp only at h
    cases hp : parse packet with
    | err e' => rw [hp] at h; simp at h; exact h.1.symm
    | panic => rw [hp] at h; simp at h
    | diverge => rw [hp] at h; simp at h
    | ok v =>
      rw [hp] at h
      simp only at h
      split at h <;> simp at h

/-- **`set_raw_name` refused for size** (the packet would exceed 65535 bytes): PacketTooLarge; bytes,
section starts, EDNS summary and cursor untouched, the question cache emptied (so the object is still
consistent and decodes to the same message) -/
theorem set_name_too_large {pp : PP} (P : PlainObj pp) (sec : Section) (hs : sec.isRec = true) {ps1 ps2 : List Bytes} {rc : Bytes}
    (hsplit : P.lst sec = ps1 ++ rc :: ps2) (c : Cursor) {ne : Nat} {ob oa : Bool}
    (hr : RRAtPos pp.packet sec ⟨P.start sec + ps1.flatten.length, ne, P.start sec + ps1.flatten.length + rc.length⟩ ob oa)
    (hoff : c.offset = some (P.start sec + ps1.flatten.length)) (hne : c.nameEnd = ne)
    (owner' : List (List UInt8)) (hgo' : GoodLabels owner')
    (hgrow : ne - (P.start sec + ps1.flatten.length) < labSum owner' + 1)
    (hbig : pp.packet.length + (labSum owner' + 1) - (ne - (P.start sec + ps1.flatten.length)) > 65535) :
    setRawName pp c (encLabels owner' ++ [0]) = .ok { pp := { pp with cached := none }, cur := c, result := some .packetTooLarge } :=
  P.set_name_too_large sec hs hsplit c hr hoff hne owner' hgo' hgrow hbig


/-! ### Tie to the current source text: the record-count bookkeeping every insertion and deletion goes through
(`rrcount_inc`, `rrcount_dec`, `insertion_offset` of parsed_packet.rs with the `set_*count` writers of dns_sector.rs,
re-translated on every run: `Generated/TrCounts.lean`, `Tie/Counts.lean`) -/
theorem source_counts_tie (pp : PP) (s : Section) :
    (Tr.Counts.rrcount_inc pp.packet s >>= fun r => Res.ok r.2) = (rrcountInc pp s >>= Tie.incResult) ∧
    Tr.Counts.rrcount_dec pp.packet s = (rrcountDec pp s >>= fun r => Res.ok (r.2, r.1.packet)) ∧
    Tr.Counts.insertion_offset pp.packet pp.offsetAnswers pp.offsetNameservers pp.offsetAdditional s
      = insertionOffset pp s :=
  ⟨Tie.rrcount_inc_eq pp s, Tie.rrcount_dec_eq pp s, Tie.insertion_offset_eq pp s⟩


/-- **insert_rr of the current source text.**  `Tr.Counts.insert_rr` is `ParsedPacket::insert_rr` as re-translated from
/repo/src/parsed_packet.rs on every run (with `rrcount_inc`, `insertion_offset`, the `set_*count` writers and `recompute`; `Compress::uncompress` is the model's): on an object that needs no decompression and whose section starts lie inside the packet it computes
what the model's `insertRR` computes — a refusal of the model being an error of the source (`Tie/Insert.lean`, where
`insert_rr_compressed` does the same for the path through decompression). -/
theorem source_insert_rr (pp : PP) (s : Section) (rr : Bytes) (hmc : pp.maybeCompressed = false) (hoff : Tie.OffOK pp) :
    Tr.Counts.insert_rr pp.packet pp.offsetQuestion pp.offsetAnswers pp.offsetNameservers pp.offsetAdditional pp.offsetEdns
        pp.ednsCount pp.extRcode pp.ednsVersion pp.extFlags pp.maybeCompressed pp.cached s rr
      = (insertRR pp s rr >>= Tie.insFinish) :=
  Tie.insert_rr_plain pp s rr hmc hoff

end Dns.C10
