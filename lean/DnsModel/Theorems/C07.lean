/-
  C07 — Renaming rewrites exactly the matching names and nothing else.
  For every accepted packet (compressed or not), every pair of well-formed, pointer-free, non-root
  names `src`, `tgt` and both modes:
  * `rename_spec`: either the call returns a packet that satisfies the acceptance policy, has the
    input's 12 header bytes, and whose question and records are, one by one and in order, the
    input's with every name the library understands replaced by its renaming (`Renamed`: the name,
    or in suffix mode a suffix of it on a label boundary, that equals `src` up to case is replaced by
    `tgt`; anything else is kept) up to ASCII case, all other bytes (type, class, TTL, opaque data,
    OPT) identical — or it fails with `InvalidName` and some renamed name would exceed 255 bytes;
  * `rename_self`: renaming a name to itself keeps every name up to case and never fails.
-/
import DnsModel.Lemmas.RenameRun
import DnsModel.Tie.Rename
import DnsModel.Tie.Reader
import DnsModel.Theorems.C06
namespace Dns.C07
open Dns Res

/-- some name of the message overflows under the renaming -/
def Overflow (src tgt : List (List UInt8)) (sfx : Bool) (u : Bytes) (L : C03.Layout u) : Prop :=
  (∃ ls lsr, ValidName u 12 ls L.qe ∧ Renamed src tgt sfx ls lsr ∧ 255 < wireLen lsr) ∨
  ∃ r ∈ L.answers ++ L.authority ++ L.additional, RecOverflow (Renamed src tgt sfx) u r

private theorem section_fold {pp : PP} {sec : Section} {l : List RecPos} {off e : Nat} {ob oe : Bool}
    {src tgt : List (List UInt8)} (hs : ArgName src) (ht : ArgName tgt) (sfx : Bool)
    (hl : RRsL pp.packet sec l off ob e oe) (hlen : l.length < 65536)
    (hwalk : ∃ cs, collectWalk pp nextIncludingOpt (l.length + 1) (Cursor.new sec) = .ok cs ∧ cs.map posOf = l.map some)
    (dict : SuffixDict) (out : Bytes) (hinv : DictInv dict out) :
    (∃ (dict' : SuffixDict) (em : Bytes),
      walkFold pp nextIncludingOpt (renameResponseItem pp (encLabels tgt ++ [0]) (encLabels src ++ [0]) sfx) sectionFuel
        (Cursor.new sec) (dict, out) = .ok (dict', out ++ em) ∧
      DictInv dict' (out ++ em) ∧
      ∀ tl : Bytes, ∃ l', RRsL (out ++ em ++ tl) sec l' out.length ob (out.length + em.length) oe ∧
        RunRen (Renamed src tgt sfx) pp.packet (out ++ em ++ tl) l l' ∧
        l'.map (fun r => get16 (out ++ em ++ tl) r.ne) = l.map (fun r => get16 pp.packet r.ne)) ∨
    (walkFold pp nextIncludingOpt (renameResponseItem pp (encLabels tgt ++ [0]) (encLabels src ++ [0]) sfx) sectionFuel
        (Cursor.new sec) (dict, out) = .err .invalidName ∧ ∃ r ∈ l, RecOverflow (Renamed src tgt sfx) pp.packet r) := by
  obtain ⟨cs, hcs, hpos⟩ := hwalk
  have hm := collectWalk_mono _ _ _ hcs (sectionFuel - (l.length + 1))
  have e : l.length + 1 + (sectionFuel - (l.length + 1)) = sectionFuel := by unfold sectionFuel; omega
  rw [e] at hm
  rw [walkFold_collect _ _ _ _ hm]
  exact fold_rename hs ht sfx hl cs hpos dict out hinv

/-- **renaming an accepted packet** -/
theorem rename_spec {u : Bytes} {v : View} (h : parse u = .ok v) (L : C03.Layout u) {src tgt : List (List UInt8)}
    (hs : ArgName src) (ht : ArgName tgt) (sfx : Bool) :
    (∃ c, renameWithRawNames (PP.ofView u v) (encLabels tgt ++ [0]) (encLabels src ++ [0]) sfx = .ok c ∧ WF c ∧
      c.take 12 = u.take 12 ∧
      ∃ L' : C03.Layout c,
        (∃ ls lsr ls', ValidName u 12 ls L.qe ∧ Renamed src tgt sfx ls lsr ∧ ValidName c 12 ls' L'.qe ∧ lsCi ls' lsr ∧
          (c.drop L'.qe).take 4 = (u.drop L.qe).take 4) ∧
        RunRen (Renamed src tgt sfx) u c L.answers L'.answers ∧ RunRen (Renamed src tgt sfx) u c L.authority L'.authority ∧
        RunRen (Renamed src tgt sfx) u c L.additional L'.additional) ∨
    (renameWithRawNames (PP.ofView u v) (encLabels tgt ++ [0]) (encLabels src ++ [0]) sfx = .err .invalidName ∧
      Overflow src tgt sfx u L) := by
  obtain ⟨L0, hl, v1, v2, v3, v4, _, _⟩ := C03.layout_full h
  obtain ⟨eq0, ea0, en0, er0⟩ := C05.layout_unique L0 L
  rw [eq0, ea0] at v2
  rw [en0] at v3
  rw [er0] at v4
  have hwf := C02.accepted_wf u v h
  obtain ⟨_, hqd, qeW, hneW, _, hclW, hqr, _⟩ := hwf
  have hqeW : qeW = L.qe := nameEnds_functional hneW L.hq.1
  subst hqeW
  have he2 : L0.e2 = L.e2 := by
    have := L0.ha; rw [eq0] at this
    exact (this.functional L.ha (by rw [L0.na, L.na])).2
  have he3 : L0.e3 = L.e3 := by
    have := L0.hn; rw [he2] at this
    exact (this.functional L.hn (by rw [L0.nn, L.nn])).2
  rw [he2] at v3
  rw [he3] at v4
  have ia : secInfo (PP.ofView u v) .answer = .ok (L.answers.length, if L.answers.length > 0 then some (L.qe + 4) else none) := by
    simp [secInfo, PP.ofView, ancount, (be16_ok_of_le (p := u) (i := 6) (by omega)).1, L.na, v2]
  have inn : secInfo (PP.ofView u v) .nameServers = .ok (L.authority.length, if L.authority.length > 0 then some L.e2 else none) := by
    simp [secInfo, PP.ofView, nscount, (be16_ok_of_le (p := u) (i := 8) (by omega)).1, L.nn, v3]
  have ir : secInfo (PP.ofView u v) .additional = .ok (L.additional.length, if L.additional.length > 0 then some L.e3 else none) := by
    simp [secInfo, PP.ofView, arcount, (be16_ok_of_le (p := u) (i := 10) (by omega)).1, L.nr, v4]
  have wa := walk_incl (pp := PP.ofView u v) L.ha ia
  have wn := walk_incl (pp := PP.ofView u v) L.hn inn
  have wr := walk_incl (pp := PP.ofView u v) L.hr ir
  obtain ⟨qe', hqe', hqw⟩ := C03.question_walk h
  have hqe : qe' = L.qe := nameEnds_functional hqe' L.hq.1
  subst hqe
  have hqm := collectWalk_mono _ _ _ hqw (sectionFuel - 2)
  have e2 : 2 + (sectionFuel - 2) = sectionFuel := by unfold sectionFuel; omega
  rw [e2] at hqm
  obtain ⟨⟨qls, hvq⟩, hq4u⟩ := L.hq
  have hlt6 := get16_lt u 6
  have hlt8 := get16_lt u 8
  have hlt10 := get16_lt u 10
  have hH : (u.take 12).length = 12 := by simp; omega
  have hq4 : ((u.drop L.qe).take 4).length = 4 := length_take_drop hq4u
  -- the start of the call
  have hstart : ∀ k : SuffixDict × Bytes → Res Bytes,
      (renameWithRawNames (PP.ofView u v) (encLabels tgt ++ [0]) (encLabels src ++ [0]) sfx) =
      (do
        let st ← walkFold (PP.ofView u v) nextQuestion (renameQuestionItem (PP.ofView u v) (encLabels tgt ++ [0]) (encLabels src ++ [0]) sfx)
          sectionFuel (Cursor.new .question) ({}, u.take 12)
        let st ← walkFold (PP.ofView u v) nextIncludingOpt (renameResponseItem (PP.ofView u v) (encLabels tgt ++ [0]) (encLabels src ++ [0]) sfx)
          sectionFuel (Cursor.new .answer) st
        let st ← walkFold (PP.ofView u v) nextIncludingOpt (renameResponseItem (PP.ofView u v) (encLabels tgt ++ [0]) (encLabels src ++ [0]) sfx)
          sectionFuel (Cursor.new .nameServers) st
        let st ← walkFold (PP.ofView u v) nextIncludingOpt (renameResponseItem (PP.ofView u v) (encLabels tgt ++ [0]) (encLabels src ++ [0]) sfx)
          sectionFuel (Cursor.new .additional) st
        pure st.2) := by
    intro _
    unfold renameWithRawNames
    have ht1 := ht.len; have hs1 := hs.len
    rw [wireLen_eq] at ht1 hs1
    have c1 : (decide ((encLabels tgt ++ [0]).length ≤ 0) || decide ((encLabels src ++ [0]).length ≤ 0)) = false := by simp
    have c2 : (decide ((encLabels tgt ++ [0]).length > DNS_MAX_HOSTNAME_LEN) ||
        decide ((encLabels src ++ [0]).length > DNS_MAX_HOSTNAME_LEN)) = false := by
      consts; simp [encLabels_length]; omega
    simp only [failIf, c1, c2, Bool.false_eq_true, if_false, bind_ok, DNS_HEADER_SIZE, PP.ofView,
      slice_ok (p := u) (a := 0) (b := 12) ⟨by omega, by omega⟩, List.drop_zero, Nat.sub_zero]
  rw [hstart (fun _ => .panic)]
  rw [walkFold_collect _ _ _ _ hqm]
  simp only [foldRes]
  obtain ⟨qlsr, hqren, hqcase⟩ := rename_question (pp := PP.ofView u v) (by simpa [PP.ofView] using hvq)
    (by simpa [PP.ofView] using hq4u) hs ht sfx {} (u.take 12) (C06.dictInv_empty _)
  cases hqcase with
  | inr hq =>
    obtain ⟨herr, hbig⟩ := hq
    right
    refine ⟨?_, Or.inl ⟨qls, qlsr, hvq, hqren, hbig⟩⟩
    rw [herr]; rfl
  | inl hq =>
    obtain ⟨d1, qem, qls', hqrun, hqpos, hqci, hdq, hqval⟩ := hq
    rw [hqrun]
    simp only [Res.bind, bind_ok, PP.ofView] at hdq hqval ⊢
    cases section_fold (pp := PP.ofView u v) hs ht sfx L.ha (by rw [L.na]; exact hlt6) wa d1 _ hdq with
    | inr hA =>
      obtain ⟨herr, r, hr, hov⟩ := hA
      right
      refine ⟨by simp only [PP.ofView] at herr; rw [herr]; rfl, Or.inr ⟨r, by simp [hr], hov⟩⟩
    | inl hA =>
      obtain ⟨d2, ema, fa, hda, halla⟩ := hA
      simp only [PP.ofView] at fa hda halla
      rw [fa]
      simp only [bind_ok]
      cases section_fold (pp := PP.ofView u v) hs ht sfx L.hn (by rw [L.nn]; exact hlt8) wn d2 _ hda with
      | inr hN =>
        obtain ⟨herr, r, hr, hov⟩ := hN
        right
        refine ⟨by simp only [PP.ofView] at herr; rw [herr]; rfl, Or.inr ⟨r, by simp [hr], hov⟩⟩
      | inl hN =>
        obtain ⟨d3, emn, fn, hdn, halln⟩ := hN
        simp only [PP.ofView] at fn hdn halln
        rw [fn]
        simp only [bind_ok]
        cases section_fold (pp := PP.ofView u v) hs ht sfx L.hr (by rw [L.nr]; exact hlt10) wr d3 _ hdn with
        | inr hR =>
          obtain ⟨herr, r, hr, hov⟩ := hR
          right
          refine ⟨by simp only [PP.ofView] at herr; rw [herr]; rfl, Or.inr ⟨r, by simp [hr], hov⟩⟩
        | inl hR =>
          obtain ⟨d4, emr, fr, hdr, hallr⟩ := hR
          simp only [PP.ofView] at fr hdr hallr
          rw [fr]
          simp only [bind_ok, pure_eq]
          left
          generalize hc : u.take 12 ++ (qem ++ (u.drop L.qe).take 4) ++ ema ++ emn ++ emr = c
          obtain ⟨b1, _⟩ := L.ha.bounds
          obtain ⟨b2, _⟩ := L.hn.bounds
          obtain ⟨b3, _⟩ := L.hr.bounds
          have hqgt : 12 < L.qe := hvq.2.1.lt
          have hclen : c.length = 12 + (qem.length + 4) + ema.length + emn.length + emr.length := by
            rw [← hc]; simp only [List.length_append, hH, hq4]
          have hagH : Agree u c 0 0 12 := by
            have := agree_of_eq (p := u) (u := c) (A := []) (B := (qem ++ (u.drop L.qe).take 4) ++ ema ++ emn ++ emr) (a := 0) (n := 12)
              (by rw [← hc]; simp) (by omega)
            simpa using this
          have hg16 : ∀ i, i + 2 ≤ 12 → get16 c i = get16 u i := by
            intro i hi
            have := hagH.get16 (i := i) hi
            simpa using this
          have hvqc : ValidName c 12 qls' (12 + qem.length) := by
            have := hqval (ema ++ emn ++ emr)
            rw [hH] at this
            have e : u.take 12 ++ (qem ++ (u.drop L.qe).take 4) ++ (ema ++ emn ++ emr) = c := by rw [← hc]; simp
            rw [e] at this; exact this
          have hA : (u.take 12 ++ qem).length = 12 + qem.length := by rw [List.length_append, hH]
          have hagQ : Agree u c L.qe (12 + qem.length) 4 := by
            have := agree_of_eq (p := u) (u := c) (A := u.take 12 ++ qem) (B := ema ++ emn ++ emr)
              (a := L.qe) (n := 4) (by rw [← hc]; simp) (by omega)
            rw [hA] at this; exact this
          have hclass : get16 c (12 + qem.length + 2) = 1 := by rw [hagQ.get16 (i := 2) (by omega)]; exact hclW
          have hwinQ : (c.drop (12 + qem.length)).take 4 = (u.drop L.qe).take 4 := by
            have := window_eq (u := c) (A := u.take 12 ++ qem) (w := (u.drop L.qe).take 4) (B := ema ++ emn ++ emr)
              (by rw [← hc]; simp)
            rw [hA, hq4] at this; exact this
          have hpre1 : (u.take 12 ++ (qem ++ (u.drop L.qe).take 4)).length = 12 + qem.length + 4 := by
            simp only [List.length_append, hH, hq4]; omega
          obtain ⟨la', rla, cla, tla⟩ := halla (emn ++ emr)
          have eu1 : u.take 12 ++ (qem ++ (u.drop L.qe).take 4) ++ ema ++ (emn ++ emr) = c := by rw [← hc]; simp
          rw [eu1] at rla cla tla
          rw [hpre1] at rla
          obtain ⟨ln', rln, cln, tln⟩ := halln emr
          rw [hc] at rln cln tln
          have hpre2 : (u.take 12 ++ (qem ++ (u.drop L.qe).take 4) ++ ema).length = 12 + qem.length + 4 + ema.length := by
            rw [List.length_append, hpre1]
          rw [hpre2] at rln
          obtain ⟨lr', rlr, clr, tlr⟩ := hallr []
          have eu3 : u.take 12 ++ (qem ++ (u.drop L.qe).take 4) ++ ema ++ emn ++ emr ++ [] = c := by rw [← hc]; simp
          rw [eu3] at rlr clr tlr
          have hpre3 : (u.take 12 ++ (qem ++ (u.drop L.qe).take 4) ++ ema ++ emn).length =
              12 + qem.length + 4 + ema.length + emn.length := by rw [List.length_append, hpre2]
          rw [hpre3] at rlr
          have hend : 12 + qem.length + 4 + ema.length + emn.length + emr.length = c.length := by rw [hclen]; omega
          rw [hend] at rlr
          have c6 : la'.length = get16 c 6 := by rw [cla.length, L.na, hg16 6 (by omega)]
          have c8 : ln'.length = get16 c 8 := by rw [cln.length, L.nn, hg16 8 (by omega)]
          have c10 : lr'.length = get16 c 10 := by rw [clr.length, L.nr, hg16 10 (by omega)]
          refine ⟨c, rfl, ?_, ?_, ?_⟩
          · refine ⟨by omega, by rw [hg16 4 (by omega)]; exact hqd, 12 + qem.length, ⟨qls', hvqc⟩, by omega, hclass, ?_,
              12 + qem.length + 4 + ema.length, L.o2, 12 + qem.length + 4 + ema.length + emn.length, L.o3, L.o4, ?_, ?_, ?_⟩
            · rw [hg16 2 (by omega), hg16 6 (by omega), hg16 8 (by omega)]; exact hqr
            · rw [← c6]; exact rla.to_RRs
            · rw [← c8]; exact rln.to_RRs
            · rw [← c10]; exact rlr.to_RRs
          · rw [← hc]
            simp only [List.append_assoc]
            rw [List.take_append_of_le_length (by omega), List.take_of_length_le (by omega)]
          · exact ⟨⟨12 + qem.length, la', ln', lr', _, _, _, _, _, ⟨⟨qls', hvqc⟩, by omega⟩, rla, rln, rlr, c6, c8, c10⟩,
              ⟨qls, qlsr, qls', hvq, hqren, hvqc, hqci, hwinQ⟩, cla, cln, clr⟩

end Dns.C07

namespace Dns.C07
open Dns Res

theorem renamed_self {src ls ls' : List (List UInt8)} {sfx : Bool} (h : Renamed src src sfx ls ls') : lsCi ls' ls := by
  cases h with
  | hit a b hci _ => exact (lsCi.refl a).append hci.symm
  | miss _ _ => exact lsCi.refl _

theorem rdRen_self {src : List (List UInt8)} {sfx : Bool} {u B : Bytes} {t l rs l' rs' : Nat}
    (h : RdRen (Renamed src src sfx) u B t l rs l' rs') : RdCi u B t l rs l' rs' := by
  unfold RdRen at h
  unfold RdCi
  by_cases hns : t = 2 ∨ t = 5 ∨ t = 12
  · simp only [hns, if_true] at h ⊢
    obtain ⟨ls, lsr, ls', h1, h2, h3, h4⟩ := h
    exact ⟨ls, ls', h1, h3, h4.trans (renamed_self h2)⟩
  simp only [hns, if_false] at h ⊢
  by_cases hmx : t = 15
  · simp only [hmx, if_true] at h ⊢
    obtain ⟨hp, ls, lsr, ls', h1, h2, h3, h4⟩ := h
    exact ⟨hp, ls, ls', h1, h3, h4.trans (renamed_self h2)⟩
  simp only [hmx, if_false] at h ⊢
  by_cases hsoa : t = 6
  · simp only [hsoa, if_true] at h ⊢
    obtain ⟨l1, l2, l1r, l2r, l1', l2', e1, e1', h1, h2, r1, r2, h3, h4, c1, c2, hm⟩ := h
    exact ⟨l1, l2, l1', l2', e1, e1', h1, h2, h3, h4, c1.trans (renamed_self r1), c2.trans (renamed_self r2), hm⟩
  · simpa [hsoa] using h

theorem recRen_self {src : List (List UInt8)} {sfx : Bool} {u B : Bytes} {r r' : RecPos}
    (h : RecRen (Renamed src src sfx) u r B r') : RecCi u r B r' := by
  obtain ⟨owner, ownr, owner', h1, h2, h3, h4, h5, h6⟩ := h
  exact ⟨owner, owner', h1, h3, h4.trans (renamed_self h2), h5, rdRen_self h6⟩

theorem runRen_self {src : List (List UInt8)} {sfx : Bool} {u B : Bytes} {l l' : List RecPos}
    (h : RunRen (Renamed src src sfx) u B l l') : RunCi u B l l' := by
  induction h with
  | nil => exact RunCi.nil
  | cons hr _ ih => exact RunCi.cons (recRen_self hr) ih

/-- **renaming a name to itself**: never fails, and the result is the input up to the case of names -/
theorem rename_self {u : Bytes} {v : View} (h : parse u = .ok v) (L : C03.Layout u) {src : List (List UInt8)}
    (hs : ArgName src) (sfx : Bool) :
    ∃ c, renameWithRawNames (PP.ofView u v) (encLabels src ++ [0]) (encLabels src ++ [0]) sfx = .ok c ∧ WF c ∧
      c.take 12 = u.take 12 ∧
      ∃ L' : C03.Layout c,
        (∃ ls ls', ValidName u 12 ls L.qe ∧ ValidName c 12 ls' L'.qe ∧ lsCi ls' ls ∧
          (c.drop L'.qe).take 4 = (u.drop L.qe).take 4) ∧
        RunCi u c L.answers L'.answers ∧ RunCi u c L.authority L'.authority ∧ RunCi u c L.additional L'.additional := by
  rcases rename_spec h L hs hs sfx with ⟨c, hc, hwf, hhdr, L', ⟨ls, lsr, ls', q1, q2, q3, q4, q5⟩, ra, rn, rr⟩ | ⟨_, hov⟩
  · exact ⟨c, hc, hwf, hhdr, L', ⟨ls, ls', q1, q3, q4.trans (renamed_self q2), q5⟩, runRen_self ra, runRen_self rn, runRen_self rr⟩
  · exfalso
    rcases hov with ⟨ls, lsr, hv, hr, hbig⟩ | ⟨r, _, off, e, ls, lsr, _, _, hv, hr, hbig⟩
    · have := (renamed_self hr).wireLen
      have := hv.2.2.1
      omega
    · have := (renamed_self hr).wireLen
      have := hv.2.2.1
      omega

/-! non-vacuity (kernel evaluation of the model): in the sample packet of C02, renaming `a` to `bb`
rewrites the question and, through the pointer, the answer's owner name -/
example : (parsePP C02.okPacket >>= fun pp => renameWithRawNames pp [2, 98, 98, 0] [1, 97, 0] false) =
    .ok [0,7,0x80,0, 0,1, 0,1, 0,0, 0,1,  2,98,98,0, 0,1, 0,1,  0xc0,12, 0,1, 0,1, 0,0,0,9, 0,4, 1,2,3,4,
         0, 0,41, 4,0xd0, 0,0,0,0, 0,6, 0,10,0,2,7,7] := by decide +kernel


/-! ### Tie to the current source text
The readers and the case-insensitive comparison the renamer's compressor uses (`Compress::raw_name_len`, `raw_name_len_after_decompression`, `copy_uncompressed_name`,
`SuffixDict::raw_names_eq_ignore_case`) are re-translated from /repo/src/compress.rs by rs2lean.py on every run
(`Generated/TrReader.lean`) and proved equal to the model functions used above (`Tie/Reader.lean`). -/
theorem source_reader_tie (p pre n1 n2 : Bytes) (off : Nat) :
    Tr.Reader.raw_name_len p = rawNameLen p ∧
    Tr.Reader.raw_name_len_after_decompression p off = rawNameLenAfterDecompression p off ∧
    Tr.Reader.copy_uncompressed_name pre p off
      = (copyUncompressedName p off >>= fun r => Res.ok ((r.1.length, r.2), pre ++ r.1)) ∧
    Tr.Reader.raw_names_eq_ignore_case n1 n2 = .ok (rawNamesEqIgnoreCase n1 n2) :=
  Tie.reader_tie p pre n1 n2 off


/-- `Renamer::replace_raw`, re-translated from /repo/src/renamer.rs on every run (`Generated/TrRename.lean`), is the
model function `replaceRaw` that `replaceRaw_spec` characterises (`Tie/Rename.lean`) -/
theorem source_replace_raw (name target source : Bytes) (sfx : Bool) :
    Tr.Rename.replace_raw name target source sfx = replaceRaw name target source sfx :=
  Tie.replace_raw_eq name target source sfx

end Dns.C07
