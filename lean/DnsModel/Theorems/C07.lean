import DnsModel.Renamer
namespace Dns.C07
end Dns.C07
