import DnsModel.Iter
namespace Dns.C03
end Dns.C03
