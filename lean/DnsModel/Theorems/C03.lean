/-
  C03 — Every accepted packet reads back completely and faithfully via the iterators.
  Proved here, for every accepted packet (`parse p = .ok v`, object `PP.ofView p v`):
  * the question walk yields exactly the question;
  * the answer, authority and additional walks yield exactly the records the policy relation
    describes, in wire order — with OPT included, and with OPT skipped wherever it sits;
  * on every record so yielded, each accessor returns the value read off the bytes at the record's
    positions (owner name = the labels the name relation assigns, in wire and in lowercase dotted
    form; type, class, TTL, data length, data, address), and none of them panics.
  Accessors are pure functions of the bytes in the model, so "alters no byte" is definitional.
  * the walk over the EDNS options yields exactly the options that tile the data of the OPT record,
    in order, and nothing when there is no OPT;
  * the section accessor reports the section the record was yielded from.
-/
import DnsModel.Lemmas.EdnsWalk
import DnsModel.Tie.Reader
import DnsModel.Theorems.C02
namespace Dns.C03
open Dns Res

/-- the three record sections of an accepted packet, as lists of record positions -/
structure Layout (p : Bytes) where
  qe : Nat
  answers : List RecPos
  authority : List RecPos
  additional : List RecPos
  e2 : Nat
  e3 : Nat
  o2 : Bool
  o3 : Bool
  o4 : Bool
  hq : NameEnds p 12 qe ∧ qe + 4 ≤ p.length
  ha : RRsL p .answer answers (qe + 4) false e2 o2
  hn : RRsL p .nameServers authority e2 o2 e3 o3
  hr : RRsL p .additional additional e3 o3 p.length o4
  na : answers.length = get16 p 6
  nn : authority.length = get16 p 8
  nr : additional.length = get16 p 10

/-- an accepted packet has a layout, and `parse()` reports its section starts -/
theorem accepted_layout {p : Bytes} {v : View} (h : parse p = .ok v) :
    ∃ L : Layout p, v.offsetQuestion = some 12 ∧
      v.offsetAnswers = (if L.answers.length > 0 then some (L.qe + 4) else none) ∧
      v.offsetNameservers = (if L.authority.length > 0 then some L.e2 else none) ∧
      v.offsetAdditional = (if L.additional.length > 0 then some L.e3 else none) ∧ 12 ≤ p.length := by
  obtain ⟨hl, _, qe, e2, o2, e3, o3, o4, hne, hq4, _, ra, rn, rr, v1, v2, v3, v4⟩ := parse_ok_decomp h
  obtain ⟨la, hla, hal⟩ := RRs_to_list ra
  obtain ⟨ln, hln, hnl⟩ := RRs_to_list rn
  obtain ⟨lr, hlr, hrl⟩ := RRs_to_list rr
  exact ⟨⟨qe, la, ln, lr, e2, e3, o2, o3, o4, ⟨hne, hq4⟩, hal, hnl, hrl, hla, hln, hlr⟩,
    v1, by simp [hla, v2], by simp [hln, v3], by simp [hlr, v4], hl⟩

private theorem count_ok {p : Bytes} (h : 12 ≤ p.length) (i : Nat) (hi : i + 2 ≤ 12) : be16 p i = .ok (get16 p i) :=
  (be16_ok_of_le (by omega)).1

/-- **record sections.** On an accepted packet the walks visit exactly the records present:
answers and authority in full; additional in full with OPT included, and minus OPT with OPT skipped. -/
theorem walks_faithful {p : Bytes} {v : View} (h : parse p = .ok v) :
    ∃ L : Layout p,
      (∃ cs, collectWalk (PP.ofView p v) nextSkippingOpt (L.answers.length + 1) (Cursor.new .answer) = .ok cs ∧
        cs.map posOf = (nonOpt p L.answers).map some) ∧
      (∃ cs, collectWalk (PP.ofView p v) nextSkippingOpt (L.authority.length + 1) (Cursor.new .nameServers) = .ok cs ∧
        cs.map posOf = (nonOpt p L.authority).map some) ∧
      (∃ cs, collectWalk (PP.ofView p v) nextSkippingOpt (L.additional.length + 1) (Cursor.new .additional) = .ok cs ∧
        cs.map posOf = (nonOpt p L.additional).map some) ∧
      (∃ cs, collectWalk (PP.ofView p v) nextIncludingOpt (L.additional.length + 1) (Cursor.new .additional) = .ok cs ∧
        cs.map posOf = L.additional.map some) := by
  obtain ⟨L, _, v2, v3, v4, hl⟩ := accepted_layout h
  have ia : secInfo (PP.ofView p v) .answer = .ok (L.answers.length, if L.answers.length > 0 then some (L.qe + 4) else none) := by
    simp [secInfo, PP.ofView, ancount, count_ok hl 6 (by omega), L.na, v2]
  have inn : secInfo (PP.ofView p v) .nameServers = .ok (L.authority.length, if L.authority.length > 0 then some L.e2 else none) := by
    simp [secInfo, PP.ofView, nscount, count_ok hl 8 (by omega), L.nn, v3]
  have ir : secInfo (PP.ofView p v) .additional = .ok (L.additional.length, if L.additional.length > 0 then some L.e3 else none) := by
    simp [secInfo, PP.ofView, arcount, count_ok hl 10 (by omega), L.nr, v4]
  exact ⟨L, walk_skip (pp := PP.ofView p v) L.ha ia, walk_skip (pp := PP.ofView p v) L.hn inn,
    walk_skip (pp := PP.ofView p v) L.hr ir, walk_incl (pp := PP.ofView p v) L.hr ir⟩

/-- answers and authority never contain OPT, so their walks are complete -/
theorem no_opt_outside_additional {p : Bytes} {sec : Section} {l : List RecPos} {off e : Nat} {ob oe : Bool}
    (h : RRsL p sec l off ob e oe) (hs : sec ≠ .additional) : nonOpt p l = l := by
  apply nonOpt_eq_self
  induction h with
  | nil => intro r hr; simp at hr
  | cons hr _ ih =>
    intro r' hr'
    simp at hr'
    rcases hr' with rfl | hr'
    · intro h41
      have := hr.2.2.2.2
      simp only [h41, if_true] at this
      exact hs this.1
    · exact ih r' hr'

/-- **question walk**: the question, then the end -/
theorem question_walk {p : Bytes} {v : View} (h : parse p = .ok v) :
    ∃ qe, NameEnds p 12 qe ∧
      collectWalk (PP.ofView p v) nextQuestion 2 (Cursor.new .question) =
        .ok [⟨.question, some 12, qe + 4, qe, 0⟩] := by
  obtain ⟨hl, hqd, qe, _, _, _, _, _, hne, hq4, _, _, _, _, v1, _⟩ := parse_ok_decomp h
  refine ⟨qe, hne, ?_⟩
  obtain ⟨ls, hv⟩ := hne
  have hsk : skipName p 12 = .ok qe := skipName_valid hv.2.1 (by omega)
  have hq : qdcount p = .ok 1 := by rw [qdcount, count_ok hl 4 (by omega), hqd]
  have step1 : nextQuestion (PP.ofView p v) (Cursor.new .question) = .ok (some ⟨.question, some 12, qe + 4, qe, 0⟩) := by
    unfold nextQuestion
    simp [Cursor.new, PP.ofView, hq, v1, unwrap, assert, hsk, DNS_RR_QUESTION_HEADER_SIZE]
  have step2 : nextQuestion (PP.ofView p v) ⟨.question, some 12, qe + 4, qe, 0⟩ = .ok none := by
    unfold nextQuestion
    simp
  unfold collectWalk
  rw [step1]
  simp only
  unfold collectWalk
  rw [step2]
  rfl

/-- **accessors.** On a record of the policy, with the cursor the walk leaves on it: every accessor
returns the value at the record's positions, and none panics. -/
theorem accessors {p : Bytes} {sec : Section} {r : RecPos} {ob oa : Bool} (hr : RRAtPos p sec r ob oa)
    (c : Cursor) (hc : posOf c = some r) :
    ∃ ls, ValidName p r.off ls r.ne ∧
      c.rawName p = .ok (encLabels ls ++ [0]) ∧
      c.name p = .ok (lowerBytes (joinText [] ls)) ∧
      c.rrType p = .ok (get16 p r.ne) ∧ c.rrClass p = .ok (get16 p (r.ne + 2)) ∧
      c.rrTtl p = .ok (get32 p (r.ne + 4)) ∧ c.rrRdlen p = .ok (get16 p (r.ne + 8)) := by
  obtain ⟨⟨ls, hv⟩, h10, hnext, hfit, _⟩ := hr
  unfold posOf at hc
  cases ho : c.offset with
  | none => simp [ho] at hc
  | some o =>
    simp [ho] at hc
    have e1 : o = r.off := by have := congrArg RecPos.off hc; simpa using this
    have e2 : c.nameEnd = r.ne := by have := congrArg RecPos.ne hc; simpa using this
    subst e1
    have hgt : r.off < r.ne := hv.2.1.lt
    have hsl : sliceFrom p r.ne = .ok (p.drop r.ne) := by simp [sliceFrom]; omega
    have hnle : ¬ (r.ne ≤ r.off) := by omega
    refine ⟨ls, hv, ?_, ?_, ?_, ?_, ?_, ?_⟩
    · unfold Cursor.rawName
      simp [ho, unwrap, e2, hnle, copyUncompressedName_valid hv]
    · unfold Cursor.name
      simp [ho, unwrap, e2, hnle, rawNameToStr_valid hv]
    · rw [rrType_at ho (by omega), e2]
    · unfold Cursor.rrClass
      simp only [ho, unwrap, bind_ok, e2, hsl]
      consts
      exact (be16_ok_of_le (by omega)).1
    · unfold Cursor.rrTtl be32
      simp only [ho, unwrap, bind_ok, e2, hsl]
      consts
      rw [(be16_ok_of_le (p := p) (i := r.ne + 4) (by omega)).1, (be16_ok_of_le (p := p) (i := r.ne + 4 + 2) (by omega)).1]
      simp [get32]
    · unfold Cursor.rrRdlen
      simp only [ho, unwrap, bind_ok, e2, hsl]
      consts
      exact (be16_ok_of_le (by omega)).1

/-- the address accessor on an A / AAAA record of the policy: the 4 / 16 data bytes; `PropertyNotFound` otherwise -/
theorem ip_accessor {p : Bytes} {sec : Section} {r : RecPos} {ob oa : Bool} (hr : RRAtPos p sec r ob oa)
    (c : Cursor) (hc : posOf c = some r) :
    c.rrIp p = (if get16 p r.ne = 1 ∨ get16 p r.ne = 28
      then .ok ((p.drop (r.ne + 10)).take (get16 p (r.ne + 8))) else .err .propertyNotFound) := by
  obtain ⟨ls, _, _, _, hty, _, _, _⟩ := accessors hr c hc
  obtain ⟨_, h10, hnext, hfit, hbody⟩ := hr
  unfold posOf at hc
  cases ho : c.offset with
  | none => simp [ho] at hc
  | some o =>
    simp [ho] at hc
    have e2 : c.nameEnd = r.ne := by have := congrArg RecPos.ne hc; simpa using this
    have hsl : sliceFrom p r.ne = .ok (p.drop r.ne) := by simp [sliceFrom]; omega
    unfold Cursor.rrIp
    simp only [hty, bind_ok, e2, hsl]
    consts
    by_cases h1 : get16 p r.ne = 1
    · have hl4 : get16 p (r.ne + 8) = 4 := by
        have h41 : ¬ (get16 p r.ne = 41) := by omega
        simp only [h41, if_false] at hbody
        have := hbody.1
        simpa [RDataOK, h1] using this
      have hok : decide ((p.drop r.ne).length ≥ 10 + 4) = true := by simp; omega
      simp only [h1, beq_self_eq_true, if_true, assert, hok, bind_ok, true_or, hl4]
      rw [slice_ok ⟨by omega, by omega⟩]
      congr 2
      omega
    · have c1 : (get16 p r.ne == 1) = false := by simp [h1]
      simp only [c1, Bool.false_eq_true, if_false]
      by_cases h28 : get16 p r.ne = 28
      · have hl16 : get16 p (r.ne + 8) = 16 := by
          have h41 : ¬ (get16 p r.ne = 41) := by omega
          simp only [h41, if_false] at hbody
          have := hbody.1
          simpa [RDataOK, h28] using this
        have hok : decide ((p.drop r.ne).length ≥ 10 + 16) = true := by simp; omega
        simp only [h28, beq_self_eq_true, if_true, assert, hok, bind_ok, or_true, hl16]
        rw [slice_ok ⟨by omega, by omega⟩]
        congr 2
        omega
      · have c2 : (get16 p r.ne == 28) = false := by simp [h28]
        simp [c2, h1, h28]

/-- the raw-data accessor: an address for A / AAAA, the `rdlen` bytes after the fixed header otherwise -/
theorem data_accessor {p : Bytes} {sec : Section} {r : RecPos} {ob oa : Bool} (hr : RRAtPos p sec r ob oa)
    (c : Cursor) (hc : posOf c = some r) :
    c.rrRd p = (if get16 p r.ne = 1 ∨ get16 p r.ne = 28
      then .ok (.ip ((p.drop (r.ne + 10)).take (get16 p (r.ne + 8))))
      else .ok (.data ((p.drop (r.ne + 10)).take (get16 p (r.ne + 8))))) := by
  have hip := ip_accessor hr c hc
  obtain ⟨ls, _, _, _, _, _, _, hlen⟩ := accessors hr c hc
  obtain ⟨_, h10, hnext, hfit, _⟩ := hr
  unfold posOf at hc
  cases ho : c.offset with
  | none => simp [ho] at hc
  | some o =>
    simp [ho] at hc
    have e2 : c.nameEnd = r.ne := by have := congrArg RecPos.ne hc; simpa using this
    unfold Cursor.rrRd
    by_cases hA : get16 p r.ne = 1 ∨ get16 p r.ne = 28
    · simp only [hA, if_true] at hip ⊢
      rw [hip]
    · simp only [hA, if_false] at hip ⊢
      rw [hip]
      simp only [hlen, bind_ok, e2]
      consts
      rw [slice_ok ⟨by omega, by omega⟩]
      simp only [bind_ok, pure_eq]
      congr 3
      omega

/-- the layout together with everything `parse()` reports about it, EDNS summary included -/
theorem layout_full {p : Bytes} {v : View} (h : parse p = .ok v) :
    ∃ L : Layout p, 12 ≤ p.length ∧ v.offsetQuestion = some 12 ∧
      v.offsetAnswers = (if L.answers.length > 0 then some (L.qe + 4) else none) ∧
      v.offsetNameservers = (if L.authority.length > 0 then some L.e2 else none) ∧
      v.offsetAdditional = (if L.additional.length > 0 then some L.e3 else none) ∧
      (∀ r ∈ L.answers ++ L.authority, get16 p r.ne ≠ 41) ∧
      match firstOpt p L.additional with
      | none => v.info = EdnsInfo.none
      | some r => ∃ n, OptionsTile p (r.ne + 10) (r.ne + 10 + get16 p (r.ne + 8)) n ∧ v.info = optInfo p r.ne n := by
  obtain ⟨hl, _, qe, la, ln, lr, e2, o2, e3, o3, o4, i2, i3, hne, hq4, _, hla, hln, hlr, ra, rn, rr, ia, inn, ir,
    v1, v2, v3, v4⟩ := parse_ok_layout h
  have na := ra.no_opt_of_sec (by decide)
  have nn := rn.no_opt_of_sec (by decide)
  have e2' : i2 = EdnsInfo.none := ia.no_opt na
  have e3' : i3 = i2 := inn.no_opt nn
  subst e3'; subst e2'
  refine ⟨⟨qe, la, ln, lr, e2, e3, o2, o3, o4, ⟨hne, hq4⟩, ra, rn, rr, hla, hln, hlr⟩, hl, v1,
    by simp [hla, v2], by simp [hln, v3], by simp [hlr, v4], ?_, info_of_run rr ir⟩
  intro r hr
  rcases List.mem_append.1 hr with h | h
  · exact na r h
  · exact nn r h

/-- **EDNS options.** The option walk yields exactly the options tiling the OPT record's data, in
order (start and end of each), and nothing when the packet has no OPT. -/
theorem edns_walk {p : Bytes} {v : View} (h : parse p = .ok v) :
    ∃ L : Layout p,
      match firstOpt p L.additional with
      | none => collectWalk (PP.ofView p v) nextEdns 1 (Cursor.new .edns) = .ok []
      | some r => ∃ n, OptionsTile p (r.ne + 10) (r.ne + 10 + get16 p (r.ne + 8)) n ∧
          ∃ cs, collectWalk (PP.ofView p v) nextEdns (n + 1) (Cursor.new .edns) = .ok cs ∧
            cs.map (fun c => (c.offset, c.offsetNext)) = (tilePairs p (r.ne + 10) n).map (fun x => (some x.1, x.2)) := by
  obtain ⟨L, _, _, _, _, _, _, hinfo⟩ := layout_full h
  refine ⟨L, ?_⟩
  cases ho : firstOpt p L.additional with
  | none =>
    rw [ho] at hinfo
    simp only at hinfo ⊢
    have : v.ednsCount = 0 := by have := congrArg EdnsInfo.count hinfo; simpa [View.info, EdnsInfo.none] using this
    exact walk_edns_none (pp := PP.ofView p v) (by simpa [PP.ofView] using this)
  | some r =>
    rw [ho] at hinfo
    simp only at hinfo ⊢
    obtain ⟨n, htile, hi⟩ := hinfo
    have hc : v.ednsCount = n := by have := congrArg EdnsInfo.count hi; simpa [View.info, optInfo] using this
    have hs : v.offsetEdns = some (r.ne + 10) := by have := congrArg EdnsInfo.start hi; simpa [View.info, optInfo] using this
    have hmem : r ∈ L.additional := List.mem_of_find?_eq_some ho
    have hfit : r.ne + 10 + get16 p (r.ne + 8) ≤ p.length := by
      have := RRsL.mem_pos L.hr r hmem
      obtain ⟨ob, oa, hr⟩ := this
      have h3 := hr.2.2.1
      have h4 := hr.2.2.2.1
      omega
    exact ⟨n, htile, walk_edns (pp := PP.ofView p v) (by simpa [PP.ofView] using htile) (by simpa [PP.ofView] using hfit)
      (by simpa [PP.ofView] using hc) (by simpa [PP.ofView] using hs)⟩

/-- **section accessor.** A cursor standing on a record reports the section the record belongs to;
a cursor on the question reports the question section. -/
theorem current_section {p : Bytes} {v : View} (h : parse p = .ok v) :
    ∃ L : Layout p,
      (∀ c : Cursor, c.offset = some 12 → c.currentSection (PP.ofView p v) = .ok .question) ∧
      (∀ r ∈ L.answers, ∀ c : Cursor, c.offset = some r.off → c.currentSection (PP.ofView p v) = .ok .answer) ∧
      (∀ r ∈ L.authority, ∀ c : Cursor, c.offset = some r.off → c.currentSection (PP.ofView p v) = .ok .nameServers) ∧
      (∀ r ∈ L.additional, ∀ c : Cursor, c.offset = some r.off → c.currentSection (PP.ofView p v) = .ok .additional) := by
  obtain ⟨L, _, v1, v2, v3, v4, _, _⟩ := layout_full h
  have hq : 12 < L.qe := by obtain ⟨ls, hv⟩ := L.hq.1; exact hv.2.1.lt
  obtain ⟨ba, bam⟩ := L.ha.bounds
  obtain ⟨bn, bnm⟩ := L.hn.bounds
  obtain ⟨br, brm⟩ := L.hr.bounds
  refine ⟨L, ?_, ?_, ?_, ?_⟩
  · intro c hc
    unfold Cursor.currentSection
    simp only [PP.ofView, hc, v1, v2, v3, v4, optLt, optGe]
    by_cases a0 : L.answers.length > 0 <;> by_cases n0 : L.authority.length > 0 <;>
      by_cases r0 : L.additional.length > 0 <;> simp [a0, n0, r0, optLt] <;> (repeat' split) <;> first | rfl | omega | (exfalso; omega)
  · intro r hr c hc
    have := bam r hr
    have a0 : L.answers.length > 0 := List.length_pos_of_mem hr
    unfold Cursor.currentSection
    simp only [PP.ofView, hc, v1, v2, v3, v4, optLt, optGe]
    by_cases n0 : L.authority.length > 0 <;>
      by_cases r0 : L.additional.length > 0 <;> simp [a0, n0, r0, optLt] <;> (repeat' split) <;> first | rfl | omega | (exfalso; omega)
  · intro r hr c hc
    have := bnm r hr
    have n0 : L.authority.length > 0 := List.length_pos_of_mem hr
    unfold Cursor.currentSection
    simp only [PP.ofView, hc, v1, v2, v3, v4, optLt, optGe]
    by_cases a0 : L.answers.length > 0 <;>
      by_cases r0 : L.additional.length > 0 <;> simp [a0, n0, r0, optLt] <;> (repeat' split) <;> first | rfl | omega | (exfalso; omega)
  · intro r hr c hc
    have := brm r hr
    have r0 : L.additional.length > 0 := List.length_pos_of_mem hr
    unfold Cursor.currentSection
    simp only [PP.ofView, hc, v1, v2, v3, v4, optLt, optGe]
    by_cases a0 : L.answers.length > 0 <;>
      by_cases n0 : L.authority.length > 0 <;> simp [a0, n0, r0, optLt] <;> (repeat' split) <;> first | rfl | omega | (exfalso; omega)

/-! non-vacuity: a response with answers, an authority record and OPT between two additional records -/
example : ∃ v, parse C02.okPacket = .ok v := (C02.parse_ok_iff_wf _).2 (by
  exact (C02.parse_ok_iff_wf C02.okPacket).1 (by
    have : (parse C02.okPacket).isOk = true := by decide
    cases h : parse C02.okPacket with
    | ok v => exact ⟨v, rfl⟩
    | err e => simp [h, Res.isOk] at this
    | panic => simp [h, Res.isOk] at this
    | diverge => simp [h, Res.isOk] at this))


/-! ### Tie to the current source text
The name readers the accessors use (`Compress::raw_name_len`, `raw_name_len_after_decompression`, `copy_uncompressed_name`,
`SuffixDict::raw_names_eq_ignore_case`) are re-translated from /repo/src/compress.rs by rs2lean.py on every run
(`Generated/TrReader.lean`) and proved equal to the model functions used above (`Tie/Reader.lean`). -/
theorem source_reader_tie (p pre n1 n2 : Bytes) (off : Nat) :
    Tr.Reader.raw_name_len p = rawNameLen p ∧
    Tr.Reader.raw_name_len_after_decompression p off = rawNameLenAfterDecompression p off ∧
    Tr.Reader.copy_uncompressed_name pre p off
      = (copyUncompressedName p off >>= fun r => Res.ok ((r.1.length, r.2), pre ++ r.1)) ∧
    Tr.Reader.raw_names_eq_ignore_case n1 n2 = .ok (rawNamesEqIgnoreCase n1 n2) :=
  Tie.reader_tie p pre n1 n2 off

/-- the text form of a name (`Compress::raw_name_to_str`, which `name()` lower-cases): translated source = model -/
theorem source_name_text (p : Bytes) (off : Nat) : Tr.Reader.raw_name_to_str p off = rawNameToStr p off :=
  Tie.raw_name_to_str_eq p off

end Dns.C03
