/-
  C13 — Record text synthesises to the right wire record; bad text is an error.
  * `synth_total`: no string whatsoever makes synthesis panic or loop: it returns a record or an error;
  * `grammar_iff` (Spec/RecordText.lean states the grammar on the text): a text synthesises to `rr`
    exactly when it is a text of the grammar and `rr` is the RFC 1035 wire record it stands for — owner
    labels, type, class IN, TTL, data length, data (four address bytes; sixteen from the eight groups
    with `::` filled by zeros; the name's labels; TXT cut into 255-byte character strings; preference
    and host; the two SOA names and five 32-bit numbers; DS tag, algorithm, digest type, digest);
  * `excluded_is_error`: a text outside the grammar yields an error;
  * `wellformed`: whatever is returned is, placed anywhere in a packet and in any section, a record of
    the acceptance policy.
  * `insert_accepted`: inserting it into the answer, authority or additional section of a parsed packet
    (a response, for the first two; within the 8192-byte and 65535-record limits) succeeds and leaves
    bytes that satisfy the acceptance policy.
-/
import DnsModel.Lemmas.SynthSoundGrammar
import DnsModel.Tie.Text
import DnsModel.Lemmas.InsertRec
namespace Dns.C13
open Dns Res

theorem rawNameLoop_returns (name : Bytes) (l : List UInt8) (i : Nat) (st : NameSt) :
    (rawNameLoop name l i st).Returns := by
  induction l generalizing i st with
  | nil => exact returns_ok _
  | cons c rest ih =>
    unfold rawNameLoop
    split
    · split
      · exact returns_err _
      · exact ih _ _
    · split
      · exact ih _ _
      · split
        · exact returns_err _
        · split
          · exact returns_err _
          · split <;> exact ih _ _

theorem failIf_returns (c : Bool) (e : Err) : (failIf c e).Returns := by
  unfold failIf; split
  · exact returns_err _
  · exact returns_ok _

theorem copyRawNameFromStr_returns (raw name : Bytes) (zone : Option Bytes) :
    (copyRawNameFromStr raw name zone).Returns := by
  unfold copyRawNameFromStr
  apply bind_returns (failIf_returns _ _)
  intro _ _
  apply bind_returns (rawNameLoop_returns _ _ _ _)
  intro st _
  apply bind_returns (failIf_returns _ _)
  intro _ _
  exact returns_ok _

theorem rrNew_returns (h : RRHeader) (rd : Bytes) : (rrNew h rd).Returns := by
  unfold rrNew
  apply bind_returns (failIf_returns _ _)
  intro _ _
  apply bind_returns (copyRawNameFromStr_returns _ _ _)
  intro _ _
  exact returns_ok _

theorem builders_return (h : RRHeader) :
    (∀ t, (buildTxt h t).Returns) ∧ (∀ n, (buildName h n).Returns) ∧ (∀ pr n, (buildMx h pr n).Returns) ∧
      (∀ a b ns, (buildSoa h a b ns).Returns) ∧ (∀ t a d dg, (buildDs h t a d dg).Returns) := by
  refine ⟨?_, ?_, ?_, ?_, ?_⟩
  · intro t; unfold buildTxt
    apply bind_returns (failIf_returns _ _); intro _ _; exact rrNew_returns _ _
  · intro n; unfold buildName rawNameFromStr
    apply bind_returns (copyRawNameFromStr_returns _ _ _); intro _ _; exact rrNew_returns _ _
  · intro pr n; unfold buildMx
    apply bind_returns (copyRawNameFromStr_returns _ _ _); intro _ _; exact rrNew_returns _ _
  · intro a b ns; unfold buildSoa
    apply bind_returns (copyRawNameFromStr_returns _ _ _); intro _ _
    apply bind_returns (copyRawNameFromStr_returns _ _ _); intro _ _
    exact rrNew_returns _ _
  · intro t a d dg; unfold buildDs; exact rrNew_returns _ _

theorem rdataP_returns (h : RRHeader) (i : Bytes) (r : Res Bytes) (hr : rdataP h i = some r) : r.Returns := by
  obtain ⟨b1, b2, b3, b4, b5⟩ := builders_return h
  unfold rdataP at hr
  split at hr
  · cases h1 : ipv4P i with
    | none => simp [h1] at hr
    | some x => simp [h1] at hr; cases h2 : endP x.2 with
      | none => simp [h2] at hr
      | some _ => simp [h2] at hr; subst hr; exact rrNew_returns _ _
  split at hr
  · cases h1 : ipv6P i with
    | none => simp [h1] at hr
    | some x => simp [h1] at hr; cases h2 : endP x.2 with
      | none => simp [h2] at hr
      | some _ => simp [h2] at hr; subst hr; exact rrNew_returns _ _
  split at hr
  · cases h1 : hostnameP i with
    | none => simp [h1] at hr
    | some x => simp [h1] at hr; cases h2 : endP x.2 with
      | none => simp [h2] at hr
      | some _ => simp [h2] at hr; subst hr; exact b2 _
  split at hr
  · cases h1 : quotedP i with
    | none => simp [h1] at hr
    | some x => simp [h1] at hr; cases h2 : endP x.2 with
      | none => simp [h2] at hr
      | some _ => simp [h2] at hr; subst hr; exact b1 _
  split at hr
  · simp only [Option.bind_eq_bind, Option.bind_eq_some_iff, Option.pure_def, Option.some.injEq] at hr
    obtain ⟨_, _, _, _, _, _, _, _, rfl⟩ := hr
    exact b3 _ _
  split at hr
  · simp only [Option.bind_eq_bind, Option.bind_eq_some_iff, Option.pure_def, Option.some.injEq] at hr
    obtain ⟨_, _, _, _, _, _, _, _, _, _, _, _, _, _, _, _, _, _, _, _, _, _, rfl⟩ := hr
    exact b4 _ _ _
  split at hr
  · simp only [Option.bind_eq_bind, Option.bind_eq_some_iff, Option.pure_def, Option.some.injEq] at hr
    obtain ⟨_, _, _, _, _, _, _, _, _, _, _, _, _, _, _, _, rfl⟩ := hr
    exact b5 _ _ _ _
  · simp at hr

/-- **C13, totality.** For every byte string, synthesis returns a record or an error value. -/
theorem synth_total (s : Bytes) : (∃ r, synth s = .ok r) ∨ (∃ e, synth s = .err e) := by
  apply returns_cases
  unfold synth
  split
  · exact returns_err _
  · split
    · exact returns_err _
    · rename_i h i r hr
      exact rdataP_returns _ _ _ hr

/-- the host-name conversion never panics either (it is also reachable from the C table) -/
theorem rawNameFromStr_total (n : Bytes) (z : Option Bytes) :
    (∃ r, rawNameFromStr n z = .ok r) ∨ (∃ e, rawNameFromStr n z = .err e) :=
  returns_cases (copyRawNameFromStr_returns _ _ _)

/-- **the grammar decides synthesis** -/
theorem grammar_iff (t rr : Bytes) : synth t = .ok rr ↔ RecordText t rr := synth_iff_grammar t rr

/-- **text the grammar excludes yields an error** -/
theorem excluded_is_error (t : Bytes) (h : ¬ ∃ rr, RecordText t rr) : ∃ e, synth t = .err e := by
  rcases synth_total t with ⟨r, hr⟩ | he
  · exact absurd ⟨r, (grammar_iff t r).1 hr⟩ h
  · exact he

/-- **anything returned is a well-formed record**: placed anywhere, in any section, it is a record of
the acceptance policy (not an OPT; class IN by `grammar_iff`) -/
theorem wellformed {t rr : Bytes} (h : synth t = .ok rr) (sec : Section) (b : Bool) (pre post : Bytes) :
    ∃ ne', RRAtPos (pre ++ rr ++ post) sec ⟨pre.length, ne', pre.length + rr.length⟩ b b ∧
      get16 (pre ++ rr ++ post) ne' ≠ 41 := by
  obtain ⟨owner, f8, rd, hgo, hf8, hlt, h41, hcl, hrd, hrr⟩ := synth_inRecord h
  obtain ⟨hpos, hcan, hty⟩ := piece_standalone owner hgo f8 rd hf8 hlt h41 hrd sec b
  rw [← hrr] at hpos hcan hty
  obtain ⟨ne', hr', _, hty'⟩ := canon_placed hpos hcan pre post
  exact ⟨ne', hr', by rw [hty', hty]; exact h41⟩

/-- a synthesised record is a piece usable in any section, whatever the OPT flag -/
theorem synth_piece {t rr : Bytes} (h : synth t = .ok rr) (sec : Section) (b : Bool) : PieceOK sec rr b b := by
  obtain ⟨owner, f8, rd, hgo, hf8, hlt, h41, hcl, hrd, hrr⟩ := synth_inRecord h
  obtain ⟨hpos, hcan, _⟩ := piece_standalone owner hgo f8 rd hf8 hlt h41 hrd sec b
  rw [← hrr] at hpos hcan
  exact ⟨rr, _, hpos, hcan⟩

/-- **inserting a synthesised record** into a parsed packet leaves an accepted packet -/
theorem insert_accepted {p : Bytes} {v : View} (h : parse p = .ok v) {t rr : Bytes} (hs : synth t = .ok rr) (sect : Section)
    (hsect : sect = .answer ∨ sect = .nameServers ∨ sect = .additional)
    (hqr : sect ≠ .additional → get16 p 2 / 32768 % 2 = 1)
    (hsize : ∀ u, uncompress p = .ok u → u.length + rr.length ≤ 8192)
    (hcount : get16 p 6 < 65535 ∧ get16 p 8 < 65535 ∧ get16 p 10 < 65535) :
    ∃ pp', insertRR (PP.ofView p v) sect rr = .ok (pp', none) ∧ WF pp'.packet := by
  obtain ⟨pp2, L, o, P, hA, hN, hR, hH, hpk, hstep⟩ := insert_parsed_step h sect rr
  have hl : 12 ≤ p.length := (C02.accepted_wf p v h).1
  have hun : uncompress p = .ok o.bytes := by
    have := C05.uncompress_any h 12 L o
    rw [C05.carried_question] at this
    unfold uncompress
    simp only [DNS_HEADER_SIZE, this, bind_ok, pure_eq]
  have hsz : pp2.packet.length + rr.length ≤ 8192 := by rw [hpk]; exact hsize _ hun
  have hflag : get16 P.hdr 2 = get16 p 2 := by
    rw [hH]
    have hag : Agree p (p.take 12) 0 0 12 := by intro i hi; simp [List.getElem?_take, hi]
    have := hag.get16 (i := 2) (by omega)
    simpa using this
  rw [hstep]
  rcases hsect with rfl | rfl | rfl
  · obtain ⟨pp', P', hrun, _⟩ := insert_answer P rr (synth_piece hs _ _) hsz
      (by rw [hA, o.ha.length, L.na]; exact hcount.1) (by rw [hflag]; exact hqr (by decide))
    exact ⟨pp', hrun, P'.wf⟩
  · obtain ⟨pp', P', hrun, _⟩ := insert_authority P rr (synth_piece hs _ _) hsz
      (by rw [hN, o.hn.length, L.nn]; exact hcount.2.1) (by rw [hflag]; exact hqr (by decide))
    exact ⟨pp', hrun, P'.wf⟩
  · obtain ⟨pp', P', hrun, _⟩ := insert_additional P rr (synth_piece hs _ _) hsz
      (by rw [hR, o.hr.length, L.nr]; exact hcount.2.2)
    exact ⟨pp', hrun, P'.wf⟩

/-! non-vacuity: "a 60 IN A 192.0.2.1" synthesises; "x 1 IN DS 1 1 1 ABC" (odd digest, the D13 witness) is an error -/
example : synth [97, 32, 54, 48, 32, 73, 78, 32, 65, 32, 49, 57, 50, 46, 48, 46, 50, 46, 49] = .ok [1,97,0, 0,1, 0,1, 0,0,0,60, 0,4, 192,0,2,1] := by decide
example : synth [120, 32, 49, 32, 73, 78, 32, 68, 83, 32, 49, 32, 49, 32, 49, 32, 65, 66, 67] = .err .parseError := by decide

example : RecordText [97, 32, 54, 48, 32, 73, 78, 32, 65, 32, 49, 57, 50, 46, 48, 46, 50, 46, 49] [1,97,0, 0,1, 0,1, 0,0,0,60, 0,4, 192,0,2,1] :=
  (grammar_iff _ _).1 (by decide)


/-! ### Tie to the current source text
`copy_raw_name_from_str` is re-translated from /repo/src/synth/gen.rs by rs2lean.py on every run
(`Generated/TrText.lean`) and proved equal to the model function used above (`Tie/Text.lean`). -/
theorem source_from_text (raw name : Bytes) (zone : Option Bytes) :
    Tr.Text.copy_raw_name_from_str raw name zone = copyRawNameFromStr raw name zone :=
  Tie.copy_raw_name_from_str_eq raw name zone

end Dns.C13
