import DnsModel.Synth
namespace Dns.C13
end Dns.C13
