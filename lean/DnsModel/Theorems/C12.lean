import DnsModel.Packet
namespace Dns.C12
end Dns.C12
