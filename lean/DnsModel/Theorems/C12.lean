/-
  C12 — Header setters touch only their own bits; getters return what was set.
  Fields are read off the 16-bit flag word by position (RFC 1035 §4.1.1), with div/mod and
  `Nat.testBit`, not with the masks the code uses:
    QR = bit 15, opcode = bits 14..11, AA TC RD RA Z AD CD = bits 10..4, rcode = bits 3..0.
-/
import DnsModel.Lemmas.Header
import DnsModel.Tie.Header
namespace Dns.C12
open Dns

/-- the flag word of a header -/
def word (p : Bytes) : Nat := get16 p DNS_FLAGS_OFFSET
def opcodeOf (w : Nat) : Nat := w / 2 ^ 11 % 2 ^ 4
def rcodeOf (w : Nat) : Nat := w % 2 ^ 4
/-- QR, AA, TC, RD, RA, Z, AD, CD -/
def isFlagBit (i : Nat) : Prop := i = 15 ∨ (4 ≤ i ∧ i ≤ 10)

theorem flagBit_iff (i : Nat) (hi : i < 16) : flagBit i = true ↔ isFlagBit i := by
  rcases lt_16_cases hi with rfl|rfl|rfl|rfl|rfl|rfl|rfl|rfl|rfl|rfl|rfl|rfl|rfl|rfl|rfl|rfl <;>
    simp +decide [flagBit, isFlagBit]

/-- everything of a header except the two bytes of the flag word -/
def sameExcept (p p' : Bytes) (lo hi : Nat) : Prop :=
  p'.length = p.length ∧ ∀ j, (j < lo ∨ hi ≤ j) → byteAt p' j = byteAt p j

theorem word_lt (p : Bytes) : word p < 65536 := get16_lt p _

theorem be16_flags {p : Bytes} (hp : 12 ≤ p.length) : be16 p DNS_FLAGS_OFFSET = .ok (word p) :=
  (be16_ok_of_le (by simp [DNS_FLAGS_OFFSET]; omega)).1

private theorem store_word {p : Bytes} (hp : 12 ≤ p.length) (v : Nat) (hv : v < 65536) :
    ∃ p', writeAt p DNS_FLAGS_OFFSET (put16 v) = .ok p' ∧ sameExcept p p' 2 4 ∧ word p' = v := by
  have hfit : DNS_FLAGS_OFFSET + (put16 v).length ≤ p.length := by simp [DNS_FLAGS_OFFSET, put16]; omega
  refine ⟨_, writeAt_ok hfit, ⟨writeAt_length (writeAt_ok hfit), ?_⟩, get16_writeAt_put16 (writeAt_ok hfit) hv⟩
  intro j hj
  exact byteAt_writeAt_put16_other (writeAt_ok hfit) (by simp [DNS_FLAGS_OFFSET]; omega)

/-- **set_flags.** For every header and every argument: only bytes 2–3 change (so id and counts are
untouched); opcode and rcode are kept; each of the eight flag bits becomes the argument's bit; and
the upper half of the argument is ignored. -/
theorem set_flags_frame (p : Bytes) (a : Nat) (hp : 12 ≤ p.length) :
    ∃ p', hSetFlags p a = .ok p' ∧ sameExcept p p' 2 4 ∧
      opcodeOf (word p') = opcodeOf (word p) ∧ rcodeOf (word p') = rcodeOf (word p) ∧
      (∀ i, isFlagBit i → (word p').testBit i = a.testBit i) ∧
      hSetFlags p (a % 65536) = hSetFlags p a := by
  have hset : ∀ b, hSetFlags p b = writeAt p DNS_FLAGS_OFFSET (put16 (setFlagsW (word p) b)) := by
    intro b; simp [hSetFlags, be16_flags hp, setFlagsW]
  obtain ⟨p', hw, hsame, hword⟩ := store_word hp (setFlagsW (word p) a) (setFlagsW_lt _ _ (word_lt p))
  refine ⟨p', by rw [hset, hw], hsame, ?_, ?_, ?_, ?_⟩
  · rw [hword]; unfold opcodeOf
    apply div_mod_eq_of_bits
    intro i hi
    rw [setFlagsW_bits _ _ _ (by omega)]
    have : flagBit (i + 11) = false := by
      have h4 : i = 0 ∨ i = 1 ∨ i = 2 ∨ i = 3 := by omega
      rcases h4 with rfl|rfl|rfl|rfl <;> decide
    simp [this]
  · rw [hword]; unfold rcodeOf
    apply mod_eq_of_bits
    intro i hi
    rw [setFlagsW_bits _ _ _ (by omega)]
    have : flagBit i = false := by
      have h4 : i = 0 ∨ i = 1 ∨ i = 2 ∨ i = 3 := by omega
      rcases h4 with rfl|rfl|rfl|rfl <;> decide
    simp [this]
  · intro i hi
    have hi16 : i < 16 := by unfold isFlagBit at hi; omega
    rw [hword, setFlagsW_bits _ _ _ hi16, (flagBit_iff i hi16).2 hi]; simp
  · rw [hset, hset]
    have : setFlagsW (word p) (a % 65536) = setFlagsW (word p) a := by
      unfold setFlagsW
      have e : ∀ x : Nat, x &&& 0xffff = x % 65536 := fun x => Nat.and_two_pow_sub_one_eq_mod x 16
      rw [e, e, Nat.mod_mod]
    rw [this]

/-- **set_response.** Only the QR bit changes, and it becomes the argument. -/
theorem set_response_frame (p : Bytes) (b : Bool) (hp : 12 ≤ p.length) :
    ∃ p', hSetResponse p b = .ok p' ∧ sameExcept p p' 2 4 ∧
      (word p').testBit 15 = b ∧ ∀ i, i < 15 → (word p').testBit i = (word p).testBit i := by
  have hset : hSetResponse p b = writeAt p DNS_FLAGS_OFFSET (put16 (setResponseW (word p) b)) := by
    simp [hSetResponse, be16_flags hp, setResponseW]
  obtain ⟨p', hw, hsame, hword⟩ := store_word hp (setResponseW (word p) b) (setResponseW_lt _ _ (word_lt p))
  refine ⟨p', by rw [hset, hw], hsame, ?_, ?_⟩
  · rw [hword, setResponseW_bits _ _ _ (by decide)]; simp
  · intro i hi
    rw [hword, setResponseW_bits _ _ _ (by omega)]
    have : i ≠ 15 := by omega
    simp [this]

/-- **set_tid.** Only bytes 0–1 change; the id read back is the argument truncated to 16 bits. -/
theorem set_tid_frame (p : Bytes) (tid : Nat) (hp : 12 ≤ p.length) :
    ∃ p', hSetTid p (tid % 65536) = .ok p' ∧ sameExcept p p' 0 2 ∧
      hTid p' = .ok (tid % 65536) ∧ word p' = word p := by
  have hfit : DNS_TID_OFFSET + (put16 (tid % 65536)).length ≤ p.length := by simp [DNS_TID_OFFSET, put16]; omega
  have hw := writeAt_ok hfit
  refine ⟨_, hw, ⟨writeAt_length hw, ?_⟩, ?_, ?_⟩
  · intro j hj
    exact byteAt_writeAt_put16_other hw (by simp [DNS_TID_OFFSET]; omega)
  · have hl := writeAt_length hw
    have := (be16_ok_of_le (p := (List.take DNS_TID_OFFSET p ++ put16 (tid % 65536) ++ List.drop (DNS_TID_OFFSET + (put16 (tid % 65536)).length) p)) (i := DNS_TID_OFFSET) (by rw [hl]; simp [DNS_TID_OFFSET]; omega)).1
    unfold hTid
    rw [this, get16_writeAt_put16 hw (Nat.mod_lt _ (by decide))]
  · exact get16_writeAt_other hw (by simp [DNS_TID_OFFSET, DNS_FLAGS_OFFSET])

/-- a one-byte store at offset `k` of a header -/
private theorem store_byte {p : Bytes} {k : Nat} (hk : k < p.length) (v : Nat) (hv : v < 256) :
    ∃ p', writeAt p k [UInt8.ofNat v] = .ok p' ∧ p'.length = p.length ∧
      (∀ j, j ≠ k → byteAt p' j = byteAt p j) ∧ byteAt p' k = some v := by
  have hfit : k + [UInt8.ofNat v].length ≤ p.length := by simp; omega
  have hw := writeAt_ok hfit
  refine ⟨_, hw, writeAt_length hw, ?_, ?_⟩
  · intro j hj
    rw [byteAt_writeAt hw j]
    by_cases h1 : j < k
    · simp [h1]
    · have : ¬ j < k + 1 := by omega
      simp [h1, this]
  · rw [byteAt_writeAt hw k]
    simp [byteAt]
    omega

theorem word_of_bytes {p : Bytes} {hi lo : Nat} (h2 : byteAt p 2 = some hi) (h3 : byteAt p 3 = some lo) :
    word p = hi * 256 + lo := get16_eq_of_bytes h2 h3

/-- **set_rcode.** Only byte 3 changes; the rcode becomes the argument mod 16, the other twelve bits stay. -/
theorem set_rcode_frame (p : Bytes) (rc : Nat) (hp : 12 ≤ p.length) :
    ∃ p', hSetRcode p rc = .ok p' ∧ sameExcept p p' 3 4 ∧
      rcodeOf (word p') = rc % 16 ∧ ∀ i, 4 ≤ i → (word p').testBit i = (word p).testBit i := by
  obtain ⟨hi, hhi, _⟩ := byteAt_of_lt (p := p) (i := 2) (by omega)
  obtain ⟨lo, hlo, hlolt⟩ := byteAt_of_lt (p := p) (i := 3) (by omega)
  have hset : hSetRcode p rc = writeAt p 3 [UInt8.ofNat (setRcodeB lo rc)] := by
    simp [hSetRcode, DNS_FLAGS_OFFSET, idx, hlo, setRcodeB]
  obtain ⟨p', hw, hlen, hoth, hnew⟩ := store_byte (p := p) (k := 3) (by omega) _ (setRcodeB_lt lo rc hlolt)
  have hw2 : byteAt p' 2 = some hi := by rw [hoth 2 (by decide)]; exact hhi
  have hwp' := word_of_bytes hw2 hnew
  have hwp := word_of_bytes hhi hlo
  refine ⟨p', by rw [hset, hw], ⟨hlen, fun j hj => hoth j (by omega)⟩, ?_, ?_⟩
  · rw [hwp']; unfold rcodeOf
    have : rc % 16 = rc % 2 ^ 4 := rfl
    rw [this]
    apply mod_eq_of_bits
    intro i hi4
    rw [testBit_word _ _ _ (setRcodeB_lt lo rc hlolt)]
    have h8 : i < 8 := by omega
    simp [h8, setRcodeB_bits _ _ _ h8, hi4]
  · intro i hi4
    rw [hwp', hwp, testBit_word _ _ _ (setRcodeB_lt lo rc hlolt), testBit_word _ _ _ hlolt]
    by_cases h8 : i < 8
    · have : ¬ i < 4 := by omega
      simp [h8, setRcodeB_bits _ _ _ h8, this]
    · simp [h8]

/-- **set_opcode.** Only byte 2 changes; the opcode becomes the argument mod 16, the other twelve bits stay. -/
theorem set_opcode_frame (p : Bytes) (op : Nat) (hp : 12 ≤ p.length) :
    ∃ p', hSetOpcode p op = .ok p' ∧ sameExcept p p' 2 3 ∧
      opcodeOf (word p') = op % 16 ∧ ∀ i, (i < 11 ∨ 15 ≤ i) → (word p').testBit i = (word p).testBit i := by
  obtain ⟨hi, hhi, hhilt⟩ := byteAt_of_lt (p := p) (i := 2) (by omega)
  obtain ⟨lo, hlo, hlolt⟩ := byteAt_of_lt (p := p) (i := 3) (by omega)
  have hset : hSetOpcode p op = writeAt p 2 [UInt8.ofNat (setOpcodeB hi op)] := by
    simp [hSetOpcode, DNS_FLAGS_OFFSET, idx, hhi, setOpcodeB]
  obtain ⟨p', hw, hlen, hoth, hnew⟩ := store_byte (p := p) (k := 2) (by omega) _ (setOpcodeB_lt hi op hhilt)
  have hw3 : byteAt p' 3 = some lo := by rw [hoth 3 (by decide)]; exact hlo
  have hwp' := word_of_bytes hnew hw3
  have hwp := word_of_bytes hhi hlo
  refine ⟨p', by rw [hset, hw], ⟨hlen, fun j hj => hoth j (by omega)⟩, ?_, ?_⟩
  · rw [hwp']; unfold opcodeOf
    have : op % 16 = op / 2 ^ 0 % 2 ^ 4 := by simp
    rw [this]
    apply Nat.eq_of_testBit_eq
    intro i
    simp only [Nat.testBit_mod_two_pow, Nat.testBit_div_two_pow]
    by_cases hi4 : i < 4
    · have h8 : ¬ (i + 11 < 8) := by omega
      have e : i + 11 - 8 = i + 3 := by omega
      have hb : i + 3 < 8 := by omega
      have hc : 3 ≤ i + 3 ∧ i + 3 < 7 := by omega
      have e2 : i + 3 - 3 = i := by omega
      rw [testBit_word _ _ _ hlolt]
      simp [hi4, h8, e, setOpcodeB_bits _ _ _ hb, hc, e2]
    · simp [hi4]
  · intro i hrange
    rw [hwp', hwp, testBit_word _ _ _ hlolt, testBit_word _ _ _ hlolt]
    by_cases h8 : i < 8
    · simp [h8]
    · simp only [h8, if_false]
      by_cases h16 : i - 8 < 8
      · have : ¬ (3 ≤ i - 8 ∧ i - 8 < 7) := by omega
        simp [setOpcodeB_bits _ _ _ h16, this]
      · have hlt : ∀ x : Nat, x < 256 → x.testBit (i - 8) = false := fun x hx =>
          Nat.testBit_lt_two_pow (Nat.lt_of_lt_of_le hx (by
            have : 8 ≤ i - 8 := by omega
            exact Nat.pow_le_pow_right (by decide : 2 > 0) this))
        rw [hlt _ (setOpcodeB_lt hi op hhilt), hlt _ hhilt]

/-- **getters.** Each getter returns the field as stored: id, opcode, rcode, QR, and the flag word with
opcode and rcode masked out and the EDNS flags in the upper half. -/
theorem getters (p : Bytes) (ext : Option Nat) (hp : 12 ≤ p.length) :
    hTid p = .ok (get16 p 0) ∧ hOpcode p = .ok (opcodeOf (word p)) ∧ hRcode p = .ok (rcodeOf (word p)) ∧
      hIsResponse p ext = .ok ((word p).testBit 15) ∧
      ∃ f, hFlags p ext = .ok f ∧ (∀ i, i < 16 → f.testBit i = (flagBit i && (word p).testBit i)) ∧
        (∀ i, f.testBit (i + 16) = (ext.getD 0).testBit i) := by
  obtain ⟨hi, hhi, hhilt⟩ := byteAt_of_lt (p := p) (i := 2) (by omega)
  obtain ⟨lo, hlo, hlolt⟩ := byteAt_of_lt (p := p) (i := 3) (by omega)
  have hwp := word_of_bytes hhi hlo
  have hflags : hFlags p ext = .ok (((ext.getD 0) <<< 16) ||| ((word p &&& 0x87ff) &&& 0xfff0)) := by
    simp [hFlags, be16_flags hp]
  have hmask : ∀ i, i < 16 → ((word p &&& 0x87ff) &&& 0xfff0).testBit i = (flagBit i && (word p).testBit i) := by
    intro i hi16
    rcases lt_16_cases hi16 with rfl|rfl|rfl|rfl|rfl|rfl|rfl|rfl|rfl|rfl|rfl|rfl|rfl|rfl|rfl|rfl <;>
      (simp only [flagBit, Nat.testBit_and]; bits_decide (word p) (word p))
  have hmlt : (word p &&& 0x87ff) &&& 0xfff0 < 2 ^ 16 := Nat.lt_of_le_of_lt Nat.and_le_right (by decide)
  refine ⟨?_, ?_, ?_, ?_, _, hflags, ?_, ?_⟩
  · exact (be16_ok_of_le (p := p) (i := 0) (by omega)).1
  · -- opcode: (hi & 0x78) >> 3
    simp only [hOpcode, DNS_FLAGS_OFFSET, idx, hhi, Res.bind_ok, Res.pure_eq]
    congr 1
    rw [hwp]; unfold opcodeOf
    apply Nat.eq_of_testBit_eq
    intro i
    simp only [Nat.testBit_mod_two_pow, Nat.testBit_div_two_pow, Nat.testBit_shiftRight, Nat.testBit_and]
    rw [testBit_word _ _ _ hlolt]
    have h8 : ¬ (i + 11 < 8) := by omega
    have e : i + 11 - 8 = 3 + i := by omega
    simp only [h8, if_false, e]
    by_cases hi4 : i < 4
    · have h4 : i = 0 ∨ i = 1 ∨ i = 2 ∨ i = 3 := by omega
      rcases h4 with rfl|rfl|rfl|rfl <;> simp +decide
    · have : (0x78 : Nat).testBit (3 + i) = false := by
        apply Nat.testBit_lt_two_pow
        exact Nat.lt_of_lt_of_le (by decide : (0x78 : Nat) < 2 ^ 7) (Nat.pow_le_pow_right (by decide) (by omega))
      simp [hi4, this]
  · -- rcode: lo & 0x0f
    simp only [hRcode, DNS_FLAGS_OFFSET, idx, hlo, Res.bind_ok, Res.pure_eq]
    congr 1
    rw [hwp]; unfold rcodeOf
    have e : lo &&& 0x0f = lo % 2 ^ 4 := Nat.and_two_pow_sub_one_eq_mod lo 4
    rw [e]
    omega
  · simp only [hIsResponse, hflags, Res.bind_ok, Res.pure_eq]
    congr 1
    -- f &&& 0x8000 == 0x8000  ↔  bit 15 of f
    have hb : ((((ext.getD 0) <<< 16) ||| ((word p &&& 0x87ff) &&& 0xfff0)) &&& DNS_FLAG_QR == DNS_FLAG_QR)
        = (((ext.getD 0) <<< 16) ||| ((word p &&& 0x87ff) &&& 0xfff0)).testBit 15 := by
      have : DNS_FLAG_QR = 2 ^ 15 := rfl
      rw [this, and_two_pow_beq]
    rw [hb, Nat.testBit_or, Nat.testBit_shiftLeft, hmask 15 (by decide)]
    simp +decide [flagBit]
  · intro i hi16
    rw [Nat.testBit_or, Nat.testBit_shiftLeft, hmask i hi16]
    have : ¬ (16 ≤ i) := by omega
    simp [this]
  · intro i
    rw [Nat.testBit_or, Nat.testBit_shiftLeft]
    have hz : ((word p &&& 0x87ff) &&& 0xfff0).testBit (i + 16) = false :=
      Nat.testBit_lt_two_pow (Nat.lt_of_lt_of_le hmlt (Nat.pow_le_pow_right (by decide) (by omega)))
    simp [hz]

/-! non-vacuity and the witness of defect D20 (the pinned `set_flags` turned word 0x0001 into 0x0000) -/
example : hSetFlags [0x12,0x34, 0x00,0x01, 0,1,0,0,0,0,0,0] 0 = .ok [0x12,0x34, 0x00,0x01, 0,1,0,0,0,0,0,0] := by decide
example : hSetFlags [0x12,0x34, 0x04,0x00, 0,1,0,0,0,0,0,0] 0 = .ok [0x12,0x34, 0x00,0x00, 0,1,0,0,0,0,0,0] := by decide
example : hSetOpcode [0,0, 0xff,0xff, 0,1,0,0,0,0,0,0] 2 = .ok [0,0, 0x97,0xff, 0,1,0,0,0,0,0,0] := by decide


/-! ### The same statements about the functions translated from the current source text
`Tr.Header.*` (Generated/TrHeader.lean) is written by rs2lean.py from /repo/src/parsed_packet.rs on every run;
`Tie/Header.lean` proves each translated function equal to the model function used above. -/
theorem source_set_flags_frame (p : Bytes) (a : Nat) (hp : 12 ≤ p.length) :
    ∃ p', Tr.Header.set_flags p a = .ok p' ∧ sameExcept p p' 2 4 ∧
      opcodeOf (word p') = opcodeOf (word p) ∧ rcodeOf (word p') = rcodeOf (word p) ∧
      (∀ i, isFlagBit i → (word p').testBit i = a.testBit i) ∧
      Tr.Header.set_flags p (a % 65536) = Tr.Header.set_flags p a := by
  simp only [Tie.set_flags_eq]
  exact set_flags_frame p a hp
theorem source_set_response_frame (p : Bytes) (b : Bool) (hp : 12 ≤ p.length) :
    ∃ p', Tr.Header.set_response p b = .ok p' ∧ sameExcept p p' 2 4 ∧
      (word p').testBit 15 = b ∧ ∀ i, i < 15 → (word p').testBit i = (word p).testBit i := by
  simp only [Tie.set_response_eq]
  exact set_response_frame p b hp
theorem source_set_tid_frame (p : Bytes) (tid : Nat) (hp : 12 ≤ p.length) :
    ∃ p', Tr.Header.set_tid p (tid % 65536) = .ok p' ∧ sameExcept p p' 0 2 ∧
      Tr.Header.tid p' = .ok (tid % 65536) ∧ word p' = word p := by
  simp only [Tie.set_tid_eq, Tie.tid_eq]
  exact set_tid_frame p tid hp
theorem source_set_rcode_frame (p : Bytes) (rc : Nat) (hp : 12 ≤ p.length) :
    ∃ p', Tr.Header.set_rcode p rc = .ok p' ∧ sameExcept p p' 3 4 ∧
      rcodeOf (word p') = rc % 16 ∧ ∀ i, 4 ≤ i → (word p').testBit i = (word p).testBit i := by
  simp only [Tie.set_rcode_eq]
  exact set_rcode_frame p rc hp
theorem source_set_opcode_frame (p : Bytes) (op : Nat) (hp : 12 ≤ p.length) :
    ∃ p', Tr.Header.set_opcode p op = .ok p' ∧ sameExcept p p' 2 3 ∧
      opcodeOf (word p') = op % 16 ∧ ∀ i, (i < 11 ∨ 15 ≤ i) → (word p').testBit i = (word p).testBit i := by
  simp only [Tie.set_opcode_eq]
  exact set_opcode_frame p op hp
theorem source_getters (p : Bytes) (ext : Option Nat) (hp : 12 ≤ p.length) (hext : Tie.ExtOK ext) :
    Tr.Header.tid p = .ok (get16 p 0) ∧ Tr.Header.opcode p = .ok (opcodeOf (word p)) ∧ Tr.Header.rcode p = .ok (rcodeOf (word p)) ∧
      Tr.Header.is_response p ext = .ok ((word p).testBit 15) ∧
      ∃ f, Tr.Header.flags p ext = .ok f ∧ (∀ i, i < 16 → f.testBit i = (flagBit i && (word p).testBit i)) ∧
        (∀ i, f.testBit (i + 16) = (ext.getD 0).testBit i) := by
  simp only [Tie.tid_eq, Tie.opcode_eq, Tie.rcode_eq, Tie.is_response_eq p ext hext, Tie.flags_eq p ext hext]
  exact getters p ext hp

/-- the equalities themselves (one per function of the header API) -/
theorem source_tie (p : Bytes) (ext : Option Nat) (hext : Tie.ExtOK ext) (a : Nat) (b : Bool) :
    Tr.Header.tid p = hTid p ∧ Tr.Header.set_tid p a = hSetTid p a ∧ Tr.Header.flags p ext = hFlags p ext ∧
    Tr.Header.set_flags p a = hSetFlags p a ∧ Tr.Header.dnssec p ext = hDnssec p ext ∧
    Tr.Header.is_response p ext = hIsResponse p ext ∧ Tr.Header.set_response p b = hSetResponse p b ∧
    Tr.Header.rcode p = hRcode p ∧ Tr.Header.set_rcode p a = hSetRcode p a ∧
    Tr.Header.opcode p = hOpcode p ∧ Tr.Header.set_opcode p a = hSetOpcode p a :=
  ⟨Tie.tid_eq p, Tie.set_tid_eq p a, Tie.flags_eq p ext hext, Tie.set_flags_eq p a, Tie.dnssec_eq p ext hext,
   Tie.is_response_eq p ext hext, Tie.set_response_eq p b, Tie.rcode_eq p, Tie.set_rcode_eq p a,
   Tie.opcode_eq p, Tie.set_opcode_eq p a⟩

example : Tie.ExtOK (some 0x8000) := by intro e h; cases h; decide

end Dns.C12
