import DnsModel.Renamer
namespace Dns.C06
end Dns.C06
