/-
  C06 — Compression keeps the message, stays valid and never grows the packet.
  For every accepted packet whose names are all written without pointers (`PointerFree`; the output
  of decompression is one, C05):
  * `compress_spec`: compression succeeds; the result is no longer than the input, satisfies the
    acceptance policy, has the same 12 header bytes, and has a layout whose question and records are,
    one by one and in order, those of the input up to the case of names — every name the library
    understands decodes (under the validator's pointer discipline) to labels equal up to ASCII case,
    the type/class/TTL bytes and all other data (OPT and its options included) are identical.
  Every pointer written designates, in the output, a name equal up to case to the suffix it stands
  for: that is what `ValidName` of the result with `lsCi` labels says.
-/
import DnsModel.Lemmas.CompressRun
import DnsModel.Tie.Reader
import DnsModel.Lemmas.PlainBridge
import DnsModel.Lemmas.CiTrans
import DnsModel.Theorems.C05
namespace Dns.C06
open Dns Res

/-- every name of the packet the library understands is written out in full -/
structure PointerFree (u : Bytes) (L : C03.Layout u) : Prop where
  q : ∃ ls, PlainAt u 12 ls ∧ L.qe = 12 + (labSum ls + 1)
  recs : ∀ r ∈ L.answers ++ L.authority ++ L.additional, PlainRec u r

theorem dictInv_empty (out : Bytes) : DictInv {} out := by
  refine ⟨by simp, by decide, by decide, by decide, ?_⟩
  intro i e hi
  simp at hi

private theorem section_fold {pp : PP} {sec : Section} {l : List RecPos} {off e : Nat} {ob oe : Bool}
    (hl : RRsL pp.packet sec l off ob e oe) (hlen : l.length < 65536) (hp : ∀ r ∈ l, PlainRec pp.packet r)
    (step : PP → Cursor → Res (Option Cursor))
    (hwalk : ∃ cs, collectWalk pp step (l.length + 1) (Cursor.new sec) = .ok cs ∧ cs.map posOf = l.map some)
    (dict : SuffixDict) (out : Bytes) (hinv : DictInv dict out) :
    ∃ (dict' : SuffixDict) (em : Bytes),
      walkFold pp step (compressItem pp true) sectionFuel (Cursor.new sec) (dict, out) = .ok (dict', out ++ em) ∧
      em.length ≤ e - off ∧ DictInv dict' (out ++ em) ∧
      ∀ tl : Bytes, ∃ l', RRsL (out ++ em ++ tl) sec l' out.length ob (out.length + em.length) oe ∧
        RunCi pp.packet (out ++ em ++ tl) l l' ∧
        l'.map (fun r => get16 (out ++ em ++ tl) r.ne) = l.map (fun r => get16 pp.packet r.ne) := by
  obtain ⟨cs, hcs, hpos⟩ := hwalk
  have hm := collectWalk_mono _ _ _ hcs (sectionFuel - (l.length + 1))
  have e : l.length + 1 + (sectionFuel - (l.length + 1)) = sectionFuel := by unfold sectionFuel; omega
  rw [e] at hm
  rw [walkFold_collect _ _ _ _ hm]
  exact fold_compress hl hp cs hpos dict out hinv

/-- **compression of a pointer-free accepted packet** -/
theorem compress_spec {u : Bytes} {v : View} (h : parse u = .ok v) (L : C03.Layout u) (hpf : PointerFree u L) :
    ∃ c, compress u = .ok c ∧ c.length ≤ u.length ∧ WF c ∧ c.take 12 = u.take 12 ∧
      (c.drop 12).take (L.qe + 4 - 12) = (u.drop 12).take (L.qe + 4 - 12) ∧
      ∃ L' : C03.Layout c,
        (∃ ls ls', ValidName u 12 ls L.qe ∧ ValidName c 12 ls' L'.qe ∧ lsCi ls' ls ∧
          (c.drop L'.qe).take 4 = (u.drop L.qe).take 4) ∧
        RunCi u c L.answers L'.answers ∧ RunCi u c L.authority L'.authority ∧
        RunCi u c L.additional L'.additional := by
  obtain ⟨L0, hl, v1, v2, v3, v4, hno, _⟩ := C03.layout_full h
  obtain ⟨eq0, ea0, en0, er0⟩ := C05.layout_unique L0 L
  rw [eq0, ea0] at v2
  rw [en0] at v3
  rw [er0] at v4
  rw [ea0, en0] at hno
  have hwf := C02.accepted_wf u v h
  obtain ⟨_, hqd, qeW, hneW, _, hclW, hqr, _⟩ := hwf
  have hqeW : qeW = L.qe := nameEnds_functional hneW L.hq.1
  subst hqeW
  have he2 : L0.e2 = L.e2 := by
    have := L0.ha; rw [eq0] at this
    exact (this.functional L.ha (by rw [L0.na, L.na])).2
  have he3 : L0.e3 = L.e3 := by
    have := L0.hn; rw [he2] at this
    exact (this.functional L.hn (by rw [L0.nn, L.nn])).2
  rw [he2] at v3
  rw [he3] at v4
  have ia : secInfo (PP.ofView u v) .answer = .ok (L.answers.length, if L.answers.length > 0 then some (L.qe + 4) else none) := by
    simp [secInfo, PP.ofView, ancount, (be16_ok_of_le (p := u) (i := 6) (by omega)).1, L.na, v2]
  have inn : secInfo (PP.ofView u v) .nameServers = .ok (L.authority.length, if L.authority.length > 0 then some L.e2 else none) := by
    simp [secInfo, PP.ofView, nscount, (be16_ok_of_le (p := u) (i := 8) (by omega)).1, L.nn, v3]
  have ir : secInfo (PP.ofView u v) .additional = .ok (L.additional.length, if L.additional.length > 0 then some L.e3 else none) := by
    simp [secInfo, PP.ofView, arcount, (be16_ok_of_le (p := u) (i := 10) (by omega)).1, L.nr, v4]
  have wa := walk_skip (pp := PP.ofView u v) L.ha ia
  have wn := walk_skip (pp := PP.ofView u v) L.hn inn
  have wr := walk_incl (pp := PP.ofView u v) L.hr ir
  have ea : nonOpt u L.answers = L.answers := nonOpt_eq_self (fun r hr => hno r (by simp [hr]))
  have en : nonOpt u L.authority = L.authority := nonOpt_eq_self (fun r hr => hno r (by simp [hr]))
  simp only [PP.ofView] at wa wn
  rw [ea] at wa
  rw [en] at wn
  -- the question
  obtain ⟨qe', hqe', hqw⟩ := C03.question_walk h
  have hqe : qe' = L.qe := nameEnds_functional hqe' L.hq.1
  subst hqe
  have hqm := collectWalk_mono _ _ _ hqw (sectionFuel - 2)
  have e2 : 2 + (sectionFuel - 2) = sectionFuel := by unfold sectionFuel; omega
  rw [e2] at hqm
  obtain ⟨qls, hpq, hqeq⟩ := hpf.q
  have hlt6 := get16_lt u 6
  have hlt8 := get16_lt u 8
  have hlt10 := get16_lt u 10
  have hH : (u.take 12).length = 12 := by simp; omega
  obtain ⟨d1, qem, qls', hq, hqle, hqpos, hqci, hdq, hqval⟩ := compress_question (pp := PP.ofView u v)
    (by simpa [PP.ofView] using hpq) hqeq (by simpa [PP.ofView] using L.hq.2) {} (u.take 12) (dictInv_empty _)
  simp only [PP.ofView] at hq hdq hqval
  obtain ⟨d2, ema, fa, hla, hda, halla⟩ := section_fold (pp := PP.ofView u v) L.ha (by rw [L.na]; exact hlt6)
    (fun r hr => hpf.recs r (by simp [hr])) nextSkippingOpt wa d1 (u.take 12 ++ (qem ++ (u.drop L.qe).take 4)) hdq
  obtain ⟨d3, emn, fn, hln, hdn, halln⟩ := section_fold (pp := PP.ofView u v) L.hn (by rw [L.nn]; exact hlt8)
    (fun r hr => hpf.recs r (by simp [hr])) nextSkippingOpt wn d2 _ hda
  obtain ⟨d4, emr, fr, hlr, hdr, hallr⟩ := section_fold (pp := PP.ofView u v) L.hr (by rw [L.nr]; exact hlt10)
    (fun r hr => hpf.recs r (by simp [hr])) nextIncludingOpt wr d3 _ hdn
  simp only [PP.ofView] at fa fn fr halla halln hallr
  have hq4 : ((u.drop L.qe).take 4).length = 4 := length_take_drop L.hq.2
  generalize hc : u.take 12 ++ (qem ++ (u.drop L.qe).take 4) ++ ema ++ emn ++ emr = c
  have hrun : compress u = .ok c := by
    unfold compress
    have hlen12 : ¬ (u.length < 12) := by omega
    simp only [failIf, DNS_HEADER_SIZE, hlen12, decide_false, Bool.false_eq_true, if_false, bind_ok,
      slice_ok (p := u) (a := 0) (b := 12) ⟨by omega, by omega⟩, parsePP, h, pure_eq, List.drop_zero, Nat.sub_zero]
    rw [walkFold_collect _ _ _ _ hqm]
    simp only [foldRes, PP.ofView]
    rw [hq]
    simp only [Res.bind, bind_ok]
    rw [fa]
    simp only [bind_ok]
    rw [fn]
    simp only [bind_ok]
    rw [fr]
    simp only [bind_ok, hc]
  -- shape of the output
  obtain ⟨⟨lsu, hvu⟩, _⟩ := L.hq
  obtain ⟨b1, _⟩ := L.ha.bounds
  obtain ⟨b2, _⟩ := L.hn.bounds
  obtain ⟨b3, _⟩ := L.hr.bounds
  have hqgt : 12 < L.qe := hvu.2.1.lt
  have hclen : c.length = 12 + (qem.length + 4) + ema.length + emn.length + emr.length := by
    rw [← hc]; simp only [List.length_append, hH, hq4]
  -- header agreement
  have hagH : Agree u c 0 0 12 := by
    have := agree_of_eq (p := u) (u := c) (A := []) (B := (qem ++ (u.drop L.qe).take 4) ++ ema ++ emn ++ emr) (a := 0) (n := 12)
      (by rw [← hc]; simp) (by omega)
    simpa using this
  have hg16 : ∀ i, i + 2 ≤ 12 → get16 c i = get16 u i := by
    intro i hi
    have := hagH.get16 (i := i) hi
    simpa using this
  -- question in c
  have hvq : ValidName c 12 qls' (12 + qem.length) := by
    have := hqval (ema ++ emn ++ emr)
    rw [hH] at this
    have e : u.take 12 ++ (qem ++ (u.drop L.qe).take 4) ++ (ema ++ emn ++ emr) = c := by rw [← hc]; simp
    rw [e] at this; exact this
  have hA : (u.take 12 ++ qem).length = 12 + qem.length := by rw [List.length_append, hH]
  have hagQ : Agree u c L.qe (12 + qem.length) 4 := by
    have := agree_of_eq (p := u) (u := c) (A := u.take 12 ++ qem) (B := ema ++ emn ++ emr)
      (a := L.qe) (n := 4) (by rw [← hc]; simp) (by omega)
    rw [hA] at this; exact this
  have hclass : get16 c (12 + qem.length + 2) = 1 := by rw [hagQ.get16 (i := 2) (by omega)]; exact hclW
  have hwinQ : (c.drop (12 + qem.length)).take 4 = (u.drop L.qe).take 4 := by
    have := window_eq (u := c) (A := u.take 12 ++ qem) (w := (u.drop L.qe).take 4) (B := ema ++ emn ++ emr)
      (by rw [← hc]; simp)
    rw [hA, hq4] at this; exact this
  -- sections in c
  have hpre1 : (u.take 12 ++ (qem ++ (u.drop L.qe).take 4)).length = 12 + qem.length + 4 := by
    simp only [List.length_append, hH, hq4]; omega
  obtain ⟨la', rla, cla, tla⟩ := halla (emn ++ emr)
  have eu1 : u.take 12 ++ (qem ++ (u.drop L.qe).take 4) ++ ema ++ (emn ++ emr) = c := by rw [← hc]; simp
  rw [eu1] at rla cla tla
  rw [hpre1] at rla
  obtain ⟨ln', rln, cln, tln⟩ := halln emr
  rw [hc] at rln cln tln
  have hpre2 : (u.take 12 ++ (qem ++ (u.drop L.qe).take 4) ++ ema).length = 12 + qem.length + 4 + ema.length := by
    rw [List.length_append, hpre1]
  rw [hpre2] at rln
  obtain ⟨lr', rlr, clr, tlr⟩ := hallr []
  have eu3 : u.take 12 ++ (qem ++ (u.drop L.qe).take 4) ++ ema ++ emn ++ emr ++ [] = c := by rw [← hc]; simp
  rw [eu3] at rlr clr tlr
  have hpre3 : (u.take 12 ++ (qem ++ (u.drop L.qe).take 4) ++ ema ++ emn).length =
      12 + qem.length + 4 + ema.length + emn.length := by rw [List.length_append, hpre2]
  rw [hpre3] at rlr
  have hend : 12 + qem.length + 4 + ema.length + emn.length + emr.length = c.length := by rw [hclen]; omega
  rw [hend] at rlr
  have c6 : la'.length = get16 c 6 := by rw [cla.length, L.na, hg16 6 (by omega)]
  have c8 : ln'.length = get16 c 8 := by rw [cln.length, L.nn, hg16 8 (by omega)]
  have c10 : lr'.length = get16 c 10 := by rw [clr.length, L.nr, hg16 10 (by omega)]
  have hqeu : L.qe = 12 + (labSum qls + 1) := hqeq
  have hqlit : qem = encLabels qls ++ [0] := compress_question_first (pp := PP.ofView u v)
    (by simpa [PP.ofView] using hpq) hqeq (by simpa [PP.ofView] using L.hq.2) (u.take 12) (by simpa [PP.ofView] using hq)
  refine ⟨c, hrun, ?_, ?_, ?_, ?_, ?_⟩
  · -- never longer
    rw [hclen]; omega
  · refine ⟨by omega, by rw [hg16 4 (by omega)]; exact hqd, 12 + qem.length, ⟨qls', hvq⟩, by omega, hclass, ?_,
      12 + qem.length + 4 + ema.length, L.o2, 12 + qem.length + 4 + ema.length + emn.length, L.o3, L.o4, ?_, ?_, ?_⟩
    · rw [hg16 2 (by omega), hg16 6 (by omega), hg16 8 (by omega)]; exact hqr
    · rw [← c6]; exact rla.to_RRs
    · rw [← c8]; exact rln.to_RRs
    · rw [← c10]; exact rlr.to_RRs
  · rw [← hc]
    simp only [List.append_assoc]
    rw [List.take_append_of_le_length (by omega), List.take_of_length_le (by omega)]
  · -- the question is byte-identical
    have hqm : qem.length = labSum qls + 1 := by rw [hqlit, encLen_eq]
    have hspan : L.qe + 4 - 12 = (labSum qls + 1) + 4 := by omega
    have hwc := window_eq (u := c) (A := u.take 12) (w := qem ++ (u.drop L.qe).take 4) (B := ema ++ emn ++ emr)
      (by rw [← hc]; simp)
    rw [hH, List.length_append, hq4, hqm] at hwc
    have hR : (u.drop 12).take ((labSum qls + 1) + 4) = (encLabels qls ++ [0]) ++ (u.drop L.qe).take 4 := by
      rw [take_split, hpq.1, List.drop_drop]
      have : 12 + (labSum qls + 1) = L.qe := by omega
      rw [this]
    rw [hspan, hwc, hR, hqlit]
  · refine ⟨⟨12 + qem.length, la', ln', lr', _, _, _, _, _, ⟨⟨qls', hvq⟩, by omega⟩, rla, rln, rlr, c6, c8, c10⟩,
      ⟨qls, qls', ?_, hvq, hqci, hwinQ⟩, cla, cln, clr⟩
    have := hpq.valid
    rw [hqeu]; simpa [Nat.add_assoc] using this

end Dns.C06

namespace Dns.C06
open Dns Res

/-- **the hypothesis is what decompression delivers**: the output of decompression (C05) is a
pointer-free packet in the sense used here, so compression applies to it -/
theorem decompressed_pointerFree {p : Bytes} {v : View} (h : parse p = .ok v) {L : C03.Layout p} (o : C05.Output p L) :
    ∃ L' : C03.Layout o.bytes, PointerFree o.bytes L' := by
  obtain ⟨_, L', hq', _, _, _, _, _, _, _, _, _, hself⟩ := C05.output_layout h o
  refine ⟨L', ?_, ?_⟩
  · obtain ⟨ls, hv, hqc⟩ := hq'
    have hl : 12 ≤ p.length := (C02.accepted_wf p v h).1
    have hH : (p.take 12).length = 12 := by simp; omega
    have hwin : (o.bytes.drop 12).take (o.qc.length) = (encLabels ls ++ [0]) ++ (o.bytes.drop L'.qe).take 4 := by
      have := window_eq (u := o.bytes) (A := p.take 12) (w := o.qc) (B := o.pa.flatten ++ o.pn.flatten ++ o.pr.flatten)
        (by simp [C05.Output.bytes])
      rw [hH] at this
      rw [this]; exact hqc
    have hp : PlainAt o.bytes 12 ls := plainAt_of_window hwin (Or.inr (validName_ok hv))
    exact ⟨ls, hp, by have := (validName_functional hv hp.valid).2; omega⟩
  · intro r hr
    have hs := hself r hr
    simp only [List.mem_append] at hr
    rcases hr with (hr | hr) | hr
    · obtain ⟨ob, oa, hpos⟩ := RRsL.mem_pos L'.ha r hr
      exact plainRec_of_selfCanon hpos hs
    · obtain ⟨ob, oa, hpos⟩ := RRsL.mem_pos L'.hn r hr
      exact plainRec_of_selfCanon hpos hs
    · obtain ⟨ob, oa, hpos⟩ := RRsL.mem_pos L'.hr r hr
      exact plainRec_of_selfCanon hpos hs

/-- compression of whatever decompression returns -/
theorem compress_decompressed {p : Bytes} {v : View} (h : parse p = .ok v) {u : Bytes} (hu : uncompress p = .ok u) :
    ∃ c, compress u = .ok c ∧ c.length ≤ u.length ∧ WF c := by
  obtain ⟨L, o, ho⟩ := C05.decompress_ok h
  rw [ho] at hu
  simp at hu
  subst hu
  obtain ⟨L', hpf⟩ := decompressed_pointerFree h o
  obtain ⟨v', h'⟩ := C02.wf_accepted _ (C05.output_layout h o).1
  obtain ⟨c, hc, hlen, hwf, _⟩ := compress_spec h' L' hpf
  exact ⟨c, hc, hlen, hwf⟩

end Dns.C06

namespace Dns.C06
open Dns Res

private theorem fits_of_run {u : Bytes} {sec : Section} {l : List RecPos} {off e : Nat} {ob oe : Bool}
    (h : RRsL u sec l off ob e oe) : ∀ r ∈ l, r.ne + 10 ≤ u.length := by
  intro r hr
  obtain ⟨_, _, hpos⟩ := RRsL.mem_pos h r hr
  exact hpos.2.1

/-- **round trip**: decompressing the compressed packet gives back the input up to the case of
names — same header, question name equal up to case with the same type and class, and records equal
one by one up to case -/
theorem roundtrip {u : Bytes} {v : View} (h : parse u = .ok v) (L : C03.Layout u) (hpf : PointerFree u L) :
    ∃ c u2, compress u = .ok c ∧ uncompress c = .ok u2 ∧ u2.take 12 = u.take 12 ∧
      ∃ L2 : C03.Layout u2,
        (∃ ls ls2, ValidName u 12 ls L.qe ∧ ValidName u2 12 ls2 L2.qe ∧ lsCi ls2 ls ∧
          (u2.drop L2.qe).take 4 = (u.drop L.qe).take 4) ∧
        RunCi u u2 L.answers L2.answers ∧ RunCi u u2 L.authority L2.authority ∧
        RunCi u u2 L.additional L2.additional := by
  obtain ⟨c, hc, _, hwf, hhdr, _, L', ⟨ls, ls', hvu, hvc, hci, hq4⟩, ca, cn, cr⟩ := compress_spec h L hpf
  obtain ⟨vc, hpc⟩ := C02.wf_accepted c hwf
  obtain ⟨Lc, o, ho⟩ := C05.decompress_ok hpc
  obtain ⟨eq, ea, en, er⟩ := C05.layout_unique Lc L'
  obtain ⟨_, L2, hq2, ha2, hn2, hr2, _⟩ := C05.output_layout hpc o
  have hlc : 12 ≤ c.length := hwf.1
  have hHc : (c.take 12).length = 12 := by simp; omega
  refine ⟨c, o.bytes, hc, ho, ?_, L2, ?_, ?_, ?_, ?_⟩
  · rw [← hhdr]
    simp only [C05.Output.bytes, List.append_assoc]
    rw [List.take_append_of_le_length (by omega), List.take_of_length_le (by omega)]
  · obtain ⟨lsc, hvlc, hqc⟩ := o.hq
    obtain ⟨l2, hvl2, hq2'⟩ := hq2
    rw [eq] at hvlc hqc
    have e1 : lsc = ls' := (validName_functional hvlc hvc).1
    subst e1
    rw [hqc] at hq2'
    have e2 : encLabels lsc ++ 0 :: (c.drop L'.qe).take 4 = encLabels l2 ++ 0 :: (o.bytes.drop L2.qe).take 4 := by
      simpa [List.append_assoc] using hq2'
    have e3 : lsc = l2 := encLabels_inj (validName_ok hvlc).1 (validName_ok hvl2).1 _ _ e2
    subst e3
    have e4 := List.append_cancel_left e2
    simp only [List.cons.injEq, true_and] at e4
    exact ⟨ls, lsc, hvu, hvl2, hci, by rw [← e4, hq4]⟩
  · have hca := o.ha; rw [ea] at hca
    exact runCi_transfer L'.ha L2.ha hca ha2 ca (fits_of_run L.ha)
  · have hcn := o.hn; rw [en] at hcn
    exact runCi_transfer L'.hn L2.hn hcn hn2 cn (fits_of_run L.hn)
  · have hcr := o.hr; rw [er] at hcr
    exact runCi_transfer L'.hr L2.hr hcr hr2 cr (fits_of_run L.hr)

end Dns.C06

namespace Dns.C06
open Dns
/-! non-vacuity (kernel evaluation of the model): the expanded sample of C05 compresses back to the
original sample, with the answer's owner name replaced by a pointer to the question -/
example : compress C05.okExpanded = .ok C02.okPacket := by decide +kernel

/-! ### Tie to the current source text
The readers and the case-insensitive comparison of the suffix dictionary (`Compress::raw_name_len`, `raw_name_len_after_decompression`, `copy_uncompressed_name`,
`SuffixDict::raw_names_eq_ignore_case`) are re-translated from /repo/src/compress.rs by rs2lean.py on every run
(`Generated/TrReader.lean`) and proved equal to the model functions used above (`Tie/Reader.lean`). -/
theorem source_reader_tie (p pre n1 n2 : Bytes) (off : Nat) :
    Tr.Reader.raw_name_len p = rawNameLen p ∧
    Tr.Reader.raw_name_len_after_decompression p off = rawNameLenAfterDecompression p off ∧
    Tr.Reader.copy_uncompressed_name pre p off
      = (copyUncompressedName p off >>= fun r => Res.ok ((r.1.length, r.2), pre ++ r.1)) ∧
    Tr.Reader.raw_names_eq_ignore_case n1 n2 = .ok (rawNamesEqIgnoreCase n1 n2) :=
  Tie.reader_tie p pre n1 n2 off

end Dns.C06
