/-
  C09 — Each mutation has exactly its stated effect; the rest is untouched.

  The decoded message of a pointer-free packet object is read off its representation `PlainObj`
  (Lemmas/InsertRec.lean): header `hdr`, question labels `qls` and type/class bytes `q4`, and the three
  lists of record pieces `lst .answer / .nameServers / .additional`, each piece being the canonical
  (pointer-free) wire form of one record.  "Exactly its stated effect" is an equation between these
  components before and after the call:

  * `insert_exact_*`  — the given record is appended at the end of the chosen section, that section's
    count goes up by one, everything else is equal;
  * `delete_exact`    — the record under the cursor goes, that section's count goes down by one;
  * `set_ttl_exact`, `set_ip_exact` — the four TTL bytes / the address bytes of that record change;
  * `set_name_exact`  — the owner name of that record is replaced;
  * `header_exact`    — a header setter changes bytes 0–3 of the header only (which bits: C12);
  * `first_touch`, `set_name_flagged`, `delete_flagged` — on an object that still has its parse-time
    flag (compressed or not) the first `set_raw_name` / `delete` first turns the object into the
    plain object of the canonical pieces (names compared after decompression), then acts as above.

  Excluded by hypothesis (known findings, by design): the OPT pseudo-record as the target of
  set-name / set-TTL (KF5), clearing QR while answers exist (KF3), the question section as the
  target of delete (KF1).  In-place setters on a still-compressed object (KF2 aliasing) and rename /
  recompute at object level are covered by the script correspondence, not by these theorems.
-/
import DnsModel.Lemmas.SetName
import DnsModel.Tie.Counts
import DnsModel.Tie.Insert
import DnsModel.Lemmas.HeaderSet
import DnsModel.Lemmas.DeleteWalk
namespace Dns.C09
open Dns Res

/-- **insert (answer)** -/
theorem insert_exact_answer {pp : PP} (P : PlainObj pp) (rr : Bytes) (hpc : PieceOK .answer rr P.o2 P.o2)
    (hsize : pp.packet.length + rr.length ≤ 8192) (hcount : P.A.length < 65535) (hqr : get16 P.hdr 2 / 32768 % 2 = 1) :
    ∃ (pp' : PP) (P' : PlainObj pp'), insertRR pp .answer rr = .ok (pp', none) ∧
      P'.A = P.A ++ [rr] ∧ P'.N = P.N ∧ P'.R = P.R ∧ P'.qls = P.qls ∧ P'.q4 = P.q4 ∧
      (∀ k, (k + 1 < 6 ∨ 6 + 1 < k) → get16 P'.hdr k = get16 P.hdr k) := by
  obtain ⟨pp', P', h, a, b, c, d, e, f, _⟩ := insert_answer P rr hpc hsize hcount hqr
  exact ⟨pp', P', h, a, b, c, d, e, f⟩

/-- **insert (authority)** -/
theorem insert_exact_authority {pp : PP} (P : PlainObj pp) (rr : Bytes) (hpc : PieceOK .nameServers rr P.o3 P.o3)
    (hsize : pp.packet.length + rr.length ≤ 8192) (hcount : P.N.length < 65535) (hqr : get16 P.hdr 2 / 32768 % 2 = 1) :
    ∃ (pp' : PP) (P' : PlainObj pp'), insertRR pp .nameServers rr = .ok (pp', none) ∧
      P'.A = P.A ∧ P'.N = P.N ++ [rr] ∧ P'.R = P.R ∧ P'.qls = P.qls ∧ P'.q4 = P.q4 ∧
      (∀ k, (k + 1 < 8 ∨ 8 + 1 < k) → get16 P'.hdr k = get16 P.hdr k) := by
  obtain ⟨pp', P', h, a, b, c, d, e, f, _⟩ := insert_authority P rr hpc hsize hcount hqr
  exact ⟨pp', P', h, a, b, c, d, e, f⟩

/-- **insert (additional)** -/
theorem insert_exact_additional {pp : PP} (P : PlainObj pp) (rr : Bytes) (hpc : PieceOK .additional rr P.o4 P.o4)
    (hsize : pp.packet.length + rr.length ≤ 8192) (hcount : P.R.length < 65535) :
    ∃ (pp' : PP) (P' : PlainObj pp'), insertRR pp .additional rr = .ok (pp', none) ∧
      P'.A = P.A ∧ P'.N = P.N ∧ P'.R = P.R ++ [rr] ∧ P'.qls = P.qls ∧ P'.q4 = P.q4 ∧
      (∀ k, (k + 1 < 10 ∨ 10 + 1 < k) → get16 P'.hdr k = get16 P.hdr k) := by
  obtain ⟨pp', P', h, a, b, c, d, e, f, _⟩ := insert_additional P rr hpc hsize hcount
  exact ⟨pp', P', h, a, b, c, d, e, f⟩

/-- **delete** through a cursor on the record `rc` of a record section: exactly that record goes -/
theorem delete_exact {pp : PP} (P : PlainObj pp) (sec : Section) (hs : sec.isRec = true) {ps1 ps2 : List Bytes} {rc : Bytes}
    (hsplit : P.lst sec = ps1 ++ rc :: ps2) (c : Cursor) {ne : Nat} {ob oa : Bool}
    (hr : RRAtPos pp.packet sec ⟨P.start sec + ps1.flatten.length, ne, P.start sec + ps1.flatten.length + rc.length⟩ ob oa)
    (hoff : c.offset = some (P.start sec + ps1.flatten.length))
    (hnext : c.offsetNext = P.start sec + ps1.flatten.length + rc.length) (hne : c.nameEnd = ne) :
    ∃ (pp' : PP) (P' : PlainObj pp'),
      deleteRR pp c = .ok { pp := pp', cur := { c with offsetNext := P.start sec + ps1.flatten.length, offset := none }, result := none } ∧
      P'.lst sec = ps1 ++ ps2 ∧ (∀ s, s ≠ sec → P'.lst s = P.lst s) ∧ P'.qls = P.qls ∧ P'.q4 = P.q4 ∧
      (∀ k, (k + 1 < sectionCountOffset sec ∨ sectionCountOffset sec + 1 < k) → get16 P'.hdr k = get16 P.hdr k) := by
  obtain ⟨pp', P', h, a, b, c', d, e, _⟩ := P.delete_at sec hs hsplit c hr hoff hnext hne
  exact ⟨pp', P', h, a, b, c', d, e⟩

/-- **set_rr_ttl** -/
theorem set_ttl_exact {pp : PP} (P : PlainObj pp) (sec : Section) (hs : sec.isRec = true) {ps1 ps2 : List Bytes} {rc : Bytes}
    (hsplit : P.lst sec = ps1 ++ rc :: ps2) (c : Cursor) {ne : Nat} {ob oa : Bool}
    (hr : RRAtPos pp.packet sec ⟨P.start sec + ps1.flatten.length, ne, P.start sec + ps1.flatten.length + rc.length⟩ ob oa)
    (hoff : c.offset = some (P.start sec + ps1.flatten.length)) (hne : c.nameEnd = ne) (h41 : get16 pp.packet ne ≠ 41) (ttl : Nat) :
    ∃ (owner : List (List UInt8)) (f8 rd : Bytes) (pp' : PP) (P' : PlainObj pp'),
      rc = (encLabels owner ++ [0]) ++ f8 ++ put16 rd.length ++ rd ∧ f8.length = 8 ∧
      setRrTtl pp c ttl = .ok pp' ∧
      P'.lst sec = ps1 ++ ((encLabels owner ++ [0]) ++ (f8.take 4 ++ put32 ttl) ++ put16 rd.length ++ rd) :: ps2 ∧
      (∀ s, s ≠ sec → P'.lst s = P.lst s) ∧ P'.qls = P.qls ∧ P'.q4 = P.q4 ∧ P'.hdr = P.hdr ∧
      pp' = { pp with packet := pp'.packet } := by
  obtain ⟨o, f, r, pp', P', a1, a2, a3, a4, a5, a6, a7, a8, a9, _⟩ := P.set_ttl sec hs hsplit c hr hoff hne h41 ttl
  exact ⟨o, f, r, pp', P', a1, a2, a3, a4, a5, a6, a7, a8, a9⟩

/-- **set_rr_ip** with an address of the record's family -/
theorem set_ip_exact {pp : PP} (P : PlainObj pp) (sec : Section) (hs : sec.isRec = true) {ps1 ps2 : List Bytes} {rc : Bytes}
    (hsplit : P.lst sec = ps1 ++ rc :: ps2) (c : Cursor) {ne : Nat} {ob oa : Bool}
    (hr : RRAtPos pp.packet sec ⟨P.start sec + ps1.flatten.length, ne, P.start sec + ps1.flatten.length + rc.length⟩ ob oa)
    (hoff : c.offset = some (P.start sec + ps1.flatten.length)) (hne : c.nameEnd = ne) (ip : Bytes)
    (hfam : (get16 pp.packet ne = 1 ∧ ip.length = 4) ∨ (get16 pp.packet ne = 28 ∧ ip.length = 16)) :
    ∃ (owner : List (List UInt8)) (f8 rd : Bytes) (pp' : PP) (P' : PlainObj pp'),
      rc = (encLabels owner ++ [0]) ++ f8 ++ put16 rd.length ++ rd ∧ f8.length = 8 ∧ rd.length = ip.length ∧
      setRrIp pp c ip = .ok (pp', none) ∧
      P'.lst sec = ps1 ++ ((encLabels owner ++ [0]) ++ f8 ++ put16 rd.length ++ ip) :: ps2 ∧
      (∀ s, s ≠ sec → P'.lst s = P.lst s) ∧ P'.qls = P.qls ∧ P'.q4 = P.q4 ∧ P'.hdr = P.hdr ∧
      pp' = { pp with packet := pp'.packet } := by
  obtain ⟨o, f, r, pp', P', a1, a2, a3, a4, a5, a6, a7, a8, a9, a10, _⟩ := P.set_ip sec hs hsplit c hr hoff hne ip hfam
  exact ⟨o, f, r, pp', P', a1, a2, a3, a4, a5, a6, a7, a8, a9, a10⟩

/-- **set_raw_name** with a well-formed pointer-free name -/
theorem set_name_exact {pp : PP} (P : PlainObj pp) (sec : Section) (hs : sec.isRec = true) {ps1 ps2 : List Bytes} {rc : Bytes}
    (hsplit : P.lst sec = ps1 ++ rc :: ps2) (c : Cursor) {ne : Nat} {ob oa : Bool}
    (hr : RRAtPos pp.packet sec ⟨P.start sec + ps1.flatten.length, ne, P.start sec + ps1.flatten.length + rc.length⟩ ob oa)
    (hoff : c.offset = some (P.start sec + ps1.flatten.length))
    (hnext : c.offsetNext = P.start sec + ps1.flatten.length + rc.length) (hne : c.nameEnd = ne) (hsec : c.sec = sec)
    (h41 : get16 pp.packet ne ≠ 41) (owner' : List (List UInt8)) (hgo' : GoodLabels owner')
    (hsize : ne - (P.start sec + ps1.flatten.length) < labSum owner' + 1 →
      pp.packet.length + (labSum owner' + 1) - (ne - (P.start sec + ps1.flatten.length)) ≤ 65535) :
    ∃ (owner : List (List UInt8)) (f8 rd : Bytes) (pp' : PP) (P' : PlainObj pp'),
      rc = (encLabels owner ++ [0]) ++ f8 ++ put16 rd.length ++ rd ∧
      setRawName pp c (encLabels owner' ++ [0]) =
        mOk pp' (c.movedTo (P.start sec + ps1.flatten.length) (P.start sec + ps1.flatten.length + labSum owner' + 1)
          (P.start sec + ps1.flatten.length + ((encLabels owner' ++ [0]) ++ f8 ++ put16 rd.length ++ rd).length)) ∧
      P'.lst sec = ps1 ++ ((encLabels owner' ++ [0]) ++ f8 ++ put16 rd.length ++ rd) :: ps2 ∧
      (∀ s, s ≠ sec → P'.lst s = P.lst s) ∧ P'.qls = P.qls ∧ P'.q4 = P.q4 ∧ P'.hdr = P.hdr ∧
      pp'.cached = none ∧ pp'.ednsCount = pp.ednsCount ∧ pp'.extRcode = pp.extRcode ∧ pp'.ednsVersion = pp.ednsVersion ∧
      pp'.extFlags = pp.extFlags ∧ pp'.maxPayload = pp.maxPayload := by
  obtain ⟨o, f, r, pp', P', a1, a2, a3, a4, a5, a6, a7, a8, a9, a10, a11, a12, a13, _⟩ :=
    P.set_name sec hs hsplit c hr hoff hnext hne hsec h41 owner' hgo' hsize
  exact ⟨o, f, r, pp', P', a1, a2, a3, a4, a5, a6, a7, a8, a9, a10, a11, a12, a13⟩

/-- **header setters** (`set_tid`, `set_flags`, `set_response`, `set_opcode`, `set_rcode`: each changes
bytes 0–3 only, C12): the records, the question and the counts are untouched -/
theorem header_exact {pp : PP} (P : PlainObj pp) (p' : Bytes) (hs : C12.sameExcept pp.packet p' 0 4)
    (hqr : get16 p' 2 / 32768 % 2 = 0 → P.A = [] ∧ P.N = []) :
    ∃ P' : PlainObj { pp with packet := p' }, P'.A = P.A ∧ P'.N = P.N ∧ P'.R = P.R ∧ P'.qls = P.qls ∧ P'.q4 = P.q4 ∧
      P'.hdr = p'.take 12 := P.header_set p' hs hqr

/-- **the decompress-first step** of `set_raw_name` / `delete` on an object that still has its
parse-time flag: the plain object of the canonical pieces, the cursor on the same record -/
theorem first_touch {pp : PP} {p : Bytes} {v : View} (F : Fresh pp p v) (L : C03.Layout p) (o : C05.Output p L)
    (sec : Section) (hs : sec.isRec = true) {l1 l2 : List RecPos} {r : RecPos} {ps1 ps2 : List Bytes} {pc : Bytes}
    (hl : L.recs sec = l1 ++ r :: l2) (hp : o.pieces sec = ps1 ++ pc :: ps2) (hlen : l1.length = ps1.length)
    (c : Cursor) (hsec : c.sec = sec) (hoff : c.offset = some r.off) :
    ∃ (v2 : View) (P : PlainObj (pp.rebased o.bytes v2)) (ne : Nat) (ob oa : Bool),
      parse o.bytes = .ok v2 ∧ P.lst .answer = o.pa ∧ P.lst .nameServers = o.pn ∧ P.lst .additional = o.pr ∧
      P.hdr = p.take 12 ∧ o.qc = (encLabels P.qls ++ [0]) ++ P.q4 ∧
      RRAtPos o.bytes sec ⟨P.start sec + ps1.flatten.length, ne, P.start sec + ps1.flatten.length + pc.length⟩ ob oa ∧
      uncompressAt pp c = mOk (pp.rebased o.bytes v2) (c.movedTo (P.start sec + ps1.flatten.length) ne (P.start sec + ps1.flatten.length + pc.length)) :=
  uncompressAt_fresh F L o sec hs hl hp hlen c hsec hoff

/-- `set_raw_name` on a flagged object = the decompress-first step, then `set_raw_name` on the plain object -/
theorem set_name_flagged {pp pp1 : PP} {c c1 : Cursor} (name : Bytes) {n : Nat} (hn : checkCompressedName name 0 = .ok n)
    (hmc : pp.maybeCompressed = true) (hun : uncompressAt pp c = mOk pp1 c1) (hmc1 : pp1.maybeCompressed = false) :
    setRawName pp c name = setRawName pp1 c1 name := by
  unfold setRawName
  simp only [hn, hmc, if_true, hun, mOk, bind_ok, Option.isSome_none, Bool.false_eq_true, if_false, hmc1]

/-- `delete` on a flagged object: exactly the record under the cursor goes (canonical forms) -/
theorem delete_flagged {pp : PP} {p : Bytes} {v : View} (F : Fresh pp p v) (L : C03.Layout p) (o : C05.Output p L)
    (sec : Section) (hs : sec.isRec = true) {l1 l2 : List RecPos} {r : RecPos} {ps1 ps2 : List Bytes} {pc : Bytes}
    (hl : L.recs sec = l1 ++ r :: l2) (hp : o.pieces sec = ps1 ++ pc :: ps2) (hlen : l1.length = ps1.length)
    (c : Cursor) (hsec : c.sec = sec) (hoff : c.offset = some r.off) :
    ∃ (pp' : PP) (P' : PlainObj pp') (c' : Cursor),
      deleteRR pp c = .ok { pp := pp', cur := c', result := none } ∧ c'.offset = none ∧ c'.sec = sec ∧
      P'.lst sec = ps1 ++ ps2 ∧ (∀ s, s ≠ sec → P'.lst s = o.pieces s) ∧
      o.qc = (encLabels P'.qls ++ [0]) ++ P'.q4 ∧
      (∀ k, (k + 1 < sectionCountOffset sec ∨ sectionCountOffset sec + 1 < k) → get16 P'.hdr k = get16 (p.take 12) k) :=
  delete_fresh F L o sec hs hl hp hlen c hsec hoff


/-! ### Tie to the current source text: the record-count bookkeeping every insertion and deletion goes through
(`rrcount_inc`, `rrcount_dec`, `insertion_offset` of parsed_packet.rs with the `set_*count` writers of dns_sector.rs,
re-translated on every run: `Generated/TrCounts.lean`, `Tie/Counts.lean`) -/
theorem source_counts_tie (pp : PP) (s : Section) :
    (Tr.Counts.rrcount_inc pp.packet s >>= fun r => Res.ok r.2) = (rrcountInc pp s >>= Tie.incResult) ∧
    Tr.Counts.rrcount_dec pp.packet s = (rrcountDec pp s >>= fun r => Res.ok (r.2, r.1.packet)) ∧
    Tr.Counts.insertion_offset pp.packet pp.offsetAnswers pp.offsetNameservers pp.offsetAdditional s
      = insertionOffset pp s :=
  ⟨Tie.rrcount_inc_eq pp s, Tie.rrcount_dec_eq pp s, Tie.insertion_offset_eq pp s⟩


/-- **insert_rr of the current source text.**  `Tr.Counts.insert_rr` is `ParsedPacket::insert_rr` as re-translated from
/repo/src/parsed_packet.rs on every run (with `rrcount_inc`, `insertion_offset`, the `set_*count` writers and `recompute`; `Compress::uncompress` is the model's): on an object that needs no decompression and whose section starts lie inside the packet it computes
what the model's `insertRR` computes — a refusal of the model being an error of the source (`Tie/Insert.lean`, where
`insert_rr_compressed` does the same for the path through decompression). -/
theorem source_insert_rr (pp : PP) (s : Section) (rr : Bytes) (hmc : pp.maybeCompressed = false) (hoff : Tie.OffOK pp) :
    Tr.Counts.insert_rr pp.packet pp.offsetQuestion pp.offsetAnswers pp.offsetNameservers pp.offsetAdditional pp.offsetEdns
        pp.ednsCount pp.extRcode pp.ednsVersion pp.extFlags pp.maybeCompressed pp.cached s rr
      = (insertRR pp s rr >>= Tie.insFinish) :=
  Tie.insert_rr_plain pp s rr hmc hoff

end Dns.C09
