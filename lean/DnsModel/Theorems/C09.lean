import DnsModel.Script
namespace Dns.C09
end Dns.C09
