/-
  C02 — The parser accepts exactly the packets that are well-formed under its policy.
  Proved so far (the hub of the full equivalence): the compressed-name validator accepts a name
  at `off` exactly when the declarative relation `ValidName` of Spec/Wire.lean holds, and returns
  the position after the name as written.
-/
import DnsModel.Lemmas.NameComplete
namespace Dns.C02
open Dns

/-- the validator's verdict on a name is the declarative one, in both directions -/
theorem name_ok_iff_valid (p : Bytes) (off e : Nat) :
    checkCompressedName p off = .ok e ↔ ∃ ls, ValidName p off ls e :=
  checkCompressedName_ok_iff p off e

/-- non-vacuity: a two-label name reached through a pointer is valid, a self-pointer is not -/
example : checkCompressedName [3, 119, 119, 119, 0, 0xc0, 0] 5 = .ok 7 := by decide
example : ¬ ∃ ls, ValidName [0xc0, 0] 0 ls 2 := by
  intro h
  have := (name_ok_iff_valid [0xc0, 0] 0 2).2 h
  revert this; decide

end Dns.C02
