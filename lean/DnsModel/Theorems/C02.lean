/-
  C02 — The parser accepts exactly the packets that are well-formed under its policy.
  `WF` (Spec/Wire.lean) states the policy on the bytes, independently of the validator's control
  flow: names by the inductive relations `Labels`/`NameAt` (pointers strictly backward from the start
  of the segment they are in, at most 16, never to a root label; labels ≤ 63, total ≤ 255, no control
  characters, dots or backslashes), DNAME targets by `PlainName`, per-type data by `RDataOK`, OPT by
  `OptionsTile`, sections by `RRs`.
-/
import DnsModel.Lemmas.ParseSpec
import DnsModel.Tie.Name
import DnsModel.Tie.Parse
namespace Dns.C02
open Dns

/-- **C02.** For every byte string: parsing succeeds if and only if the packet is well-formed. -/
theorem parse_ok_iff_wf (p : Bytes) : (∃ v, parse p = .ok v) ↔ WF p := Dns.parse_ok_iff_wf p

/-- nothing well-formed is turned away -/
theorem wf_accepted (p : Bytes) (h : WF p) : ∃ v, parse p = .ok v := (parse_ok_iff_wf p).2 h

/-- anything accepted is well-formed (what the unchecked readers rely on) -/
theorem accepted_wf (p : Bytes) (v : View) (h : parse p = .ok v) : WF p := (parse_ok_iff_wf p).1 ⟨v, h⟩

/-- the validator's verdict on a name is the declarative one, in both directions -/
theorem name_ok_iff_valid (p : Bytes) (off e : Nat) :
    checkCompressedName p off = .ok e ↔ ∃ ls, ValidName p off ls e :=
  checkCompressedName_ok_iff p off e

/-- DNAME targets: pointer-free, any bytes -/
theorem plain_name_ok_iff (p : Bytes) (off e : Nat) :
    checkUncompressedName p off = .ok e ↔ PlainName p off e :=
  checkUncompressedName_ok_iff p off e

/-! Non-vacuity: a response with a compressed answer and an OPT record is well-formed; one packet per
clause of the policy is not (64-byte label type, pointer to a root label, trailing byte, two OPTs,
answer in a query, A record of 5 bytes). -/
def okPacket : Bytes :=
  [0,7,0x80,0, 0,1, 0,1, 0,0, 0,1,  1,97,0, 0,1, 0,1,  0xc0,12, 0,1, 0,1, 0,0,0,9, 0,4, 1,2,3,4,
   0, 0,41, 4,0xd0, 0,0,0,0, 0,6, 0,10,0,2,7,7]

example : WF okPacket := (parse_ok_iff_wf okPacket).1 (by
  have : (parse okPacket).isOk = true := by decide
  cases h : parse okPacket with
  | ok v => exact ⟨v, rfl⟩
  | err e => simp [h, Res.isOk] at this
  | panic => simp [h, Res.isOk] at this
  | diverge => simp [h, Res.isOk] at this)

private theorem not_wf_of_err {p : Bytes} {e : Err} (h : parse p = .err e) : ¬ WF p := by
  intro hw
  obtain ⟨v, hv⟩ := (parse_ok_iff_wf p).2 hw
  rw [h] at hv; simp at hv

example : ¬ WF [0,7,0,0, 0,1, 0,0, 0,0, 0,0,  0x40,97,0, 0,1, 0,1] := not_wf_of_err (e := .invalidName) (by decide)
example : ¬ WF [0,7,0,0, 0,1, 0,0, 0,0, 0,1,  1,97,0, 0,1, 0,1,  0xc0,14, 0,1, 0,1, 0,0,0,0, 0,0] :=
  not_wf_of_err (e := .invalidName) (by decide)
example : ¬ WF [0,7,0,0, 0,1, 0,0, 0,0, 0,0,  1,97,0, 0,1, 0,1, 0] := not_wf_of_err (e := .invalidPacket) (by decide)
example : ¬ WF [0,7,0,0, 0,1, 0,0, 0,0, 0,2,  1,97,0, 0,1, 0,1,  0, 0,41, 2,0, 0,0,0,0, 0,0,  0, 0,41, 2,0, 0,0,0,0, 0,0] :=
  not_wf_of_err (e := .invalidPacket) (by decide)
example : ¬ WF [0,7,0,0, 0,1, 0,1, 0,0, 0,0,  1,97,0, 0,1, 0,1,  0xc0,12, 0,1, 0,1, 0,0,0,9, 0,4, 1,2,3,4] :=
  not_wf_of_err (e := .invalidPacket) (by decide)
example : ¬ WF [0,7,0x80,0, 0,1, 0,1, 0,0, 0,0,  1,97,0, 0,1, 0,1,  0xc0,12, 0,1, 0,1, 0,0,0,9, 0,5, 1,2,3,4,5] :=
  not_wf_of_err (e := .invalidPacket) (by decide)


/-! ### The same statements about the validators translated from the current source text
(`Generated/TrName.lean`, rewritten by rs2lean.py on every run; equalities in `Tie/Name.lean`) -/

theorem source_name_ok_iff_valid (p : Bytes) (off e : Nat) :
    Tr.Name.check_compressed_name p off = .ok e ↔ ∃ ls, ValidName p off ls e := by
  rw [Tie.check_compressed_name_eq]; exact name_ok_iff_valid p off e

theorem source_plain_name_ok_iff (p : Bytes) (off e : Nat) :
    Tr.Name.check_uncompressed_name p off = .ok e ↔ PlainName p off e := by
  rw [Tie.check_uncompressed_name_eq]; exact plain_name_ok_iff p off e

/-- **The validator of the current source text accepts exactly the well-formed packets.**  `Tr.Sector.parse` is
the translation of `DNSSector::parse` and everything it calls, written by rs2lean.py from /repo/src/dns_sector.rs
and /repo/src/compress.rs on this run, started on the state `DNSSector::new` builds. -/
theorem source_parse_ok_iff_wf (p : Bytes) :
    (∃ r, Tr.Sector.parse p 0 none none 0 none none none 512 = .ok r) ↔ WF p := by
  rw [Tie.parse_eq, ← parse_ok_iff_wf]
  constructor
  · rintro ⟨r, h⟩
    cases hp : parse p with
    | ok v => exact ⟨v, rfl⟩
    | err e => simp [hp] at h
    | panic => simp [hp] at h
    | diverge => simp [hp] at h
  · rintro ⟨v, hv⟩
    exact ⟨Tie.viewTup p v, by simp [hv]⟩

end Dns.C02
