/-
  C16 — C error descriptions are private to the calling thread.
  The slot model of DnsModel/Threads.lean (one optional message per thread, written by a failing
  table call of that thread, read through the pointer that call returned).
-/
import DnsModel.Threads
namespace Dns.C16
open Dns

/-- slots after a history, starting from `s` -/
def slotsAfter (s : Slots) (h : List TStep) : Slots := h.foldl (fun s st => (tstep s st).1) s

theorem slotsAfter_spec (s : Slots) (h : List TStep) (t : Tid) :
    slotsAfter s h t = match lastFail t h with | some m => some m | none => s t := by
  induction h generalizing s with
  | nil => simp [slotsAfter, lastFail]
  | cons st rest ih =>
    have hstep : slotsAfter s (st :: rest) = slotsAfter (tstep s st).1 rest := by simp [slotsAfter]
    rw [hstep, ih]
    cases st with
    | fail u m =>
      simp only [lastFail, tstep]
      cases hl : lastFail t rest with
      | some x => simp
      | none =>
        by_cases hu : u = t
        · subst hu; simp
        · have : ¬ t = u := fun h => hu h.symm
          simp [hu, this]
    | read u => simp [lastFail, tstep]

/-- **C16.** For every interleaved history of (fail, read) steps of any number of threads, the
description a thread reads is that thread's own most recent failure (none if it never failed),
whatever the other threads did in between. -/
theorem private_slot (h : List TStep) (t : Tid) :
    (tstep (slotsAfter Slots.init h) (.read t)).2 = some (lastFail t h) := by
  simp only [tstep]
  rw [slotsAfter_spec]
  cases lastFail t h <;> simp [Slots.init]

/-- a failure on another thread never changes what `t` reads, wherever it is interleaved -/
theorem other_threads_commute (h1 h2 : List TStep) (t u : Tid) (m : MsgId) (hne : u ≠ t) :
    slotsAfter Slots.init (h1 ++ TStep.fail u m :: h2) t = slotsAfter Slots.init (h1 ++ h2) t := by
  have key : ∀ (h1 : List TStep), lastFail t (h1 ++ TStep.fail u m :: h2) = lastFail t (h1 ++ h2) := by
    intro h1
    induction h1 with
    | nil =>
      simp only [List.nil_append, lastFail]
      cases lastFail t h2 <;> simp [hne]
    | cons st rest ih =>
      cases st with
      | fail v k => simp only [List.cons_append, lastFail, ih]
      | read v => simp only [List.cons_append, lastFail, ih]
  rw [slotsAfter_spec, slotsAfter_spec, key]

/-- the description stays intact until that thread's next failure: reads do not disturb it -/
theorem read_preserves (s : Slots) (t : Tid) : (tstep s (.read t)).1 = s := rfl

/-! non-vacuity: two threads failing in turn each see their own message -/
example : (tstep (slotsAfter Slots.init [.fail 0 7, .fail 1 9, .read 1]) (.read 0)).2 = some (some 7) := by decide
example : (tstep (slotsAfter Slots.init [.fail 0 7, .fail 1 9]) (.read 1)).2 = some (some 9) := by decide
example : (tstep (slotsAfter Slots.init [.fail 1 9]) (.read 0)).2 = some none := by decide

end Dns.C16
