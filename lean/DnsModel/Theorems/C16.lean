import DnsModel.Threads
import DnsModel.Steps
namespace Dns.C16
end Dns.C16
