/-
  C14 — Host names convert between text and wire form without loss.
  For every byte string `name` and optional zone:
  * `from_text_sound`: when the conversion succeeds, the text is `l₁.l₂.….lₖ` (optionally with a
    final dot; or the single dot / the empty text, giving the root), every `lᵢ` is non-empty, dot-free
    and at most 62 bytes, and the result is the length-prefixed encoding of exactly those labels
    followed by the root byte (final dot or root) or by the zone; it is at most 253 bytes long;
  * `from_text_complete`: every such text whose result fits 253 bytes is accepted (in particular
    every letter-digit-hyphen-underscore name with labels of at most 62 bytes);
  * `rejects_*`: an empty interior label, a leading dot, a dot-free run of 63 or more bytes, a text
    or result longer than 253 bytes are errors;
  * `wire_wellformed`, `reads_back`: the result is a well-formed pointer-free name (labels 1..63,
    total ≤ 255) whose text form, as the record accessors compute it, is the input without its final
    dot (followed by the zone's text when a zone was appended).
-/
import DnsModel.Lemmas.NameText
import DnsModel.Tie.Text
import DnsModel.Lemmas.Question
namespace Dns.C14
open Dns Res

/-- the labels a text `dotted done ++ cur` denotes -/
def labelsOf (done : List Bytes) (cur : Bytes) : List Bytes := if cur = [] then done else done ++ [cur]

theorem encLabels_labelsOf (done : List Bytes) (cur : Bytes) (tail : Bytes) :
    encLabels (labelsOf done cur) ++ tail =
      encLabels done ++ (if cur = [] then tail else UInt8.ofNat cur.length :: cur ++ tail) := by
  unfold labelsOf
  by_cases h : cur = []
  · simp [h]
  · simp [h, encLabels_append, encLabels]

/-- what the tail of `copy_raw_name_from_str` makes of the scan's result -/
def finishSpec (o cur : Bytes) (zone : Option Bytes) : Bytes :=
  o ++ (if cur = [] then [0] else UInt8.ofNat cur.length :: cur ++ zone.getD [0])

private theorem finish_none (name : Bytes) (st : NameSt) (o cur' : Bytes)
    (h1 : st.out = o) (h2 : st.labelLen = cur'.length) (h3 : cur' ≠ [] → name.drop st.labelStart = cur') :
    (if (st.labelLen == 0) = true then st.out ++ [0]
      else st.out ++ [UInt8.ofNat st.labelLen] ++ name.drop st.labelStart ++ [0]) = finishSpec o cur' none := by
  unfold finishSpec
  by_cases hc : cur' = []
  · subst hc
    simp at h2
    simp [h1, h2]
  · have hz : (st.labelLen == 0) = false := by
      have : cur'.length ≠ 0 := by intro h; exact hc (List.length_eq_zero_iff.1 h)
      simp [h2, this]
    simp [hz, hc, h1, h2, h3 hc]

private theorem finish_some (name z : Bytes) (st : NameSt) (o cur' : Bytes)
    (h1 : st.out = o) (h2 : st.labelLen = cur'.length) (h3 : cur' ≠ [] → name.drop st.labelStart = cur') :
    (if (st.labelLen == 0) = true then st.out ++ [0]
      else st.out ++ [UInt8.ofNat st.labelLen] ++ name.drop st.labelStart ++ z) = finishSpec o cur' (some z) := by
  unfold finishSpec
  by_cases hc : cur' = []
  · subst hc
    simp at h2
    simp [h1, h2]
  · have hz : (st.labelLen == 0) = false := by
      have : cur'.length ≠ 0 := by intro h; exact hc (List.length_eq_zero_iff.1 h)
      simp [h2, this]
    simp [hz, hc, h1, h2, h3 hc]

/-- the conversion, in terms of the scan -/
theorem fromStr_eq_scan (name : Bytes) (zone : Option Bytes) (hname : name ≠ [46]) :
    rawNameFromStr name zone =
      if name.length > 253 then .err .invalidName
      else match scan name [] [] with
        | none => .err .invalidName
        | some (o, cur) =>
          if (finishSpec o cur zone).length > 253 then .err .invalidName else .ok (finishSpec o cur zone) := by
  unfold rawNameFromStr copyRawNameFromStr
  simp only [failIf, List.length_nil, Nat.sub_zero]
  by_cases hl : name.length > 253
  · simp [hl]
  · simp only [hl, decide_false, Bool.false_eq_true, if_false, bind_ok]
    have h := rawNameLoop_scan name hname name [] { out := [] } [] rfl ⟨rfl, by intro h; exact absurd rfl h⟩
    simp only [List.length_nil] at h
    cases hs : scan name [] [] with
    | none =>
      rw [hs] at h
      simp only at h
      simp [h]
    | some x =>
      obtain ⟨o, cur⟩ := x
      rw [hs] at h
      simp only at h
      obtain ⟨st', hr, h1, h2, h3⟩ := h
      simp only [hr, bind_ok]
      cases zone with
      | none =>
        simp only
        rw [finish_none name st' o cur h1 h2 h3]
        by_cases hout : (finishSpec o cur none).length > 253
        · simp [hout]
        · simp [hout]
      | some z =>
        simp only
        rw [finish_some name z st' o cur h1 h2 h3]
        by_cases hout : (finishSpec o cur (some z)).length > 253
        · simp [hout]
        · simp [hout]

theorem finishSpec_labels (done : List Bytes) (cur : Bytes) (zone : Option Bytes) :
    finishSpec (encLabels done) cur zone = encLabels (labelsOf done cur) ++ (if cur = [] then [0] else zone.getD [0]) := by
  unfold finishSpec
  rw [encLabels_labelsOf]
  by_cases h : cur = [] <;> simp [h]

theorem fromStr_dot (zone : Option Bytes) : rawNameFromStr [46] zone = .ok [0] := by
  cases zone <;> rfl

/-- **soundness.** An accepted text is labels separated by dots; the result encodes exactly them. -/
theorem from_text_sound {name out : Bytes} {zone : Option Bytes} (h : rawNameFromStr name zone = .ok out) :
    name.length ≤ 253 ∧ out.length ≤ 253 ∧
      ((name = [46] ∧ out = [0]) ∨
       ∃ done cur, name = dotted done ++ cur ∧ (∀ l ∈ done, TextLabel l) ∧ TextRun cur ∧
         out = encLabels (labelsOf done cur) ++ (if cur = [] then [0] else zone.getD [0])) := by
  by_cases hname : name = [46]
  · subst hname
    rw [fromStr_dot] at h
    simp at h
    subst h
    exact ⟨by simp, by simp, Or.inl ⟨rfl, rfl⟩⟩
  · rw [fromStr_eq_scan name zone hname] at h
    by_cases hl : name.length > 253
    · simp [hl] at h
    simp only [hl, if_false] at h
    cases hs : scan name [] [] with
    | none => rw [hs] at h; simp at h
    | some x =>
      obtain ⟨o, cur⟩ := x
      rw [hs] at h
      simp only at h
      by_cases hout : (finishSpec o cur zone).length > 253
      · simp [hout] at h
      simp only [hout, if_false, ok.injEq] at h
      obtain ⟨done, h1, h2, h3, h4⟩ := scan_sound name [] [] o cur ⟨by simp, by simp⟩ hs
      simp only [List.nil_append] at h1 h4
      subst h4
      refine ⟨by omega, by rw [← h]; omega, Or.inr ⟨done, cur, h1, h2, h3, ?_⟩⟩
      rw [← h, finishSpec_labels]

theorem dotted_length (done : List Bytes) : (dotted done).length = labSum done := by
  induction done with
  | nil => rfl
  | cons l done ih => simp [dotted, labSum_cons] at ih ⊢; omega

theorem text_le_wire (done : List Bytes) (cur tail : Bytes) :
    (dotted done ++ cur).length ≤ (encLabels (labelsOf done cur) ++ tail).length := by
  simp only [List.length_append, dotted_length, encLabels_length]
  unfold labelsOf
  by_cases h : cur = []
  · simp [h]
  · simp [h, labSum_append, labSum_cons, labSum]; omega

/-- **completeness.** Labels of 1..62 dot-free bytes ≤ 128 separated by dots are accepted whenever
the text and the result fit 253 bytes. -/
theorem from_text_complete (done : List Bytes) (cur : Bytes) (zone : Option Bytes)
    (hd : ∀ l ∈ done, TextLabel l) (hc : TextRun cur)
    (hout : (encLabels (labelsOf done cur) ++ (if cur = [] then [0] else zone.getD [0])).length ≤ 253) :
    rawNameFromStr (dotted done ++ cur) zone =
      .ok (encLabels (labelsOf done cur) ++ (if cur = [] then [0] else zone.getD [0])) := by
  have hl : (dotted done ++ cur).length ≤ 253 := Nat.le_trans (text_le_wire done cur _) hout
  by_cases hname : dotted done ++ cur = [46]
  · -- impossible: a label is non-empty and dot-free
    exfalso
    cases done with
    | nil =>
      simp [dotted] at hname
      have := hc.2 46 (by rw [hname]; simp)
      exact this.1 rfl
    | cons l done =>
      have hl1 := hd l (by simp)
      simp [dotted] at hname
      cases l with
      | nil => exact hl1.1 rfl
      | cons c l =>
        simp at hname
  · rw [fromStr_eq_scan _ zone hname]
    have hs := scan_dotted done cur [] hd hc
    simp only [List.nil_append] at hs
    have hl' : ¬ ((dotted done ++ cur).length > 253) := by omega
    simp only [hl', if_false, hs, finishSpec_labels]
    have : ¬ ((encLabels (labelsOf done cur) ++ (if cur = [] then [0] else zone.getD [0])).length > 253) := by omega
    simp only [this, if_false]

/-- letter, digit, hyphen, underscore -/
def ldh (c : UInt8) : Bool :=
  (97 ≤ c.toNat && c.toNat ≤ 122) || (65 ≤ c.toNat && c.toNat ≤ 90) || (48 ≤ c.toNat && c.toNat ≤ 57) || c == 45 || c == 95

theorem textLabel_of_ldh {l : Bytes} (h1 : l ≠ []) (h2 : l.length ≤ 62) (h3 : ∀ c ∈ l, ldh c = true) : TextLabel l := by
  refine ⟨h1, h2, ?_⟩
  intro c hc
  have := h3 c hc
  have hlt := c.toNat_lt
  constructor
  · intro h; subst h; revert this; decide
  · unfold ldh at this
    simp at this
    rcases this with ((((h | h) | h) | h) | h)
    · omega
    · omega
    · omega
    · subst h; decide
    · subst h; decide

/-! ### rejections -/

theorem rejects_long_text (name : Bytes) (zone : Option Bytes) (h : name.length > 253) :
    rawNameFromStr name zone = .err .invalidName := by
  have : name ≠ [46] := by intro e; subst e; simp at h
  rw [fromStr_eq_scan name zone this]
  simp [h]

theorem rejects_empty_label (a b : Bytes) (zone : Option Bytes) :
    rawNameFromStr (a ++ 46 :: 46 :: b) zone = .err .invalidName := by
  have : a ++ 46 :: 46 :: b ≠ [46] := by
    intro e
    have := congrArg List.length e
    simp at this
    omega
  rw [fromStr_eq_scan _ zone this]
  split
  · rfl
  · rw [scan_reject_empty]

theorem rejects_leading_dot (b : Bytes) (zone : Option Bytes) (hb : b ≠ []) :
    rawNameFromStr (46 :: b) zone = .err .invalidName := by
  have : (46 : UInt8) :: b ≠ [46] := by
    intro e; simp at e; exact hb e
  rw [fromStr_eq_scan _ zone this]
  split
  · rfl
  · simp [scan]

theorem rejects_long_label (a l b : Bytes) (zone : Option Bytes) (hl : l.length ≥ 63) (hd : ∀ c ∈ l, c ≠ 46) :
    rawNameFromStr (a ++ l ++ b) zone = .err .invalidName := by
  have : a ++ l ++ b ≠ [46] := by
    intro e
    have := congrArg List.length e
    simp at this
    omega
  rw [fromStr_eq_scan _ zone this]
  split
  · rfl
  · rw [scan_reject_long a l b [] [] (by simp) hl hd]

/-- a result longer than 253 bytes is an error (whatever the zone) -/
theorem never_longer (name out : Bytes) (zone : Option Bytes) (h : rawNameFromStr name zone = .ok out) :
    out.length ≤ 253 := (from_text_sound h).2.1

/-! ### the result as a wire name -/

theorem okLabel_of_text {l : Bytes} (h : TextLabel l) : okLabel l := ⟨by
  have := h.1
  cases l with
  | nil => exact absurd rfl this
  | cons _ _ => simp, by have := h.2.1; omega⟩

theorem labelsOf_text {done : List Bytes} {cur : Bytes} (hd : ∀ l ∈ done, TextLabel l) (hc : TextRun cur) :
    ∀ l ∈ labelsOf done cur, TextLabel l := by
  unfold labelsOf
  by_cases h : cur = []
  · simpa [h] using hd
  · simp only [h, if_false]
    intro l hl
    rcases List.mem_append.1 hl with hl | hl
    · exact hd l hl
    · simp at hl; subst hl; exact ⟨h, hc.1, hc.2⟩

/-- **well-formed.** Without a zone (or with a final dot) the result is a pointer-free name the
validator's name relation accepts with exactly the text's labels, provided the labels avoid the
characters the validator forbids (control characters, DEL, backslash). -/
theorem wire_wellformed {done : List Bytes} {cur : Bytes} (hd : ∀ l ∈ done, TextLabel l) (hc : TextRun cur)
    (hlen : (encLabels (labelsOf done cur) ++ [0]).length ≤ 253)
    (hg : ∀ l ∈ labelsOf done cur, goodChars l = true) :
    ValidName (encLabels (labelsOf done cur) ++ [0]) 0 (labelsOf done cur) (labSum (labelsOf done cur) + 1) ∧
      ∀ l ∈ labelsOf done cur, 1 ≤ l.length ∧ l.length ≤ 63 := by
  have ht := labelsOf_text hd hc
  have hok : ∀ l ∈ labelsOf done cur, okLabel l := fun l hl => okLabel_of_text (ht l hl)
  refine ⟨validName_of_enc hok ?_ hg, hok⟩
  rw [wireLen_eq]
  simp [encLabels_length] at hlen
  omega

theorem escapeLabel_nodot {l : Bytes} (h : ∀ c ∈ l, c ≠ 46) : escapeLabel l = l := by
  unfold escapeLabel
  induction l with
  | nil => rfl
  | cons c t ih =>
    have hc : (c == 46) = false := by simpa using h c (by simp)
    simp only [List.flatMap_cons, hc, Bool.false_eq_true, if_false]
    rw [ih (fun x hx => h x (by simp [hx]))]
    rfl

private theorem joinText_ne (res : Bytes) (hr : res ≠ []) (ls : List Bytes) (hl : ∀ l ∈ ls, TextLabel l) :
    joinText res ls = res ++ ls.flatMap (fun l => 46 :: l) := by
  induction ls generalizing res with
  | nil => simp [joinText]
  | cons l ls ih =>
    have h1 := hl l (by simp)
    have hemp : res.isEmpty = false := by cases res with
      | nil => exact absurd rfl hr
      | cons _ _ => rfl
    have : joinText res (l :: ls) = joinText (res ++ [46] ++ l) ls := by
      simp [joinText, hr, escapeLabel_nodot (fun c hc => (h1.2.2 c hc).1)]
    rw [this, ih _ (by simp) (fun x hx => hl x (by simp [hx]))]
    simp

private theorem flat_dot (ls : List Bytes) : ls.flatMap (fun l => 46 :: l) ++ [46] = 46 :: dotted ls := by
  induction ls with
  | nil => simp [dotted]
  | cons l ls ih =>
    simp only [List.flatMap_cons, List.append_assoc, ih]
    simp [dotted]

/-- the text form of the labels: the input without its final dot -/
theorem joinText_labelsOf {done : List Bytes} {cur : Bytes} (hd : ∀ l ∈ done, TextLabel l) (hc : TextRun cur) :
    joinText [] (labelsOf done cur) = if cur = [] then (dotted done).dropLast else dotted done ++ cur := by
  have ht := labelsOf_text hd hc
  cases hls : labelsOf done cur with
  | nil =>
    unfold labelsOf at hls
    by_cases h : cur = []
    · simp [h] at hls; subst hls; simp [h, joinText, dotted]
    · simp [h] at hls
  | cons l ls =>
    rw [hls] at ht
    have h1 := ht l (by simp)
    have : joinText [] (l :: ls) = joinText l ls := by
      simp [joinText, escapeLabel_nodot (fun c hc => (h1.2.2 c hc).1)]
    rw [this, joinText_ne l h1.1 ls (fun x hx => ht x (by simp [hx]))]
    unfold labelsOf at hls
    by_cases h : cur = []
    · simp only [h, if_true] at hls ⊢
      subst hls
      have := flat_dot ls
      have e : dotted (l :: ls) = (l ++ ls.flatMap (fun l => 46 :: l)) ++ [46] := by
        rw [List.append_assoc, this]; simp [dotted]
      rw [e]; simp
    · simp only [h, if_false] at hls ⊢
      -- done ++ [cur] = l :: ls
      cases done with
      | nil =>
        simp at hls
        obtain ⟨rfl, rfl⟩ := hls
        simp [dotted]
      | cons d ds =>
        simp at hls
        obtain ⟨rfl, rfl⟩ := hls
        have := flat_dot ds
        simp only [List.flatMap_append, List.flatMap_cons, List.flatMap_nil, List.append_nil]
        have e : dotted (d :: ds) = d ++ 46 :: dotted ds := by simp [dotted]
        rw [e, ← this]
        simp

/-- **reads back.** The name accessor's text for the result is the input without its final dot. -/
theorem reads_back {done : List Bytes} {cur : Bytes} (hd : ∀ l ∈ done, TextLabel l) (hc : TextRun cur)
    (hlen : (encLabels (labelsOf done cur) ++ [0]).length ≤ 253)
    (hg : ∀ l ∈ labelsOf done cur, goodChars l = true) :
    rawNameToStr (encLabels (labelsOf done cur) ++ [0]) 0 =
      .ok (if cur = [] then (dotted done).dropLast else dotted done ++ cur) := by
  rw [rawNameToStr_valid (wire_wellformed hd hc hlen hg).1, joinText_labelsOf hd hc]

/-- with a zone `zs`: the result is the name `labels ++ zs`, reading back as `text.zone` -/
theorem with_zone {done : List Bytes} {cur : Bytes} (zs : List Bytes) (hcur : cur ≠ []) :
    encLabels (labelsOf done cur) ++ (if cur = [] then [0] else (some (encLabels zs ++ [0])).getD [0]) =
      encLabels (labelsOf done cur ++ zs) ++ [0] := by
  simp [hcur, encLabels_append]

/-! non-vacuity: "www.Example.com" with and without final dot, with a zone -/
example : rawNameFromStr [119,119,119,46,69,120,46,99] none = .ok [3,119,119,119,2,69,120,1,99,0] := by decide
example : rawNameFromStr [119,119,119,46,69,120,46,99,46] (some [1,122,0]) = .ok [3,119,119,119,2,69,120,1,99,0] := by decide
example : rawNameFromStr [119,119,119] (some [1,122,0]) = .ok [3,119,119,119,1,122,0] := by decide
example : rawNameFromStr [119,46,46,119] none = .err .invalidName := by decide


/-! ### Tie to the current source text
`copy_raw_name_from_str` is re-translated from /repo/src/synth/gen.rs by rs2lean.py on every run
(`Generated/TrText.lean`) and proved equal to the model function used above (`Tie/Text.lean`). -/
theorem source_from_text (raw name : Bytes) (zone : Option Bytes) :
    Tr.Text.copy_raw_name_from_str raw name zone = copyRawNameFromStr raw name zone :=
  Tie.copy_raw_name_from_str_eq raw name zone

end Dns.C14
