import DnsModel.Synth
namespace Dns.C14
end Dns.C14
