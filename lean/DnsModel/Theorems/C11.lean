import DnsModel.Script
namespace Dns.C11
end Dns.C11
