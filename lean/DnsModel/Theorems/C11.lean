/-
  C11 — Deleting records while iterating is safe, exact and terminates.

  The cursor protocol (a cursor left void by `delete` restarts from the section start with the
  current count; a live cursor advances) on a pointer-free packet object refines the abstract machine
  `absWalk` on the list of the section's records (Lemmas/DeleteWalk.lean: `delWalk_refines`, built on
  `PlainObj.delete_at`, `next_some`, `next_none`); the statements of C11 are then facts about lists
  (Lemmas/AbsWalk.lean).

  Proved here for every plain object (what decompression / `recompute` / synthesis + insertion leave:
  `plainObj_of_output`, `insert_*`), the three record sections, every stream of choices:
  `walk_delete`, `second_delete`, `emptied_absent`, `still_accepted`.
  The first deletion on an object that still has its parse-time flag (compressed or not) is
  `first_delete`: decompress, carry the cursor, delete — the result is the plain object of the
  canonical pieces without the record under the cursor, with a void cursor; from there `walk_delete`
  applies; `walk_delete_parsed` composes the two phases (Lemmas/DeleteWalkFresh.lean: until the first
  deletion the object is untouched and the cursor walks the parsed records).
  `walk_delete_skipping_opt` is the statement for the public `next()` walk over an additional section
  that holds an OPT record (Lemmas/DeleteWalkSkip.lean: the walker sees the other records; OPT stays).
  `walk_delete_parsed_skipping_opt` is the same walk started on a freshly parsed (possibly compressed)
  packet (Lemmas/DeleteWalkSkipFresh.lean: until the first deletion the walker sees the parsed records
  other than OPT; the first deletion decompresses; then as on a plain object).
  Not covered by a theorem: the question section (KF1: by design the result is rejected by the
  parser; covered by the exhaustive correspondence walks).
-/
import DnsModel.Lemmas.DeleteWalk
import DnsModel.Tie.Counts
import DnsModel.Lemmas.FirstTouch
import DnsModel.Lemmas.DeleteWalkFresh
import DnsModel.Lemmas.DeleteWalkSkip
import DnsModel.Lemmas.DeleteWalkSkipFresh
import DnsModel.Theorems.C02
import DnsModel.Theorems.C05
namespace Dns.C11
open Dns Res

/-- steps that suffice for a section of `n` records -/
def fuelFor (n : Nat) : Nat := (n + 1) * (n + 1) + n + 1

/-- the records of a section, numbered so that equal records stay distinguishable -/
def numbered (xs : List Bytes) : List (Bytes × Nat) := xs.zipIdx

theorem numbered_nodup (xs : List Bytes) : (numbered xs).Nodup := by
  have h : ((numbered xs).map Prod.snd).Nodup := by
    unfold numbered
    rw [List.zipIdx_map_snd]
    exact List.nodup_range' 1
  unfold List.Nodup at h ⊢
  rw [List.pairwise_map] at h
  exact h.imp (fun hne heq => hne (by rw [heq]))

/-- **C11** for a plain object, a record section `sec`, the public walk (`next`, OPT-skipping, for the
answer and authority sections; the OPT-including walk for all three) and any stream of choices:
the walk-and-delete run terminates without error or panic; there is a run `r` of the abstract
machine over the numbered records such that the walker yields exactly the records the machine
yields; afterwards the section holds exactly what the machine left — a sublist of the original
(survivors in their original order), the deleted ones plus the survivors being the original
records; a deleted record is never yielded again and is not left; every survivor was yielded (and
kept) at least once; the other sections, the question and the other header fields are untouched; the
result is again a plain object (count matches, see `emptied_absent`, `still_accepted`). -/
theorem walk_delete {pp : PP} (P : PlainObj pp) (sec : Section) (hs : sec.isRec = true)
    (step : PP → Cursor → Res (Option Cursor))
    (hstep : step = nextIncludingOpt ∨ (step = nextSkippingOpt ∧ sec ≠ .additional))
    (choose : Nat → Bool) (c : Cursor) (hc : c.sec = sec) (hv : c.offset = none) :
    ∃ (pp' : PP) (P' : PlainObj pp') (r : List (Bytes × Nat) × List ((Bytes × Nat) × Bool)),
      absWalk choose (fuelFor (P.lst sec).length) 0 (numbered (P.lst sec)) 0 = some r ∧
      delWalk step choose (fuelFor (P.lst sec).length) 0 pp c = .ok (pp', r.2.map (fun e => (e.1.1, e.2))) ∧
      P'.lst sec = r.1.map (·.1) ∧ r.1.Sublist (numbered (P.lst sec)) ∧
      (((r.2.filter (·.2)).map (·.1)) ++ r.1).Perm (numbered (P.lst sec)) ∧
      (∀ l1 l2 a, r.2 = l1 ++ (a, true) :: l2 → a ∉ l2.map (·.1) ∧ a ∉ r.1) ∧
      (∀ a ∈ r.1, (a, false) ∈ r.2) ∧
      (∀ s, s ≠ sec → P'.lst s = P.lst s) ∧ P'.qls = P.qls ∧ P'.q4 = P.q4 ∧
      (∀ i, (i + 1 < sectionCountOffset sec ∨ sectionCountOffset sec + 1 < i) → get16 P'.hdr i = get16 P.hdr i) := by
  have hlen : (numbered (P.lst sec)).length = (P.lst sec).length := by simp [numbered]
  have hterm := absWalk_terminates choose (fuelFor (P.lst sec).length) 0 (numbered (P.lst sec)) 0
    (by rw [hlen]; unfold fuelFor; omega)
  obtain ⟨r, hr⟩ := Option.isSome_iff_exists.1 hterm
  have hmap := absWalk_map Prod.fst choose (fuelFor (P.lst sec).length) 0 (numbered (P.lst sec)) 0
  have hfst : (numbered (P.lst sec)).map Prod.fst = P.lst sec := by simp [numbered]
  rw [hfst, hr] at hmap
  simp only [Option.map_some] at hmap
  have hstep' : ∀ (pp : PP) (P : PlainObj pp) (c : Cursor) (j : Nat), CurAt P sec j c → step pp c = nextIncludingOpt pp c := by
    intro pp P c j h
    rcases hstep with rfl | ⟨rfl, hna⟩
    · rfl
    · exact nextSkip_eq_incl P sec hs hna c j h
  obtain ⟨pp', P', hw, f1, f2, f3, f4, f5⟩ :=
    delWalk_refines sec hs step hstep' choose _ 0 pp P c 0 ⟨hc, Or.inl ⟨hv, rfl⟩⟩ _ hmap
  obtain ⟨s1, _⟩ := absWalk_sublist choose _ _ _ _ _ hr
  refine ⟨pp', P', r, hr, hw, f1, s1, absWalk_perm choose _ _ _ _ _ hr,
    absWalk_deleted_gone choose _ _ _ _ _ (numbered_nodup _) hr, ?_, f2, f3, f4, f5⟩
  intro a ha
  rcases absWalk_yields_survivors choose _ _ _ _ _ hr a ha with h0 | h1
  · simp at h0
  · exact h1

/-- **a second deletion through the same cursor** reports a void record and touches nothing -/
theorem second_delete {pp : PP} (P : PlainObj pp) (sec : Section) (hs : sec.isRec = true) {ps1 ps2 : List Bytes} {rc : Bytes}
    (hsplit : P.lst sec = ps1 ++ rc :: ps2) (c : Cursor) {ne : Nat} {ob oa : Bool}
    (hr : RRAtPos pp.packet sec ⟨P.start sec + ps1.flatten.length, ne, P.start sec + ps1.flatten.length + rc.length⟩ ob oa)
    (hoff : c.offset = some (P.start sec + ps1.flatten.length))
    (hnext : c.offsetNext = P.start sec + ps1.flatten.length + rc.length) (hne : c.nameEnd = ne) :
    ∃ st, deleteRR pp c = .ok st ∧ st.result = none ∧
      deleteRR st.pp st.cur = .ok { pp := st.pp, cur := st.cur, result := some .voidRecord } := by
  obtain ⟨pp', P', hdel, _⟩ := P.delete_at sec hs hsplit c hr hoff hnext hne
  exact ⟨_, hdel, rfl, delete_void _ _ rfl⟩

/-- deleting through a void cursor (nothing yielded yet, or already deleted) never touches anything -/
theorem delete_void_untouched (pp : PP) (c : Cursor) (h : c.offset = none) :
    deleteRR pp c = .ok { pp := pp, cur := c, result := some .voidRecord } := delete_void pp c h

/-- **count and presence**: in a plain object (hence after every walk of `walk_delete`) the header count
of each record section is its number of records, and the section start is absent exactly when the
section is empty -/
theorem emptied_absent {pp : PP} (P : PlainObj pp) :
    get16 (pp.packet.take 12) 6 = (P.lst .answer).length ∧ get16 (pp.packet.take 12) 8 = (P.lst .nameServers).length ∧
    get16 (pp.packet.take 12) 10 = (P.lst .additional).length ∧
    (pp.offsetAnswers = none ↔ P.lst .answer = []) ∧ (pp.offsetNameservers = none ↔ P.lst .nameServers = []) ∧
    (pp.offsetAdditional = none ↔ P.lst .additional = []) := by
  have e : pp.packet.take 12 = P.hdr := by
    rw [P.bytes]
    simp only [List.append_assoc]
    rw [List.take_append_of_le_length (by rw [P.hh]; omega), List.take_of_length_le (by rw [P.hh]; omega)]
  rw [e]
  refine ⟨P.hca, P.hcn, P.hcr, ?_, ?_, ?_⟩
  · rw [P.oa]; simp only [PlainObj.lst]
    cases P.A <;> simp
  · rw [P.on]; simp only [PlainObj.lst]
    cases P.N <;> simp
  · rw [P.oR]; simp only [PlainObj.lst]
    cases P.R <;> simp

/-- a plain object's bytes are accepted by the parser, and the parser reports the section starts the
object holds -/
theorem still_accepted {pp : PP} (P : PlainObj pp) :
    ∃ v, parse pp.packet = .ok v ∧ v.offsetQuestion = pp.offsetQuestion ∧ v.offsetAnswers = pp.offsetAnswers ∧
      v.offsetNameservers = pp.offsetNameservers ∧ v.offsetAdditional = pp.offsetAdditional := by
  obtain ⟨v, hv⟩ := C02.wf_accepted _ P.wf
  have hv' := hv
  rw [P.bytes] at hv'
  obtain ⟨v1, v2, v3, v4⟩ := view_of_assembled P.hdr P.q4 P.qls P.A P.N P.R P.o2 P.o3 P.o4 P.hh P.hqd P.hgq P.hq4 P.hcl
    P.hA P.hN P.hR P.hca P.hcn P.hcr P.hqr hv'
  exact ⟨v, hv, by rw [v1, P.oq], by rw [v2, P.oa], by rw [v3, P.on], by rw [v4, P.oR]⟩

/-- **where plain objects come from**: decompressing (or `recompute`-ing) any accepted packet leaves a
plain object whose sections are the canonical forms of the packet's records — so the theorems above
are about every message the parser accepts -/
theorem plain_of_accepted {p : Bytes} {v : View} (h : parse p = .ok v) (pp0 : PP) :
    ∃ (L : C03.Layout p) (o : C05.Output p L) (v2 : View), uncompress p = .ok o.bytes ∧ parse o.bytes = .ok v2 ∧
      ∃ P : PlainObj (pp0.rebased o.bytes v2), P.lst .answer = o.pa ∧ P.lst .nameServers = o.pn ∧ P.lst .additional = o.pr := by
  obtain ⟨L, o, hu⟩ := C05.decompress_ok h
  obtain ⟨v2, h2⟩ := C05.decompressed_accepted h hu
  obtain ⟨P, e1, e2, e3, _⟩ := plainObj_of_output h o h2 pp0
  exact ⟨L, o, v2, hu, h2, P, e1, e2, e3⟩

/-- **the first deletion on a freshly parsed object** (pointers or not): through a cursor on record `r`
of a record section, `delete` decompresses, carries the cursor to the record's canonical form and
removes exactly it: the result is the plain object of the canonical pieces of all other records, in
order, the cursor is void, question and other header fields are those of the input -/
theorem first_delete {p : Bytes} {v : View} (h : parse p = .ok v) (L : C03.Layout p) (o : C05.Output p L)
    (sec : Section) (hs : sec.isRec = true) {l1 l2 : List RecPos} {r : RecPos} {ps1 ps2 : List Bytes} {pc : Bytes}
    (hl : L.recs sec = l1 ++ r :: l2) (hp : o.pieces sec = ps1 ++ pc :: ps2) (hlen : l1.length = ps1.length)
    (c : Cursor) (hsec : c.sec = sec) (hoff : c.offset = some r.off) :
    ∃ (pp' : PP) (P' : PlainObj pp') (c' : Cursor),
      deleteRR (PP.ofView p v) c = .ok { pp := pp', cur := c', result := none } ∧ c'.offset = none ∧ c'.sec = sec ∧
      P'.lst sec = ps1 ++ ps2 ∧ (∀ s, s ≠ sec → P'.lst s = o.pieces s) ∧
      o.qc = (encLabels P'.qls ++ [0]) ++ P'.q4 ∧
      (∀ k, (k + 1 < sectionCountOffset sec ∨ sectionCountOffset sec + 1 < k) → get16 P'.hdr k = get16 (p.take 12) k) :=
  delete_fresh (fresh_ofView h) L o sec hs hl hp hlen c hsec hoff

/-- **C11 for a freshly parsed packet** (compressed or not), a record section, the public walk and any
stream of choices: the walk-and-delete run terminates without error or panic; there is a run `r` of
the abstract machine over the numbered canonical forms of the section's records with the same
keep/delete decisions at every yield; if nothing was deleted the object is untouched; otherwise the
result is the plain object whose section holds exactly what the machine left (survivors in original
order, deleted ones gone for good, every survivor yielded), the other sections holding the canonical
forms of their records, question and other header fields as in the input -/
theorem walk_delete_parsed {p : Bytes} {v : View} (h : parse p = .ok v) (L : C03.Layout p) (o : C05.Output p L)
    (sec : Section) (hs : sec.isRec = true) (step : PP → Cursor → Res (Option Cursor))
    (hstep : step = nextIncludingOpt ∨ (step = nextSkippingOpt ∧ sec ≠ .additional))
    (choose : Nat → Bool) (c : Cursor) (hc : c.sec = sec) (hv : c.offset = none) :
    ∃ (pp' : PP) (log : List (Bytes × Bool)) (r : List (Bytes × Nat) × List ((Bytes × Nat) × Bool)),
      absWalk choose (fuelFor (o.pieces sec).length) 0 (numbered (o.pieces sec)) 0 = some r ∧
      delWalk step choose (fuelFor (o.pieces sec).length) 0 (PP.ofView p v) c = .ok (pp', log) ∧
      log.map (·.2) = r.2.map (·.2) ∧
      r.1.Sublist (numbered (o.pieces sec)) ∧
      (((r.2.filter (·.2)).map (·.1)) ++ r.1).Perm (numbered (o.pieces sec)) ∧
      (∀ l1 l2 a, r.2 = l1 ++ (a, true) :: l2 → a ∉ l2.map (·.1) ∧ a ∉ r.1) ∧
      (∀ a ∈ r.1, (a, false) ∈ r.2) ∧
      ((pp' = PP.ofView p v ∧ r.1 = numbered (o.pieces sec)) ∨
       (∃ P' : PlainObj pp', P'.lst sec = r.1.map (·.1) ∧ (∀ s, s ≠ sec → P'.lst s = o.pieces s) ∧
          o.qc = (encLabels P'.qls ++ [0]) ++ P'.q4 ∧
          (∀ i, (i + 1 < sectionCountOffset sec ∨ sectionCountOffset sec + 1 < i) → get16 P'.hdr i = get16 (p.take 12) i))) := by
  have hlen : (numbered (o.pieces sec)).length = (o.pieces sec).length := by simp [numbered]
  have hterm := absWalk_terminates choose (fuelFor (o.pieces sec).length) 0 (numbered (o.pieces sec)) 0
    (by rw [hlen]; unfold fuelFor; omega)
  obtain ⟨r, hr⟩ := Option.isSome_iff_exists.1 hterm
  have hmap := absWalk_map Prod.fst choose (fuelFor (o.pieces sec).length) 0 (numbered (o.pieces sec)) 0
  have hfst : (numbered (o.pieces sec)).map Prod.fst = o.pieces sec := by simp [numbered]
  rw [hfst, hr] at hmap
  simp only [Option.map_some] at hmap
  obtain ⟨pp', log, hw, hl, hres⟩ := delWalk_fresh_refines (fresh_ofView h) L o sec hs step hstep choose _ 0 c 0
    ⟨hc, Or.inl ⟨hv, rfl⟩⟩ _ hmap
  obtain ⟨s1, _⟩ := absWalk_sublist choose _ _ _ _ _ hr
  have hperm := absWalk_perm choose _ _ _ _ _ hr
  refine ⟨pp', log, r, hr, hw, by rw [hl]; simp, s1, hperm,
    absWalk_deleted_gone choose _ _ _ _ _ (numbered_nodup _) hr, ?_, ?_⟩
  · intro a ha
    rcases absWalk_yields_survivors choose _ _ _ _ _ hr a ha with h0 | h1
    · simp at h0
    · exact h1
  · rcases hres with ⟨h1, h2, h3⟩ | ⟨P', f1, f2, f3, f4⟩
    · left
      refine ⟨h1, ?_⟩
      -- nothing deleted: the machine left everything
      have hnone : (r.2.filter (·.2)) = [] := by
        apply List.filter_eq_nil_iff.2
        intro e he
        have : ((e.1.1, e.2) : Bytes × Bool) ∈ r.2.map (fun e => (e.1.1, e.2)) := List.mem_map.2 ⟨e, he, rfl⟩
        have := h3 _ this
        simpa using this
      rw [hnone] at hperm
      simp only [List.map_nil, List.nil_append] at hperm
      exact s1.eq_of_length_le (by rw [hperm.length_eq]; exact Nat.le_refl _)
    · exact Or.inr ⟨P', f1, f2, f3, f4⟩

/-- **C11 for the public walk over the additional section** (`next()`, which skips the OPT record) of a
plain object that may hold an OPT record: the run terminates; the walker sees exactly the records
other than OPT (`vis`) and does on them what the abstract machine does; afterwards the visible records
are exactly what the machine left, the OPT record is where it was, everything else is untouched -/
theorem walk_delete_skipping_opt {pp : PP} (P : PlainObj pp) (choose : Nat → Bool) (c : Cursor)
    (hc : c.sec = .additional) (hv : c.offset = none) :
    ∃ (pp' : PP) (P' : PlainObj pp') (r : List (Bytes × Nat) × List ((Bytes × Nat) × Bool)),
      absWalk choose (fuelFor (vis (P.lst .additional)).length) 0 (numbered (vis (P.lst .additional))) 0 = some r ∧
      delWalk nextSkippingOpt choose (fuelFor (vis (P.lst .additional)).length) 0 pp c = .ok (pp', r.2.map (fun e => (e.1.1, e.2))) ∧
      vis (P'.lst .additional) = r.1.map (·.1) ∧
      (P'.lst .additional).filter isOptPiece = (P.lst .additional).filter isOptPiece ∧
      r.1.Sublist (numbered (vis (P.lst .additional))) ∧
      (((r.2.filter (·.2)).map (·.1)) ++ r.1).Perm (numbered (vis (P.lst .additional))) ∧
      (∀ l1 l2 a, r.2 = l1 ++ (a, true) :: l2 → a ∉ l2.map (·.1) ∧ a ∉ r.1) ∧
      (∀ a ∈ r.1, (a, false) ∈ r.2) ∧
      (∀ s, s ≠ .additional → P'.lst s = P.lst s) ∧ P'.qls = P.qls ∧ P'.q4 = P.q4 ∧
      (∀ i, (i + 1 < 10 ∨ 11 < i) → get16 P'.hdr i = get16 P.hdr i) := by
  have hlen : (numbered (vis (P.lst .additional))).length = (vis (P.lst .additional)).length := by simp [numbered]
  have hterm := absWalk_terminates choose (fuelFor (vis (P.lst .additional)).length) 0 (numbered (vis (P.lst .additional))) 0
    (by rw [hlen]; unfold fuelFor; omega)
  obtain ⟨r, hr⟩ := Option.isSome_iff_exists.1 hterm
  have hmap := absWalk_map Prod.fst choose (fuelFor (vis (P.lst .additional)).length) 0 (numbered (vis (P.lst .additional))) 0
  have hfst : (numbered (vis (P.lst .additional))).map Prod.fst = vis (P.lst .additional) := by simp [numbered]
  rw [hfst, hr] at hmap
  simp only [Option.map_some] at hmap
  have h0 : (vis ((P.lst .additional).take 0)).length = 0 := by simp [vis]
  rw [← h0] at hmap
  obtain ⟨pp', P', hw, f1, f2, f3, f4, f5, f6⟩ := delWalkSkip_refines choose _ 0 pp P c 0 ⟨hc, Or.inl ⟨hv, rfl⟩⟩ _ hmap
  obtain ⟨s1, _⟩ := absWalk_sublist choose _ _ _ _ _ hr
  refine ⟨pp', P', r, hr, hw, f1, f2, s1, absWalk_perm choose _ _ _ _ _ hr,
    absWalk_deleted_gone choose _ _ _ _ _ (numbered_nodup _) hr, ?_, f3, f4, f5, f6⟩
  intro a ha
  rcases absWalk_yields_survivors choose _ _ _ _ _ hr a ha with h0 | h1
  · simp at h0
  · exact h1

/-- an accepted packet has at most one OPT record: the canonical piece after the OPT piece is not one -/
theorem opt_once {p : Bytes} {v : View} (h : parse p = .ok v) (L : C03.Layout p) (o : C05.Output p L) :
    ∀ j (hj : j < (o.pieces .additional).length), isOptPiece (o.pieces .additional)[j] = true →
      ∀ (hj1 : j + 1 < (o.pieces .additional).length), isOptPiece (o.pieces .additional)[j + 1] = false := by
  obtain ⟨v2, h2⟩ := C02.wf_accepted _ (C05.output_layout h o).1
  obtain ⟨P, _, _, e3, _⟩ := plainObj_of_output h o h2 (PP.ofView p v)
  intro j hj hopt hj1
  have e : P.R = o.pieces .additional := e3
  have := (others_visible P (by rw [e]; exact split_at (o.pieces .additional) j hj) hopt).2
  apply this
  have e' : ((o.pieces .additional).drop (j + 1))[0]'(by simp; omega) = (o.pieces .additional)[j + 1] := by simp
  rw [← e']
  exact List.getElem_mem _

/-- **C11 for the public `next()` walk over the additional section of a freshly parsed packet**
(compressed or not, with or without an OPT record) and any stream of choices: the run terminates
without error or panic; there is a run `r` of the abstract machine over the numbered canonical forms
of the records other than OPT with the same keep/delete decisions at every yield; if nothing was
deleted the object is untouched; otherwise the result is a plain object whose visible additional
records are exactly what the machine left (survivors in original order, deleted ones gone for good,
every survivor yielded), the OPT piece is where it was, the other sections hold the canonical forms
of their records, question and other header fields are those of the input -/
theorem walk_delete_parsed_skipping_opt {p : Bytes} {v : View} (h : parse p = .ok v) (L : C03.Layout p) (o : C05.Output p L)
    (choose : Nat → Bool) (c : Cursor) (hc : c.sec = .additional) (hv : c.offset = none) :
    ∃ (pp' : PP) (log : List (Bytes × Bool)) (r : List (Bytes × Nat) × List ((Bytes × Nat) × Bool)),
      absWalk choose (fuelFor (vis (o.pieces .additional)).length) 0 (numbered (vis (o.pieces .additional))) 0 = some r ∧
      delWalk nextSkippingOpt choose (fuelFor (vis (o.pieces .additional)).length) 0 (PP.ofView p v) c = .ok (pp', log) ∧
      log.map (·.2) = r.2.map (·.2) ∧
      r.1.Sublist (numbered (vis (o.pieces .additional))) ∧
      (((r.2.filter (·.2)).map (·.1)) ++ r.1).Perm (numbered (vis (o.pieces .additional))) ∧
      (∀ l1 l2 a, r.2 = l1 ++ (a, true) :: l2 → a ∉ l2.map (·.1) ∧ a ∉ r.1) ∧
      (∀ a ∈ r.1, (a, false) ∈ r.2) ∧
      ((pp' = PP.ofView p v ∧ r.1 = numbered (vis (o.pieces .additional))) ∨
       (∃ P' : PlainObj pp', vis (P'.lst .additional) = r.1.map (·.1) ∧
          (P'.lst .additional).filter isOptPiece = (o.pieces .additional).filter isOptPiece ∧
          (∀ s, s ≠ .additional → P'.lst s = o.pieces s) ∧
          o.qc = (encLabels P'.qls ++ [0]) ++ P'.q4 ∧
          (∀ i, (i + 1 < 10 ∨ 11 < i) → get16 P'.hdr i = get16 (p.take 12) i))) := by
  have hlen : (numbered (vis (o.pieces .additional))).length = (vis (o.pieces .additional)).length := by simp [numbered]
  have hterm := absWalk_terminates choose (fuelFor (vis (o.pieces .additional)).length) 0 (numbered (vis (o.pieces .additional))) 0
    (by rw [hlen]; unfold fuelFor; omega)
  obtain ⟨r, hr⟩ := Option.isSome_iff_exists.1 hterm
  have hmap := absWalk_map Prod.fst choose (fuelFor (vis (o.pieces .additional)).length) 0 (numbered (vis (o.pieces .additional))) 0
  have hfst : (numbered (vis (o.pieces .additional))).map Prod.fst = vis (o.pieces .additional) := by simp [numbered]
  rw [hfst, hr] at hmap
  simp only [Option.map_some] at hmap
  have h0 : (vis ((o.pieces .additional).take 0)).length = 0 := by simp [vis]
  rw [← h0] at hmap
  obtain ⟨pp', log, hw, hl, hres⟩ := delWalkSkip_fresh_refines (fresh_ofView h) L o (opt_once h L o) choose _ 0 c 0
    ⟨hc, Or.inl ⟨hv, rfl⟩⟩ _ hmap
  obtain ⟨s1, _⟩ := absWalk_sublist choose _ _ _ _ _ hr
  have hperm := absWalk_perm choose _ _ _ _ _ hr
  refine ⟨pp', log, r, hr, hw, by rw [hl]; simp, s1, hperm,
    absWalk_deleted_gone choose _ _ _ _ _ (numbered_nodup _) hr, ?_, ?_⟩
  · intro a ha
    rcases absWalk_yields_survivors choose _ _ _ _ _ hr a ha with h0 | h1
    · simp at h0
    · exact h1
  · rcases hres with ⟨h1, h2, h3⟩ | ⟨P', f1, f2, f3, f4, f5⟩
    · left
      refine ⟨h1, ?_⟩
      have hnone : (r.2.filter (·.2)) = [] := by
        apply List.filter_eq_nil_iff.2
        intro e he
        have : ((e.1.1, e.2) : Bytes × Bool) ∈ r.2.map (fun e => (e.1.1, e.2)) := List.mem_map.2 ⟨e, he, rfl⟩
        have := h3 _ this
        simpa using this
      rw [hnone] at hperm
      simp only [List.map_nil, List.nil_append] at hperm
      exact s1.eq_of_length_le (by rw [hperm.length_eq]; exact Nat.le_refl _)
    · exact Or.inr ⟨P', f1, f2, f3, f4, f5⟩

/-- the hypotheses are satisfiable and the machine does what one expects on a small case:
three records, the first and the third chosen -/
example : absWalk (fun k => k == 0 || k == 2) (fuelFor 3) 0 [10, 20, 30] 0 =
    some ([20], [(10, true), (20, false), (30, true), (20, false)]) := by decide


/-! ### Tie to the current source text: the record-count bookkeeping every insertion and deletion goes through
(`rrcount_inc`, `rrcount_dec`, `insertion_offset` of parsed_packet.rs with the `set_*count` writers of dns_sector.rs,
re-translated on every run: `Generated/TrCounts.lean`, `Tie/Counts.lean`) -/
theorem source_counts_tie (pp : PP) (s : Section) :
    (Tr.Counts.rrcount_inc pp.packet s >>= fun r => Res.ok r.2) = (rrcountInc pp s >>= Tie.incResult) ∧
    Tr.Counts.rrcount_dec pp.packet s = (rrcountDec pp s >>= fun r => Res.ok (r.2, r.1.packet)) ∧
    Tr.Counts.insertion_offset pp.packet pp.offsetAnswers pp.offsetNameservers pp.offsetAdditional s
      = insertionOffset pp s :=
  ⟨Tie.rrcount_inc_eq pp s, Tie.rrcount_dec_eq pp s, Tie.insertion_offset_eq pp s⟩

end Dns.C11
