/-
  C08 — A mutated packet object always matches a fresh parse of its own bytes.

  `Consistent pp` is the invariant: the object is a plain object (`PlainObj`: header, question, three
  lists of canonical record pieces, with the section starts and counts that follow from them, flag
  "may contain pointers" cleared), its question cache is empty or holds the question, and its EDNS
  summary is the one its additional pieces determine (`EdnsOK`, Lemmas/EdnsPieces.lean).
  * `consistent_view`: a consistent object's bytes are accepted by the parser, which reports exactly
    the section starts the object holds and exactly its EDNS summary (position and count of options,
    extended rcode, version, flags, payload size); the header counts are the numbers of records; a
    section start is absent exactly when the section is empty; the bytes are pointer-free (so the
    cleared flag is justified); reading the question through the cache gives what a cache-less read
    gives.
  * every successful operation keeps the invariant: `after_decompression` / `recompute_consistent`
    (what `recompute`, and the first `set_raw_name` / `delete`, make of any accepted packet),
    `iter_uncompress_consistent` (in-place decompression through an iterator), `first_touch_consistent`,
    `insert_*_consistent`, `delete_consistent` (deleting the OPT record clears the summary),
    `set_ttl_consistent`, `set_ip_consistent`, `set_name_consistent`, `header_consistent`; by
    chaining, any sequence of them does.  `rename_fresh`: a successful object-level rename leaves
    exactly the view of a fresh parse (flag set, as after `parse`).
  * `set_name_consistent` also states the cursor clause: after `set_raw_name` the cursor still
    designates the record (same start, the new name end, the new end) and `next` yields the record
    that followed, or the end of the section.

  Excluded by hypothesis (known findings, by design): question insertion/deletion (KF1, KF4), the OPT
  record as the target of set-name / set-TTL (KF5), clearing QR with answers present (KF3); setters
  on a still-compressed object (KF2) are covered by the script correspondence and the view oracle only.  The chaining over operation sequences is not
  itself a Lean statement.
-/
import DnsModel.Theorems.C09
import DnsModel.Theorems.C06
import DnsModel.Theorems.C11
import DnsModel.Lemmas.EdnsOps
namespace Dns.C08
open Dns Res

/-- the question a plain object holds, as the cache stores it -/
def questionOf {pp : PP} (P : PlainObj pp) : Bytes × Nat × Nat := (encLabels P.qls ++ [0], get16 P.q4 0, get16 P.q4 2)

/-- **the invariant** -/
def Consistent (pp : PP) : Prop := ∃ P : PlainObj pp, (pp.cached = none ∨ pp.cached = some (questionOf P)) ∧ EdnsOK P

theorem PlainObj.pointerFree {pp : PP} (P : PlainObj pp) : ∃ L : C03.Layout pp.packet, C06.PointerFree pp.packet L := by
  rw [P.bytes]
  obtain ⟨_, L, hqe, hvq, _, _, _, _, _, _, _, _, _, _, _, hself⟩ :=
    assemble P.hdr P.q4 P.qls P.A P.N P.R P.o2 P.o3 P.o4 P.hh P.hqd P.hgq P.hq4 P.hcl P.hA P.hN P.hR P.hca P.hcn P.hcr P.hqr
  refine ⟨L, ⟨P.qls, ?_, by rw [hqe]; omega⟩, ?_⟩
  · have := plainAt_of_eq (u := P.hdr ++ ((encLabels P.qls ++ [0]) ++ P.q4) ++ P.A.flatten ++ P.N.flatten ++ P.R.flatten)
      (A := P.hdr) (B := P.q4 ++ P.A.flatten ++ P.N.flatten ++ P.R.flatten) (ls := P.qls) (by simp) P.hgq.1 P.hgq.2.1 P.hgq.2.2
    rw [P.hh] at this
    exact this
  · intro r hr
    have hs := hself r hr
    simp only [List.mem_append] at hr
    rcases hr with (hr | hr) | hr
    · obtain ⟨ob, oa, hpos⟩ := L.ha.mem_pos r hr
      exact plainRec_of_selfCanon hpos hs
    · obtain ⟨ob, oa, hpos⟩ := L.hn.mem_pos r hr
      exact plainRec_of_selfCanon hpos hs
    · obtain ⟨ob, oa, hpos⟩ := L.hr.mem_pos r hr
      exact plainRec_of_selfCanon hpos hs

/-- reading the question of a plain object whose cache is empty: the question it holds, now cached -/
theorem question_read {pp : PP} (P : PlainObj pp) (hc : pp.cached = none) :
    questionRaw0 pp = .ok (some (questionOf P), { pp with cached := some (questionOf P) }) := by
  have hl := P.len
  have hv : ValidName pp.packet 12 P.qls (12 + labSum P.qls + 1) := by
    have := validName_at (u := pp.packet) (A := P.hdr) (B := P.q4 ++ P.A.flatten ++ P.N.flatten ++ P.R.flatten) (ls := P.qls)
      (by rw [P.bytes]; simp) P.hgq.1 P.hgq.2.1 P.hgq.2.2
    rw [P.hh] at this
    exact this
  have hcopy := copyUncompressedName_valid hv
  have e : pp.packet = (P.hdr ++ (encLabels P.qls ++ [0])) ++ P.q4 ++ (P.A.flatten ++ P.N.flatten ++ P.R.flatten) := by
    rw [P.bytes]; simp
  have hal : (P.hdr ++ (encLabels P.qls ++ [0])).length = 12 + labSum P.qls + 1 := by
    simp only [List.length_append, P.hh, encLabels_length, List.length_cons, List.length_nil]; omega
  have hag : Agree P.q4 pp.packet 0 (12 + labSum P.qls + 1) 4 := by
    have := agree_of_append P.q4 (P.hdr ++ (encLabels P.qls ++ [0])) (P.A.flatten ++ P.N.flatten ++ P.R.flatten) 0 4 (by rw [P.hq4]; omega)
    have hq : (P.q4.drop 0).take 4 = P.q4 := by simp [List.take_of_length_le (Nat.le_of_eq P.hq4)]
    rw [hq, ← e, hal] at this
    exact this
  have g0 : get16 pp.packet (12 + labSum P.qls + 1) = get16 P.q4 0 := by
    have := hag.get16 (i := 0) (by omega); simpa using this
  have g2 : get16 pp.packet (12 + labSum P.qls + 1 + 2) = get16 P.q4 2 := by
    have := hag.get16 (i := 2) (by omega); simpa using this
  have ht : be16 pp.packet (12 + labSum P.qls + 1) = .ok (get16 P.q4 0) := by
    rw [(be16_ok_of_le (p := pp.packet) (i := 12 + labSum P.qls + 1) (by omega)).1, g0]
  have hcl : be16 pp.packet (12 + labSum P.qls + 1 + 2) = .ok (get16 P.q4 2) := by
    rw [(be16_ok_of_le (p := pp.packet) (i := 12 + labSum P.qls + 1 + 2) (by omega)).1, g2]
  have hsl : sliceFrom pp.packet (12 + labSum P.qls + 1) = .ok (pp.packet.drop (12 + labSum P.qls + 1)) := by
    simp [sliceFrom]; omega
  simp [questionRaw0, hc, P.oq, hcopy, hsl, DNS_RR_TYPE_OFFSET, DNS_RR_CLASS_OFFSET, ht, hcl, questionOf]

/-- **a consistent object matches a fresh parse of its bytes** -/
theorem consistent_view {pp : PP} (h : Consistent pp) :
    (∃ v, parse pp.packet = .ok v ∧ v.offsetQuestion = pp.offsetQuestion ∧ v.offsetAnswers = pp.offsetAnswers ∧
      v.offsetNameservers = pp.offsetNameservers ∧ v.offsetAdditional = pp.offsetAdditional) ∧
    (∀ v, parse pp.packet = .ok v → pp.offsetEdns = v.offsetEdns ∧ pp.ednsCount = v.ednsCount ∧ pp.extRcode = v.extRcode ∧
      pp.ednsVersion = v.ednsVersion ∧ pp.extFlags = v.extFlags ∧ pp.maxPayload = v.maxPayload) ∧
    pp.maybeCompressed = false ∧ (∃ L : C03.Layout pp.packet, C06.PointerFree pp.packet L) ∧
    (∃ q pp1 pp2, questionRaw0 pp = .ok (some q, pp1) ∧ questionRaw0 { pp with cached := none } = .ok (some q, pp2)) := by
  obtain ⟨P, hc, he⟩ := h
  refine ⟨C11.still_accepted P, fun v hv => he.matches_parse hv, P.mc, PlainObj.pointerFree P, ?_⟩
  let P0 : PlainObj { pp with cached := none } :=
    ⟨P.hdr, P.q4, P.qls, P.A, P.N, P.R, P.o2, P.o3, P.o4, P.hh, P.hqd, P.hgq, P.hq4, P.hcl, P.hA, P.hN, P.hR, P.hca, P.hcn, P.hcr,
      P.hqr, P.bytes, P.oq, P.oa, P.on, P.oR, P.mc⟩
  have hfresh : questionRaw0 { pp with cached := none } = .ok (some (questionOf P), _) := question_read P0 rfl
  rcases hc with hc | hc
  · exact ⟨_, _, _, question_read P hc, hfresh⟩
  · refine ⟨questionOf P, pp, _, ?_, hfresh⟩
    simp [questionRaw0, hc]

/-- counts and presence (restated from C11) -/
theorem consistent_counts {pp : PP} (h : Consistent pp) :
    ∃ P : PlainObj pp, get16 (pp.packet.take 12) 6 = (P.lst .answer).length ∧ get16 (pp.packet.take 12) 8 = (P.lst .nameServers).length ∧
      get16 (pp.packet.take 12) 10 = (P.lst .additional).length ∧
      (pp.offsetAnswers = none ↔ P.lst .answer = []) ∧ (pp.offsetNameservers = none ↔ P.lst .nameServers = []) ∧
      (pp.offsetAdditional = none ↔ P.lst .additional = []) := by
  obtain ⟨P, _, _⟩ := h
  exact ⟨P, C11.emptied_absent P⟩

/-- the EDNS summary of the decompressed bytes is that of the input, up to the position -/
theorem edns_fields_carried {pp : PP} {p : Bytes} {v v2 : View} (F : Fresh pp p v) (hmp : pp.maxPayload = v.maxPayload)
    {L : C03.Layout p} (o : C05.Output p L) (h2 : parse o.bytes = .ok v2) :
    pp.ednsCount = v2.ednsCount ∧ pp.extRcode = v2.extRcode ∧ pp.ednsVersion = v2.ednsVersion ∧ pp.extFlags = v2.extFlags ∧
      pp.maxPayload = v2.maxPayload := by
  have hcore := edns_preserved F.hp o h2
  unfold EdnsInfo.core View.info at hcore
  simp only [Prod.mk.injEq] at hcore
  obtain ⟨c1, c2, c3, c4, c5⟩ := hcore
  exact ⟨by rw [c1]; exact F.e1, by rw [c2]; exact F.e2, by rw [c3]; exact F.e3, by rw [c4]; exact F.e4, by rw [c5]; exact hmp⟩

/-- what decompression / `recompute` leaves of any accepted packet is consistent -/
theorem after_decompression {pp0 : PP} {p : Bytes} {v : View} (F : Fresh pp0 p v) (hmp : pp0.maxPayload = v.maxPayload) :
    ∃ (L : C03.Layout p) (o : C05.Output p L) (v2 : View), uncompress p = .ok o.bytes ∧ parse o.bytes = .ok v2 ∧
      Consistent (pp0.rebased o.bytes v2) := by
  obtain ⟨L, o, v2, hu, h2, P, _⟩ := C11.plain_of_accepted F.hp pp0
  obtain ⟨e1, e2, e3, e4, e5⟩ := edns_fields_carried F hmp o h2
  exact ⟨L, o, v2, hu, h2, P, Or.inl rfl, ednsOK_rebased P h2 e1 e2 e3 e4 e5⟩

/-- an operation that changes only the bytes and the section starts, and keeps the question, keeps the cache right -/
theorem consistent_of_same_question {pp pp' : PP} (P : PlainObj pp) (P' : PlainObj pp') (hq : P'.qls = P.qls) (hq4 : P'.q4 = P.q4)
    (hc : pp'.cached = pp.cached ∨ pp'.cached = none) (h : pp.cached = none ∨ pp.cached = some (questionOf P))
    (he : EdnsOK P') : Consistent pp' := by
  refine ⟨P', ?_, he⟩
  have e : questionOf P' = questionOf P := by unfold questionOf; rw [hq, hq4]
  rcases hc with hc | hc
  · rw [hc, e]; exact h
  · exact Or.inl hc

/-- **insert** keeps the invariant -/
theorem insert_answer_consistent {pp : PP} (P : PlainObj pp) (hc : pp.cached = none ∨ pp.cached = some (questionOf P)) (he : EdnsOK P)
    (rr : Bytes) (hpc : PieceOK .answer rr P.o2 P.o2) (hsize : pp.packet.length + rr.length ≤ 8192) (hcount : P.A.length < 65535)
    (hqr : get16 P.hdr 2 / 32768 % 2 = 1) :
    ∃ pp', insertRR pp .answer rr = .ok (pp', none) ∧ Consistent pp' := by
  obtain ⟨pp', P', hrun, hA, hN, hR, hq, hq4, _, hfr⟩ := insert_answer P rr hpc hsize hcount hqr
  have hst : P'.start .additional = P.start .additional + rr.length := by
    simp only [start_additional, hq, hA, hN]; simp; omega
  exact ⟨pp', hrun, consistent_of_same_question P P' hq hq4 (Or.inl (by rw [hfr])) hc (ednsOK_insert_before P P' he rr.length hR hst hfr)⟩

theorem insert_authority_consistent {pp : PP} (P : PlainObj pp) (hc : pp.cached = none ∨ pp.cached = some (questionOf P)) (he : EdnsOK P)
    (rr : Bytes) (hpc : PieceOK .nameServers rr P.o3 P.o3) (hsize : pp.packet.length + rr.length ≤ 8192) (hcount : P.N.length < 65535)
    (hqr : get16 P.hdr 2 / 32768 % 2 = 1) :
    ∃ pp', insertRR pp .nameServers rr = .ok (pp', none) ∧ Consistent pp' := by
  obtain ⟨pp', P', hrun, hA, hN, hR, hq, hq4, _, hfr⟩ := insert_authority P rr hpc hsize hcount hqr
  have hst : P'.start .additional = P.start .additional + rr.length := by
    simp only [start_additional, hq, hA, hN]; simp; omega
  exact ⟨pp', hrun, consistent_of_same_question P P' hq hq4 (Or.inl (by rw [hfr])) hc (ednsOK_insert_before P P' he rr.length hR hst hfr)⟩

theorem insert_additional_consistent {pp : PP} (P : PlainObj pp) (hc : pp.cached = none ∨ pp.cached = some (questionOf P)) (he : EdnsOK P)
    (rr : Bytes) (hpc : PieceOK .additional rr P.o4 P.o4) (hsize : pp.packet.length + rr.length ≤ 8192) (hcount : P.R.length < 65535) :
    ∃ pp', insertRR pp .additional rr = .ok (pp', none) ∧ Consistent pp' := by
  obtain ⟨pp', P', hrun, hA, hN, hR, hq, hq4, _, hfr⟩ := insert_additional P rr hpc hsize hcount
  have hst : P'.start .additional = P.start .additional := by
    simp only [start_additional, hq, hA, hN]
  exact ⟨pp', hrun, consistent_of_same_question P P' hq hq4 (Or.inl (by rw [hfr])) hc
    (ednsOK_insert_additional P P' he rr (noopt_of_pieceOK hpc) hR hst hfr)⟩

/-- **delete** keeps the invariant (and empties the cache; deleting the OPT record clears the summary) -/
theorem delete_consistent {pp : PP} (P : PlainObj pp) (he : EdnsOK P) (sec : Section) (hs : sec.isRec = true) {ps1 ps2 : List Bytes} {rc : Bytes}
    (hsplit : P.lst sec = ps1 ++ rc :: ps2) (c : Cursor) {ne : Nat} {ob oa : Bool}
    (hr : RRAtPos pp.packet sec ⟨P.start sec + ps1.flatten.length, ne, P.start sec + ps1.flatten.length + rc.length⟩ ob oa)
    (hoff : c.offset = some (P.start sec + ps1.flatten.length))
    (hnext : c.offsetNext = P.start sec + ps1.flatten.length + rc.length) (hne : c.nameEnd = ne) :
    ∃ st, deleteRR pp c = .ok st ∧ st.result = none ∧ Consistent st.pp ∧ st.cur.offset = none ∧ st.cur.sec = c.sec := by
  obtain ⟨pp', P', hdel, f1, f2, f3, _, _, g1, g2, hcache⟩ := P.delete_at sec hs hsplit c hr hoff hnext hne
  obtain ⟨hiff, hsec⟩ := isOpt_iff_type P sec hs hsplit hr
  refine ⟨_, hdel, rfl, ⟨P', Or.inl hcache, ?_⟩, rfl, rfl⟩
  by_cases h41 : get16 pp.packet ne = 41
  · obtain ⟨k1, k2, k3, k4, k5, k6⟩ := g2 h41
    have hadd := hsec h41
    subst hadd
    have f1' : P'.R = ps1 ++ ps2 := f1
    refine ednsOK_remove_opt P P' hsplit (hiff.2 h41) f1' ?_
    unfold PP.ednsInfo EdnsInfo.none
    rw [k1, k2, k3, k4, k5, k6]
  · obtain ⟨k1, k2, k3, k4, k5, k6⟩ := g1 h41
    have hn : isOptPiece rc = false := by
      cases h : isOptPiece rc with
      | false => rfl
      | true => exact absurd (hiff.1 h) h41
    refine ednsOK_remove P P' he sec hs hsplit hn f1 f2 f3 ?_
    apply ednsInfo_moved pp pp' _ _ k1 k2 k3 k4 k5
    rw [k6, hoff, map_if_optLt]
    congr 1
    funext x
    rw [shiftNat_neg']

/-- **set_rr_ttl** keeps the invariant -/
theorem set_ttl_consistent {pp : PP} (P : PlainObj pp) (hc : pp.cached = none ∨ pp.cached = some (questionOf P)) (he : EdnsOK P)
    (sec : Section) (hs : sec.isRec = true) {ps1 ps2 : List Bytes} {rc : Bytes}
    (hsplit : P.lst sec = ps1 ++ rc :: ps2) (c : Cursor) {ne : Nat} {ob oa : Bool}
    (hr : RRAtPos pp.packet sec ⟨P.start sec + ps1.flatten.length, ne, P.start sec + ps1.flatten.length + rc.length⟩ ob oa)
    (hoff : c.offset = some (P.start sec + ps1.flatten.length)) (hne : c.nameEnd = ne) (h41 : get16 pp.packet ne ≠ 41) (ttl : Nat) :
    ∃ (owner : List (List UInt8)) (f8 rd : Bytes) (pp' : PP) (P' : PlainObj pp'),
      rc = (encLabels owner ++ [0]) ++ f8 ++ put16 rd.length ++ rd ∧ GoodLabels owner ∧ f8.length = 8 ∧
      setRrTtl pp c ttl = .ok pp' ∧ Consistent pp' ∧
      (pp'.cached = none ∨ pp'.cached = some (questionOf P')) ∧ EdnsOK P' ∧
      P'.lst sec = ps1 ++ ((encLabels owner ++ [0]) ++ (f8.take 4 ++ put32 ttl) ++ put16 rd.length ++ rd) :: ps2 ∧
      (∀ s, s ≠ sec → P'.lst s = P.lst s) ∧ P'.qls = P.qls := by
  obtain ⟨owner, f8, rd, pp', P', hrc, hf8, hrun, f1, f2, hq, hq4, _, hfr, hgo, ht⟩ := P.set_ttl sec hs hsplit c hr hoff hne h41 ttl
  suffices hE : EdnsOK P' by
    have hcons := consistent_of_same_question P P' hq hq4 (Or.inl (by rw [hfr])) hc hE
    have hc' : pp'.cached = none ∨ pp'.cached = some (questionOf P') := by
      have e : questionOf P' = questionOf P := by unfold questionOf; rw [hq, hq4]
      rw [e, hfr]; exact hc
    exact ⟨owner, f8, rd, pp', P', hrc, hgo, hf8, hrun, hcons, hc', hE, f1, f2, hq⟩
  have hn : isOptPiece rc = false := by
    rw [hrc]
    have := noopt_of_type owner f8 (put16 rd.length ++ rd) hgo hf8 ht
    simpa using this
  have hf8' : (f8.take 4 ++ put32 ttl).length = 8 := by simp [put32_length, hf8]
  have hty' : get16 (f8.take 4 ++ put32 ttl) 0 = get16 f8 0 := by
    rw [get16_append_left (by simp [hf8]), get16_take (by omega)]
  have hn' : isOptPiece ((encLabels owner ++ [0]) ++ (f8.take 4 ++ put32 ttl) ++ put16 rd.length ++ rd) = false := by
    have := noopt_of_type owner (f8.take 4 ++ put32 ttl) (put16 rd.length ++ rd) hgo hf8' (by rw [hty']; exact ht)
    simpa using this
  refine ednsOK_replace P P' he sec hs hsplit hn hn' f1 f2 hq ?_
  have hlen : ((encLabels owner ++ [0]) ++ (f8.take 4 ++ put32 ttl) ++ put16 rd.length ++ rd).length = rc.length := by
    rw [hrc]; simp [put32_length, hf8]; omega
  rw [hlen, moved_id (by intro x _; split <;> omega), hfr]
  rfl

/-- **set_rr_ip** keeps the invariant -/
theorem set_ip_consistent {pp : PP} (P : PlainObj pp) (hc : pp.cached = none ∨ pp.cached = some (questionOf P)) (he : EdnsOK P)
    (sec : Section) (hs : sec.isRec = true) {ps1 ps2 : List Bytes} {rc : Bytes}
    (hsplit : P.lst sec = ps1 ++ rc :: ps2) (c : Cursor) {ne : Nat} {ob oa : Bool}
    (hr : RRAtPos pp.packet sec ⟨P.start sec + ps1.flatten.length, ne, P.start sec + ps1.flatten.length + rc.length⟩ ob oa)
    (hoff : c.offset = some (P.start sec + ps1.flatten.length)) (hne : c.nameEnd = ne) (ip : Bytes)
    (hfam : (get16 pp.packet ne = 1 ∧ ip.length = 4) ∨ (get16 pp.packet ne = 28 ∧ ip.length = 16)) :
    ∃ (owner : List (List UInt8)) (f8 rd : Bytes) (pp' : PP) (P' : PlainObj pp'),
      rc = (encLabels owner ++ [0]) ++ f8 ++ put16 rd.length ++ rd ∧ GoodLabels owner ∧ f8.length = 8 ∧ rd.length = ip.length ∧
      setRrIp pp c ip = .ok (pp', none) ∧ Consistent pp' ∧
      (pp'.cached = none ∨ pp'.cached = some (questionOf P')) ∧ EdnsOK P' ∧
      P'.lst sec = ps1 ++ ((encLabels owner ++ [0]) ++ f8 ++ put16 rd.length ++ ip) :: ps2 ∧
      (∀ s, s ≠ sec → P'.lst s = P.lst s) ∧ P'.qls = P.qls := by
  obtain ⟨owner, f8, rd, pp', P', hrc, hf8, hrdl, hrun, f1, f2, hq, hq4, _, hfr, hgo, ht⟩ := P.set_ip sec hs hsplit c hr hoff hne ip hfam
  suffices hE : EdnsOK P' by
    have hcons := consistent_of_same_question P P' hq hq4 (Or.inl (by rw [hfr])) hc hE
    have hc' : pp'.cached = none ∨ pp'.cached = some (questionOf P') := by
      have e : questionOf P' = questionOf P := by unfold questionOf; rw [hq, hq4]
      rw [e, hfr]; exact hc
    exact ⟨owner, f8, rd, pp', P', hrc, hgo, hf8, hrdl, hrun, hcons, hc', hE, f1, f2, hq⟩
  have hn : isOptPiece rc = false := by
    rw [hrc]
    have := noopt_of_type owner f8 (put16 rd.length ++ rd) hgo hf8 ht
    simpa using this
  have hn' : isOptPiece ((encLabels owner ++ [0]) ++ f8 ++ put16 rd.length ++ ip) = false := by
    have := noopt_of_type owner f8 (put16 rd.length ++ ip) hgo hf8 ht
    simpa using this
  refine ednsOK_replace P P' he sec hs hsplit hn hn' f1 f2 hq ?_
  have hlen : ((encLabels owner ++ [0]) ++ f8 ++ put16 rd.length ++ ip).length = rc.length := by
    rw [hrc]; simp [hrdl]
  rw [hlen, moved_id (by intro x _; split <;> omega), hfr]
  rfl

theorem take_mid {α} (xs : List α) (y : α) (zs : List α) : (xs ++ y :: zs).take (xs.length + 1) = xs ++ [y] := by
  induction xs with
  | nil => simp
  | cons x xs ih => simp [ih]

/-- **set_raw_name** keeps the invariant; **the cursor still designates the record, and advancing it
yields the record that followed** (or the end of the section) -/
theorem set_name_consistent {pp : PP} (P : PlainObj pp) (he : EdnsOK P) (sec : Section) (hs : sec.isRec = true) {ps1 ps2 : List Bytes} {rc : Bytes}
    (hsplit : P.lst sec = ps1 ++ rc :: ps2) (c : Cursor) {ne : Nat} {ob oa : Bool}
    (hr : RRAtPos pp.packet sec ⟨P.start sec + ps1.flatten.length, ne, P.start sec + ps1.flatten.length + rc.length⟩ ob oa)
    (hoff : c.offset = some (P.start sec + ps1.flatten.length))
    (hnext : c.offsetNext = P.start sec + ps1.flatten.length + rc.length) (hne : c.nameEnd = ne) (hsec : c.sec = sec)
    (hleft : c.rrsLeft = ps2.length)
    (h41 : get16 pp.packet ne ≠ 41) (owner' : List (List UInt8)) (hgo' : GoodLabels owner')
    (hsize : ne - (P.start sec + ps1.flatten.length) < labSum owner' + 1 →
      pp.packet.length + (labSum owner' + 1) - (ne - (P.start sec + ps1.flatten.length)) ≤ 65535) :
    ∃ (pp' : PP) (c' : Cursor) (P' : PlainObj pp') (rc' : Bytes),
      setRawName pp c (encLabels owner' ++ [0]) = mOk pp' c' ∧ Consistent pp' ∧
      (pp'.cached = none ∨ pp'.cached = some (questionOf P')) ∧ EdnsOK P' ∧ (∀ s, s ≠ sec → P'.lst s = P.lst s) ∧ P'.qls = P.qls ∧
      (∃ rest, rc' = (encLabels owner' ++ [0]) ++ rest) ∧
      c'.nameEnd = P'.start sec + ps1.flatten.length + labSum owner' + 1 ∧ c'.sec = c.sec ∧ c'.rrsLeft = c.rrsLeft ∧
      P'.lst sec = ps1 ++ rc' :: ps2 ∧ c'.offset = c.offset ∧ c'.offsetNext = P'.start sec + ps1.flatten.length + rc'.length ∧
      (match ps2 with
       | [] => nextIncludingOpt pp' c' = .ok none
       | nx :: _ => ∃ c2, nextIncludingOpt pp' c' = .ok (some c2) ∧
           c2.offset = some (P'.start sec + (ps1 ++ [rc']).flatten.length) ∧ recBytes pp' c2 = nx) := by
  obtain ⟨owner, f8, rd, pp', P', hrc, hrun, f1, f2, f3, f4, f5, hcache, k1, k2, k3, k4, k5, k6, hgo, hf8, hlt, ht⟩ :=
    P.set_name sec hs hsplit c hr hoff hnext hne hsec h41 owner' hgo' hsize
  have hst : P'.start sec = P.start sec := P.start_congr P' sec f3 f2
  have hedns : EdnsOK P' := by
    have hn : isOptPiece rc = false := by
      rw [hrc]
      have := noopt_of_type owner f8 (put16 rd.length ++ rd) hgo hf8 ht
      simpa using this
    have hn' : isOptPiece ((encLabels owner' ++ [0]) ++ f8 ++ put16 rd.length ++ rd) = false := by
      have := noopt_of_type owner' f8 (put16 rd.length ++ rd) hgo' hf8 ht
      simpa using this
    refine ednsOK_replace P P' he sec hs hsplit hn hn' f1 f2 f3 ?_
    apply ednsInfo_moved pp pp' _ _ k1 k2 k3 k4 k5
    rw [k6, hoff, map_if_optLt]
  refine ⟨pp', _, P', _, hrun, ⟨P', Or.inl hcache, hedns⟩, Or.inl hcache, hedns, f2, f3, ⟨f8 ++ put16 rd.length ++ rd, by simp⟩,
    by simp [Cursor.movedTo, hst], rfl, rfl, f1, by simp [Cursor.movedTo, hoff], by simp [Cursor.movedTo, hst], ?_⟩
  have hcur : CurAt P' sec (ps1.length + 1)
      (c.movedTo (P.start sec + ps1.flatten.length) (P.start sec + ps1.flatten.length + labSum owner' + 1)
        (P.start sec + ps1.flatten.length + ((encLabels owner' ++ [0]) ++ f8 ++ put16 rd.length ++ rd).length)) := by
    refine ⟨by simp [Cursor.movedTo, hsec], Or.inr ⟨_, rfl, ?_, ?_, ?_⟩⟩
    · simp only [Cursor.movedTo, f1, hst, take_mid]
      simp; omega
    · simp only [Cursor.movedTo, f1, hleft]; simp; omega
    · rw [f1]; simp
  cases ps2 with
  | nil =>
    simp only
    apply next_none P' sec hs _ _ hcur
    rw [f1]; simp
  | cons nx rest =>
    simp only
    have hj : ps1.length + 1 < (P'.lst sec).length := by rw [f1]; simp
    obtain ⟨ne2, ob2, oa2, hr2, hnx⟩ := next_some P' sec hs _ _ hcur hj
    refine ⟨_, hnx, ?_, ?_⟩
    · simp only [f1, take_mid]
    · have hsplit2 : P'.lst sec = (ps1 ++ [(encLabels owner' ++ [0]) ++ f8 ++ put16 rd.length ++ rd]) ++ nx :: rest := by
        rw [f1]; simp
      have hw := P'.window sec hs hsplit2
      have e1 : (P'.lst sec).take (ps1.length + 1) = ps1 ++ [(encLabels owner' ++ [0]) ++ f8 ++ put16 rd.length ++ rd] := by
        rw [f1, take_mid]
      have e2 : (P'.lst sec)[ps1.length + 1] = nx := by
        simp [f1]
      simp only [recBytes, e1, e2]
      rw [Nat.add_sub_cancel_left]
      exact hw

/-- **header setters** keep the invariant while the response bit allows the records present -/
theorem header_consistent {pp : PP} (P : PlainObj pp) (hc : pp.cached = none ∨ pp.cached = some (questionOf P)) (he : EdnsOK P) (p' : Bytes)
    (hs : C12.sameExcept pp.packet p' 0 4) (hqr : get16 p' 2 / 32768 % 2 = 0 → P.A = [] ∧ P.N = []) :
    Consistent { pp with packet := p' } := by
  obtain ⟨P', hA, hN, hR, hq, hq4, _⟩ := P.header_set p' hs hqr
  have hst : P'.start .additional = P.start .additional := by simp only [start_additional, hq, hA, hN]
  exact consistent_of_same_question P P' hq hq4 (Or.inl rfl) hc (ednsOK_same P P' he hR hst rfl)

/-- **rename at object level**: when it succeeds, the object is exactly what a fresh parse of the new
bytes gives (section starts, EDNS position, count, version, flags, extended rcode; empty cache; the
flag set, as after `parse`) -/
theorem rename_fresh (pp pp' : PP) (target source : Bytes) (sfx : Bool)
    (h : pp.renameWithRawNames target source sfx = .ok (pp', none)) :
    ∃ v, Fresh pp' pp'.packet v ∧ pp'.offsetEdns = v.offsetEdns ∧ pp'.cached = none := by
  unfold PP.renameWithRawNames at h
  cases hr : Dns.renameWithRawNames pp target source sfx with
  | err e' => rw [hr] at h; simp at h
  | panic => rw [hr] at h; simp at h
  | diverge => rw [hr] at h; simp at h
  | ok packet =>
    rw [hr] at h
    simp only at h
    cases hp : parse packet with
    | err e' => rw [hp] at h; simp at h
    | panic => rw [hp] at h; simp at h
    | diverge => rw [hp] at h; simp at h
    | ok v =>
      rw [hp] at h
      simp only at h
      split at h
      · simp at h
      · rename_i hcond
        simp only [pure_eq, ok.injEq, Prod.mk.injEq, and_true] at h
        subst h
        simp only [Bool.or_eq_true, bne_iff_ne, ne_eq, not_or, Decidable.not_not] at hcond
        obtain ⟨⟨⟨c1, c2⟩, c3⟩, c4⟩ := hcond
        exact ⟨v, ⟨hp, rfl, rfl, c1.symm, c2.symm, c3.symm, c4.symm, rfl, rfl, rfl, rfl⟩, rfl, rfl⟩

/-- **recompute** on an object that still has its parse-time flag: the result is consistent -/
theorem recompute_consistent {pp : PP} {p : Bytes} {v : View} (F : Fresh pp p v) (hmp : pp.maxPayload = v.maxPayload) :
    ∃ pp', pp.recompute = .ok (pp', none) ∧ Consistent pp' := by
  obtain ⟨L, o, _⟩ := C05.decompress_ok F.hp
  obtain ⟨v2, h2, _, hrec⟩ := recompute_fresh' F o
  obtain ⟨P, _⟩ := plainObj_of_output F.hp o h2 pp
  obtain ⟨e1, e2, e3, e4, e5⟩ := edns_fields_carried F hmp o h2
  exact ⟨_, hrec, P, Or.inl rfl, ednsOK_rebased P h2 e1 e2 e3 e4 e5⟩

/-- recompute on an object whose flag is cleared changes nothing -/
theorem recompute_plain (pp : PP) (h : pp.maybeCompressed = false) : pp.recompute = .ok (pp, none) := by
  unfold PP.recompute
  simp [h]

/-- **in-place decompression through an iterator** on an object that still has its flag: the result is
consistent and the cursor is carried to the same record; on a plain object nothing happens -/
theorem iter_uncompress_consistent {pp : PP} {p : Bytes} {v : View} (F : Fresh pp p v) (hmp : pp.maxPayload = v.maxPayload)
    (L : C03.Layout p) (o : C05.Output p L)
    (sec : Section) (hs : sec.isRec = true) {l1 l2 : List RecPos} {r : RecPos} {ps1 ps2 : List Bytes} {pc : Bytes}
    (hl : L.recs sec = l1 ++ r :: l2) (hp : o.pieces sec = ps1 ++ pc :: ps2) (hlen : l1.length = ps1.length)
    (c : Cursor) (hsec : c.sec = sec) (hoff : c.offset = some r.off) :
    ∃ pp' c', iterUncompress pp c = mOk pp' c' ∧ Consistent pp' ∧ pp'.packet = o.bytes := by
  obtain ⟨v2, P, ne, h2, _, _, _, hrun⟩ := iterUncompress_fresh F L o sec hs hl hp hlen c hsec hoff
  obtain ⟨e1, e2, e3, e4, e5⟩ := edns_fields_carried F hmp o h2
  exact ⟨_, _, hrun, ⟨P, Or.inl rfl, ednsOK_rebased P h2 e1 e2 e3 e4 e5⟩, rfl⟩

/-- **the decompress-first step** of `set_raw_name` / `delete` leaves a consistent object -/
theorem first_touch_consistent {pp : PP} {p : Bytes} {v : View} (F : Fresh pp p v) (hmp : pp.maxPayload = v.maxPayload)
    (L : C03.Layout p) (o : C05.Output p L)
    (sec : Section) (hs : sec.isRec = true) {l1 l2 : List RecPos} {r : RecPos} {ps1 ps2 : List Bytes} {pc : Bytes}
    (hl : L.recs sec = l1 ++ r :: l2) (hp : o.pieces sec = ps1 ++ pc :: ps2) (hlen : l1.length = ps1.length)
    (c : Cursor) (hsec : c.sec = sec) (hoff : c.offset = some r.off) :
    ∃ pp' c', uncompressAt pp c = mOk pp' c' ∧ Consistent pp' ∧ pp'.packet = o.bytes := by
  obtain ⟨v2, P, ne, ob, oa, h2, _, _, _, _, _, _, hrun⟩ := uncompressAt_fresh F L o sec hs hl hp hlen c hsec hoff
  obtain ⟨e1, e2, e3, e4, e5⟩ := edns_fields_carried F hmp o h2
  exact ⟨_, _, hrun, ⟨P, Or.inl rfl, ednsOK_rebased P h2 e1 e2 e3 e4 e5⟩, rfl⟩

end Dns.C08
