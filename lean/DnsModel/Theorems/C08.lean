import DnsModel.Script
namespace Dns.C08
end Dns.C08
