/-
  C01 — Parsing untrusted bytes is total: a result or an error, never a crash or hang.
  Property theorems only; helper lemmas live in DnsModel/Lemmas.
-/
import DnsModel.Lemmas.SectorTotal
import DnsModel.Tie.Name
import DnsModel.Tie.Sector
import DnsModel.Tie.Parse
namespace Dns.C01
open Dns Res Sector

/-- For every byte string, `parse` returns `Ok(view)` or `Err(kind)`: the model has no reachable
panic (out-of-range index, underflowing subtraction, failed assertion) and no loop that runs out of
fuel.  On success the caller gets the input bytes back unchanged (the model's `parse` does not
return bytes at all: the packet is the argument `p` itself). -/
theorem parse_total (p : Bytes) : (∃ v, parse p = .ok v) ∨ (∃ e, parse p = .err e) :=
  returns_cases (parse_returns p)

theorem checkCompressedName_total (p : Bytes) (off : Nat) :
    (∃ n, checkCompressedName p off = .ok n) ∨ (∃ e, checkCompressedName p off = .err e) :=
  returns_cases (checkCompressedName_returns p off)

theorem checkUncompressedName_total (p : Bytes) (off : Nat) :
    (∃ n, checkUncompressedName p off = .ok n) ∨ (∃ e, checkUncompressedName p off = .err e) :=
  returns_cases (checkUncompressedName_returns p off)

/-- a successful name check returns a position inside the buffer (or its end) -/
theorem checkCompressedName_in_bounds (p : Bytes) (off e : Nat)
    (h : checkCompressedName p off = .ok e) : off < e ∧ e ≤ p.length :=
  ⟨checkCompressedName_ok_gt h, checkCompressedName_ok_le h⟩

/-- the public cursor primitives of `DNSSector` -/
inductive CursorOp
  | setOffset (n : Nat) | incrementOffset (n : Nat) | rrRdlen | ednsRrRdlen

/-- one public call: new cursor state and what the call returned -/
def cursorStep (p : Bytes) (s : Sector) : CursorOp → Sector × Res Nat
  | .setOffset n => match Sector.setOffset p s n with
      | .ok (s', old) => (s', .ok old) | .err e => (s, .err e) | .panic => (s, .panic) | .diverge => (s, .diverge)
  | .incrementOffset n => match Sector.incrementOffset p s n with
      | .ok (s', old) => (s', .ok old) | .err e => (s, .err e) | .panic => (s, .panic) | .diverge => (s, .diverge)
  | .rrRdlen => (s, Sector.rrRdlen p s)
  | .ednsRrRdlen => (s, Sector.ednsRrRdlen p s)

def CursorInv (p : Bytes) (s : Sector) : Prop := s.offset ≤ p.length ∧ s.ednsEnd = none

theorem cursorStep_total (p : Bytes) (s : Sector) (op : CursorOp) (h : CursorInv p s) :
    (cursorStep p s op).2.Returns ∧ CursorInv p (cursorStep p s op).1 := by
  obtain ⟨h1, h2⟩ := h
  cases op with
  | setOffset n =>
    simp only [cursorStep]
    cases hs : Sector.setOffset p s n with
    | ok r =>
      obtain ⟨s', old⟩ := r
      obtain ⟨e1, e2, _⟩ := setOffset_ok hs
      exact ⟨returns_ok _, by subst e1; exact ⟨by simp; omega, h2⟩⟩
    | err e => exact ⟨returns_err _, h1, h2⟩
    | panic => exact absurd hs (setOffset_returns p s n).1
    | diverge => exact absurd hs (setOffset_returns p s n).2
  | incrementOffset n =>
    simp only [cursorStep]
    cases hs : Sector.incrementOffset p s n with
    | ok r =>
      obtain ⟨s', old⟩ := r
      obtain ⟨e1, e2, _⟩ := incrementOffset_ok h1 hs
      exact ⟨returns_ok _, by subst e1; exact ⟨e2, h2⟩⟩
    | err e => exact ⟨returns_err _, h1, h2⟩
    | panic => exact absurd hs (incrementOffset_returns h1 n).1
    | diverge => exact absurd hs (incrementOffset_returns h1 n).2
  | rrRdlen => exact ⟨be16Load_returns h1 _, h1, h2⟩
  | ednsRrRdlen =>
    refine ⟨?_, h1, h2⟩
    simp [cursorStep, Sector.ednsRrRdlen, Sector.ednsBe16Load, Sector.ednsEnsureRemainingLen,
      Sector.ednsRemainingLen, h2, failIf, returns_err]

/-- state after a whole script of public calls -/
def cursorRun (p : Bytes) : List CursorOp → Sector → Sector
  | [], s => s
  | op :: ops, s => cursorRun p ops (cursorStep p s op).1

/-- Any finite sequence of public cursor calls, with arbitrary offsets and increments, starting from
`DNSSector::new(p)`: every call returns `Ok` or `Err`, and the cursor never leaves the buffer. -/
theorem cursor_total (p : Bytes) (ops : List CursorOp) (op : CursorOp) :
    (cursorStep p (cursorRun p ops Sector.new) op).2.Returns ∧
      (cursorRun p ops Sector.new).offset ≤ p.length := by
  have key : ∀ (ops : List CursorOp) (s : Sector), CursorInv p s → CursorInv p (cursorRun p ops s) := by
    intro ops
    induction ops with
    | nil => intro s h; exact h
    | cons o os ih => intro s h; exact ih _ (cursorStep_total p s o h).2
  have inv := key ops Sector.new ⟨Nat.zero_le _, rfl⟩
  exact ⟨(cursorStep_total p _ op inv).1, inv.1⟩

/-! Non-vacuity: both outcomes occur, and every error kind of the validator is reachable. -/
example : (parse [0,0,0x80,0, 0,1, 0,0, 0,0, 0,0, 1,97,0, 0,1, 0,1]).isOk = true := by decide
example : parse [] = .err .packetTooSmall := by decide
example : parse [0,0,0,0, 0,0, 0,0, 0,0, 0,0] = .err .invalidPacket := by decide
example : parse [0,0,0,0, 0,1, 0,0, 0,0, 0,0] = .err .internalError := by decide
example : parse [0,0,0,0, 0,1, 0,0, 0,0, 0,0, 0xc0,12, 0,1, 0,1] = .err .invalidName := by decide
example : parse [0,0,0,0, 0,1, 0,0, 0,0, 0,0, 1,97,0, 0,1, 0,3] = .err .unsupportedClass := by decide


/-! ### The same statements about the functions translated from the current source text

`Tr.Name.*` and `Tr.Sector.*` (Generated/TrName.lean, Generated/TrSector.lean) are written by rs2lean.py from
/repo/src/compress.rs and /repo/src/dns_sector.rs on every run; `Tie/Name.lean` and `Tie/Sector.lean` prove
each translated function equal to the model function used above. -/

theorem source_check_compressed_name_total (p : Bytes) (off : Nat) :
    (∃ n, Tr.Name.check_compressed_name p off = .ok n) ∨ (∃ e, Tr.Name.check_compressed_name p off = .err e) := by
  rw [Tie.check_compressed_name_eq]; exact checkCompressedName_total p off

theorem source_check_uncompressed_name_total (p : Bytes) (off : Nat) :
    (∃ n, Tr.Name.check_uncompressed_name p off = .ok n) ∨ (∃ e, Tr.Name.check_uncompressed_name p off = .err e) := by
  rw [Tie.check_uncompressed_name_eq]; exact checkUncompressedName_total p off

theorem source_check_compressed_name_in_bounds (p : Bytes) (off e : Nat)
    (h : Tr.Name.check_compressed_name p off = .ok e) : off < e ∧ e ≤ p.length := by
  rw [Tie.check_compressed_name_eq] at h; exact checkCompressedName_in_bounds p off e h

/-- the four public cursor primitives of the source are the model's (`cursorStep` above runs the model's) -/
theorem source_cursor_tie (p : Bytes) (s : Sector) (n : Nat) :
    Tr.Sector.set_offset p s.offset n = (Sector.setOffset p s n >>= fun r => Res.ok (r.2, r.1.offset)) ∧
    Tr.Sector.increment_offset p s.offset n = (Sector.incrementOffset p s n >>= fun r => Res.ok (r.2, r.1.offset)) ∧
    Tr.Sector.rr_rdlen p s.offset = Sector.rrRdlen p s ∧
    Tr.Sector.edns_rr_rdlen p s.offset s.ednsEnd = Sector.ednsRrRdlen p s :=
  ⟨Tie.set_offset_eq p s n, Tie.increment_offset_eq p s n, Tie.rr_rdlen_eq p s, Tie.edns_rr_rdlen_eq p s⟩

/-- and the loaders `parse()` is built from -/
theorem source_loader_tie (p : Bytes) (s : Sector) (n : Nat) :
    Tr.Sector.ensure_remaining_len p s.offset n = Sector.ensureRemainingLen p s n ∧
    Tr.Sector.u8_load p s.offset n = Sector.u8Load p s n ∧ Tr.Sector.be16_load p s.offset n = Sector.be16Load p s n ∧
    Tr.Sector.rr_type p s.offset = Sector.rrType p s ∧ Tr.Sector.rr_class p s.offset = Sector.rrClass p s ∧
    Tr.Sector.qdcount p = be16 p 4 ∧ Tr.Sector.ancount p = be16 p 6 ∧ Tr.Sector.nscount p = be16 p 8 ∧
    Tr.Sector.arcount p = be16 p 10 ∧
    Tr.Sector.is_response p = (be16 p DNS_FLAGS_OFFSET >>= fun f => Res.ok (f &&& DNS_FLAG_QR == DNS_FLAG_QR)) :=
  ⟨Tie.ensure_remaining_len_eq p s n, Tie.u8_load_eq p s n, Tie.be16_load_eq p s n, Tie.rr_type_eq p s,
   Tie.rr_class_eq p s, Tie.s_qdcount_eq p, Tie.s_ancount_eq p, Tie.s_nscount_eq p, Tie.s_arcount_eq p,
   Tie.s_is_response_eq p⟩

/-- **The validator of the current source text is total.**  `Tr.Sector.new` / `Tr.Sector.parse` are the translations
of `DNSSector::new` and `DNSSector::parse` (with everything `parse` calls) written by rs2lean.py from
/repo/src/dns_sector.rs on this run.  For every byte string, `parse` started on the state `new` builds returns
either the tuple of `ParsedPacket`'s fields — whose first component is the input itself, `Some(packet)` — or an
error; never a panic (out-of-range index, underflowing subtraction, overflowing `edns_count += 1`, failed
assertion) and never runs out of fuel. -/
theorem source_parse_total (p : Bytes) :
    Tr.Sector.new p = .ok (p, 0, none, none, 0, none, none, none, 512) ∧
    ((∃ v, Tr.Sector.parse p 0 none none 0 none none none 512 = .ok (Tie.viewTup p v) ∧ (Tie.viewTup p v).1 = some p) ∨
     (∃ e, Tr.Sector.parse p 0 none none 0 none none none 512 = .err e)) := by
  refine ⟨by simpa [Tie.tup, Sector.new] using Tie.new_eq p, ?_⟩
  rw [Tie.parse_eq]
  rcases parse_total p with ⟨v, hv⟩ | ⟨e, he⟩
  · left; exact ⟨v, by simp [hv], rfl⟩
  · right; exact ⟨e, by simp [he]⟩


example : Tr.Name.check_compressed_name [3, 119, 119, 119, 0, 0xc0, 0] 5 = .ok 7 := by decide
example : Tr.Name.check_uncompressed_name [3, 119, 119, 119, 0, 0xc0, 0] 5 = .err .invalidName := by decide

end Dns.C01
