/-
  C05 — Decompression keeps the message; output is pointer-free, valid and stable.
  `uncompress_canonical`: for every accepted packet and every reference offset, decompression
  returns the 12 header bytes followed by the canonical form of the question and of every record
  of the three sections in wire order — owner and data names replaced by their pointer-free
  encodings (same labels), the eight fixed bytes and all other data (OPT included) verbatim, the
  data length recomputed — and the new position of the reference offset.
-/
import DnsModel.Lemmas.CanonRun
import DnsModel.Tie.Reader
namespace Dns.C05
open Dns Res

/-- the new position of `ref` after the question and the three runs -/
def carried (p : Bytes) (L : C03.Layout p) (ref : Nat) (qc : Bytes) (pa pn pr : List Bytes) : Option Nat :=
  let n0 : Option Nat := if ref = 12 then some 12 else none
  let n1 := carry ref L.answers pa (12 + qc.length) n0
  let n2 := carry ref L.authority pn (12 + qc.length + pa.flatten.length) n1
  let n3 := carry ref L.additional pr (12 + qc.length + pa.flatten.length + pn.flatten.length) n2
  if ref = p.length then some (12 + qc.length + pa.flatten.length + pn.flatten.length + pr.flatten.length) else n3

private theorem section_fold {pp : PP} {sec : Section} {l : List RecPos} {off e : Nat} {ob oe : Bool}
    (hl : RRsL pp.packet sec l off ob e oe) (hlen : l.length < 65536)
    (step : PP → Cursor → Res (Option Cursor))
    (hwalk : ∃ cs, collectWalk pp step (l.length + 1) (Cursor.new sec) = .ok cs ∧ cs.map posOf = l.map some)
    (ref : Nat) (st : UState) :
    ∃ ps, CanonRun pp.packet l ps ∧
      walkFold pp step (uncompressItem pp ref true) sectionFuel (Cursor.new sec) st =
        .ok { out := st.out ++ ps.flatten, newOffset := carry ref l ps st.out.length st.newOffset } := by
  obtain ⟨cs, hcs, hpos⟩ := hwalk
  have hm := collectWalk_mono _ _ _ hcs (sectionFuel - (l.length + 1))
  have e : l.length + 1 + (sectionFuel - (l.length + 1)) = sectionFuel := by unfold sectionFuel; omega
  rw [e] at hm
  rw [walkFold_collect _ _ _ _ hm]
  exact fold_section hl ref cs hpos st

/-- **the shape of the output** -/
theorem uncompress_canonical {p : Bytes} {v : View} (h : parse p = .ok v) (ref : Nat) :
    ∃ (L : C03.Layout p) (qc : Bytes) (pa pn pr : List Bytes),
      QCanon p L.qe qc ∧ CanonRun p L.answers pa ∧ CanonRun p L.authority pn ∧ CanonRun p L.additional pr ∧
      uncompressWithPreviousOffset p ref =
        match carried p L ref qc pa pn pr with
        | some n => .ok (p.take 12 ++ qc ++ pa.flatten ++ pn.flatten ++ pr.flatten, n)
        | none => .panic := by
  obtain ⟨L, hl, v1, v2, v3, v4, hno, _⟩ := C03.layout_full h
  have ia : secInfo (PP.ofView p v) .answer = .ok (L.answers.length, if L.answers.length > 0 then some (L.qe + 4) else none) := by
    simp [secInfo, PP.ofView, ancount, (be16_ok_of_le (p := p) (i := 6) (by omega)).1, L.na, v2]
  have inn : secInfo (PP.ofView p v) .nameServers = .ok (L.authority.length, if L.authority.length > 0 then some L.e2 else none) := by
    simp [secInfo, PP.ofView, nscount, (be16_ok_of_le (p := p) (i := 8) (by omega)).1, L.nn, v3]
  have ir : secInfo (PP.ofView p v) .additional = .ok (L.additional.length, if L.additional.length > 0 then some L.e3 else none) := by
    simp [secInfo, PP.ofView, arcount, (be16_ok_of_le (p := p) (i := 10) (by omega)).1, L.nr, v4]
  have wa := walk_skip (pp := PP.ofView p v) L.ha ia
  have wn := walk_skip (pp := PP.ofView p v) L.hn inn
  have wr := walk_incl (pp := PP.ofView p v) L.hr ir
  have ea : nonOpt p L.answers = L.answers := nonOpt_eq_self (fun r hr => hno r (by simp [hr]))
  have en : nonOpt p L.authority = L.authority := nonOpt_eq_self (fun r hr => hno r (by simp [hr]))
  simp only [PP.ofView] at wa wn
  rw [ea] at wa
  rw [en] at wn
  -- the question
  obtain ⟨qe', hqe', hqw⟩ := C03.question_walk h
  have hqe : qe' = L.qe := nameEnds_functional hqe' L.hq.1
  subst hqe
  obtain ⟨ls, hv⟩ := L.hq.1
  have hqm := collectWalk_mono _ _ _ hqw (sectionFuel - 2)
  have e2 : 2 + (sectionFuel - 2) = sectionFuel := by unfold sectionFuel; omega
  rw [e2] at hqm
  have hlt6 := get16_lt p 6
  have hlt8 := get16_lt p 8
  have hlt10 := get16_lt p 10
  let st0 : UState := { out := p.take 12, newOffset := none }
  have hq := uncompressItem_question (pp := PP.ofView p v) (by simpa [PP.ofView] using hv) (by simpa [PP.ofView] using L.hq.2) ref st0
  let st1 : UState := { out := st0.out ++ ((encLabels ls ++ [0]) ++ (p.drop L.qe).take 4),
                         newOffset := if ref = 12 then some st0.out.length else st0.newOffset }
  obtain ⟨pa, hpa, fa⟩ := section_fold (pp := PP.ofView p v) L.ha (by rw [L.na]; exact hlt6) nextSkippingOpt wa ref st1
  obtain ⟨pn, hpn, fn⟩ := section_fold (pp := PP.ofView p v) L.hn (by rw [L.nn]; exact hlt8) nextSkippingOpt wn ref
    { out := st1.out ++ pa.flatten, newOffset := carry ref L.answers pa st1.out.length st1.newOffset }
  obtain ⟨pr, hpr, fr⟩ := section_fold (pp := PP.ofView p v) L.hr (by rw [L.nr]; exact hlt10) nextIncludingOpt wr ref
    { out := st1.out ++ pa.flatten ++ pn.flatten,
      newOffset := carry ref L.authority pn (st1.out ++ pa.flatten).length (carry ref L.answers pa st1.out.length st1.newOffset) }
  refine ⟨L, (encLabels ls ++ [0]) ++ (p.drop L.qe).take 4, pa, pn, pr, ⟨ls, hv, rfl⟩, hpa, hpn, hpr, ?_⟩
  unfold uncompressWithPreviousOffset
  have hlen12 : ¬ (p.length < 12) := by omega
  simp only [failIf, DNS_HEADER_SIZE, hlen12, decide_false, Bool.false_eq_true, if_false, bind_ok,
    slice_ok (p := p) (a := 0) (b := 12) ⟨by omega, by omega⟩, parsePP, h, pure_eq, List.drop_zero, Nat.sub_zero]
  rw [walkFold_collect _ _ _ _ hqm]
  simp only [foldRes, PP.ofView] at hq ⊢
  simp only [PP.ofView] at fa fn fr
  rw [hq]
  simp only [Res.bind, bind_ok]
  rw [fa]
  simp only [bind_ok]
  rw [fn]
  simp only [bind_ok]
  rw [fr]
  simp only [bind_ok]
  have hl12 : (p.take 12).length = 12 := by simp; omega
  unfold carried
  simp only [st1, st0, List.length_append, hl12]
  by_cases hend : ref = p.length
  · simp [hend, unwrap, List.append_assoc, Nat.add_assoc]
  · have : (ref == p.length) = false := by simp [hend]
    simp only [this, Bool.false_eq_true, if_false, hend]
    simp only [unwrap, List.append_assoc]
    generalize carry ref L.additional pr _ _ = car
    cases car <;> simp

end Dns.C05

namespace Dns.C05
open Dns Res

/-- what the output of decompression is, for the layout `L` of the input -/
structure Output (p : Bytes) (L : C03.Layout p) where
  qc : Bytes
  pa : List Bytes
  pn : List Bytes
  pr : List Bytes
  hq : QCanon p L.qe qc
  ha : CanonRun p L.answers pa
  hn : CanonRun p L.authority pn
  hr : CanonRun p L.additional pr

def Output.bytes {p : Bytes} {L : C03.Layout p} (o : Output p L) : Bytes :=
  p.take 12 ++ o.qc ++ o.pa.flatten ++ o.pn.flatten ++ o.pr.flatten

/-- **the output is accepted**, has a layout with the same numbers of records of the same types in
the same order, and every piece of it — question and records — is already in canonical form, with
the canonical forms of the input: same labels in every name, same fixed fields, same other data. -/
theorem output_layout {p : Bytes} {v : View} (h : parse p = .ok v) {L : C03.Layout p} (o : Output p L) :
    WF o.bytes ∧ ∃ L' : C03.Layout o.bytes,
      QCanon o.bytes L'.qe o.qc ∧ CanonRun o.bytes L'.answers o.pa ∧ CanonRun o.bytes L'.authority o.pn ∧
      CanonRun o.bytes L'.additional o.pr ∧
      L'.answers.map (fun r => get16 o.bytes r.ne) = L.answers.map (fun r => get16 p r.ne) ∧
      L'.authority.map (fun r => get16 o.bytes r.ne) = L.authority.map (fun r => get16 p r.ne) ∧
      L'.additional.map (fun r => get16 o.bytes r.ne) = L.additional.map (fun r => get16 p r.ne) ∧
      L'.answers.map (·.off) = starts (12 + o.qc.length) o.pa ∧
      L'.authority.map (·.off) = starts (12 + o.qc.length + o.pa.flatten.length) o.pn ∧
      L'.additional.map (·.off) = starts (12 + o.qc.length + o.pa.flatten.length + o.pn.flatten.length) o.pr ∧
      (∀ r ∈ L'.answers ++ L'.authority ++ L'.additional, SelfCanon o.bytes r) := by
  obtain ⟨hl, hqd, qe0, _, _, _, _, _, hne0, _, hcl, _, _, _, _⟩ := parse_ok_decomp h
  have hqe0 : qe0 = L.qe := nameEnds_functional hne0 L.hq.1
  subst hqe0
  have hwf := C02.accepted_wf p v h
  obtain ⟨qc, pa, pn, pr, ⟨ls, hv, hqc⟩, hpa, hpn, hpr⟩ := o
  simp only [Output.bytes]
  generalize hu : p.take 12 ++ qc ++ pa.flatten ++ pn.flatten ++ pr.flatten = u
  have hH : (p.take 12).length = 12 := by simp; omega
  have hq4 : ((p.drop L.qe).take 4).length = 4 := length_take_drop L.hq.2
  obtain ⟨hok, hw, hg⟩ := validName_ok hv
  -- header
  have hagH : Agree p u 0 0 12 := by
    have := agree_of_eq (p := p) (u := u) (A := []) (B := qc ++ pa.flatten ++ pn.flatten ++ pr.flatten) (a := 0) (n := 12)
      (by rw [← hu]; simp) (by omega)
    simpa using this
  have hg16 : ∀ i, i + 2 ≤ 12 → get16 u i = get16 p i := by
    intro i hi
    have := hagH.get16 (i := i) hi
    simpa using this
  -- question
  have hvq : ValidName u 12 ls (12 + labSum ls + 1) := by
    have := validName_at (u := u) (A := p.take 12) (B := (p.drop L.qe).take 4 ++ pa.flatten ++ pn.flatten ++ pr.flatten)
      (by rw [← hu, hqc]; simp) hok hw hg
    rw [hH] at this; exact this
  have hqclen : qc.length = labSum ls + 1 + 4 := by rw [hqc, List.length_append, encLen_eq, hq4]
  have hA : (p.take 12 ++ (encLabels ls ++ [0])).length = 12 + labSum ls + 1 := by
    rw [List.length_append, hH, encLen_eq]; omega
  have hagQ : Agree p u L.qe (12 + labSum ls + 1) 4 := by
    have := agree_of_eq (p := p) (u := u) (A := p.take 12 ++ (encLabels ls ++ [0])) (B := pa.flatten ++ pn.flatten ++ pr.flatten)
      (a := L.qe) (n := 4) (by rw [← hu, hqc]; simp) L.hq.2
    rw [hA] at this; exact this
  have hclass : get16 u (12 + labSum ls + 1 + 2) = 1 := by rw [hagQ.get16 (i := 2) (by omega)]; exact hcl
  have hwinQ : (u.drop (12 + labSum ls + 1)).take 4 = (p.drop L.qe).take 4 := by
    have := window_eq (u := u) (A := p.take 12 ++ (encLabels ls ++ [0])) (w := (p.drop L.qe).take 4)
      (B := pa.flatten ++ pn.flatten ++ pr.flatten) (by rw [← hu, hqc]; simp)
    rw [hA, hq4] at this; exact this
  -- sections
  have hpre1 : (p.take 12 ++ qc).length = 12 + labSum ls + 1 + 4 := by rw [List.length_append, hH, hqclen]; omega
  obtain ⟨la', hla, rla, cla, tla, ola, sla⟩ := canonRun_placed L.ha pa hpa (p.take 12 ++ qc) (pn.flatten ++ pr.flatten)
  have eu1 : p.take 12 ++ qc ++ pa.flatten ++ (pn.flatten ++ pr.flatten) = u := by rw [← hu]; simp
  rw [eu1] at rla cla tla sla
  rw [hpre1] at rla ola
  obtain ⟨ln', hln, rln, cln, tln, oln, sln⟩ := canonRun_placed L.hn pn hpn (p.take 12 ++ qc ++ pa.flatten) pr.flatten
  have hpre2 : (p.take 12 ++ qc ++ pa.flatten).length = 12 + labSum ls + 1 + 4 + pa.flatten.length := by
    rw [List.length_append, hpre1]
  rw [hu] at rln cln tln sln
  rw [hpre2] at rln oln
  obtain ⟨lr', hlr, rlr, clr, tlr, olr, slr⟩ := canonRun_placed L.hr pr hpr (p.take 12 ++ qc ++ pa.flatten ++ pn.flatten) []
  have hpre3 : (p.take 12 ++ qc ++ pa.flatten ++ pn.flatten).length =
      12 + labSum ls + 1 + 4 + pa.flatten.length + pn.flatten.length := by
    rw [List.length_append, hpre2]
  have eu3 : p.take 12 ++ qc ++ pa.flatten ++ pn.flatten ++ pr.flatten ++ [] = u := by rw [← hu]; simp
  rw [eu3] at rlr clr tlr slr
  rw [hpre3] at rlr olr
  have hulen : u.length = 12 + labSum ls + 1 + 4 + pa.flatten.length + pn.flatten.length + pr.flatten.length := by
    rw [← hu, List.length_append, hpre3]
  rw [← hulen] at rlr
  have c6 : la'.length = get16 u 6 := by rw [hla, L.na, hg16 6 (by omega)]
  have c8 : ln'.length = get16 u 8 := by rw [hln, L.nn, hg16 8 (by omega)]
  have c10 : lr'.length = get16 u 10 := by rw [hlr, L.nr, hg16 10 (by omega)]
  constructor
  · obtain ⟨_, _, qeW, _, _, _, hqr, _⟩ := hwf
    refine ⟨by omega, by rw [hg16 4 (by omega)]; exact hqd, 12 + labSum ls + 1, ⟨ls, hvq⟩, by omega, hclass, ?_,
      12 + labSum ls + 1 + 4 + pa.flatten.length, L.o2, 12 + labSum ls + 1 + 4 + pa.flatten.length + pn.flatten.length,
      L.o3, L.o4, ?_, ?_, ?_⟩
    · rw [hg16 2 (by omega), hg16 6 (by omega), hg16 8 (by omega)]; exact hqr
    · rw [← c6]; exact rla.to_RRs
    · rw [← c8]; exact rln.to_RRs
    · rw [← c10]; exact rlr.to_RRs
  · refine ⟨⟨12 + labSum ls + 1, la', ln', lr', _, _, _, _, _, ⟨⟨ls, hvq⟩, by omega⟩, rla, rln, rlr, c6, c8, c10⟩,
      ⟨ls, hvq, by rw [hwinQ]; exact hqc⟩, cla, cln, clr, tla, tln, tlr, ?_, ?_, ?_, ?_⟩
    · rw [ola, hqclen]; congr 1
    · rw [oln, hqclen]; congr 1
    · rw [olr, hqclen]; congr 1
    · intro r hr
      simp only [List.mem_append] at hr
      rcases hr with (hr | hr) | hr
      · exact sla r hr
      · exact sln r hr
      · exact slr r hr

end Dns.C05

namespace Dns.C05
open Dns Res

/-- `uncompress_canonical` with the pieces packaged -/
theorem uncompress_output {p : Bytes} {v : View} (h : parse p = .ok v) (ref : Nat) :
    ∃ (L : C03.Layout p) (o : Output p L),
      uncompressWithPreviousOffset p ref =
        match carried p L ref o.qc o.pa o.pn o.pr with
        | some n => .ok (o.bytes, n)
        | none => .panic := by
  obtain ⟨L, qc, pa, pn, pr, hq, ha, hn, hr, hu⟩ := uncompress_canonical h ref
  exact ⟨L, ⟨qc, pa, pn, pr, hq, ha, hn, hr⟩, hu⟩

/-- offsets of the pieces of a layout, by section -/
theorem layout_offsets {p : Bytes} (L : C03.Layout p) :
    12 < L.qe ∧ L.qe + 4 ≤ L.e2 ∧ L.e2 ≤ L.e3 ∧ L.e3 ≤ p.length ∧
    (∀ r ∈ L.answers, L.qe + 4 ≤ r.off ∧ r.off < L.e2) ∧ (∀ r ∈ L.authority, L.e2 ≤ r.off ∧ r.off < L.e3) ∧
    (∀ r ∈ L.additional, L.e3 ≤ r.off ∧ r.off < p.length) := by
  obtain ⟨ls, hv⟩ := L.hq.1
  have := hv.2.1.lt
  obtain ⟨b1, m1⟩ := L.ha.bounds
  obtain ⟨b2, m2⟩ := L.hn.bounds
  obtain ⟨b3, m3⟩ := L.hr.bounds
  exact ⟨this, b1, b2, b3, m1, m2, m3⟩

/-- **the question boundary** (offset 12) stays at 12 -/
theorem carried_question {p : Bytes} (L : C03.Layout p) (qc : Bytes) (pa pn pr : List Bytes) :
    carried p L 12 qc pa pn pr = some 12 := by
  obtain ⟨hq, h1, h2, h3, ma, mn, mr⟩ := layout_offsets L
  unfold carried
  have hne : ¬ (12 = p.length) := by omega
  simp only [if_true, hne, if_false]
  rw [carry_miss 12 L.answers _ _ _ (fun r hr => by have := ma r hr; omega),
    carry_miss 12 L.authority _ _ _ (fun r hr => by have := mn r hr; omega),
    carry_miss 12 L.additional _ _ _ (fun r hr => by have := mr r hr; omega)]

/-- **the end of the packet** goes to the end of the output -/
theorem carried_end {p : Bytes} (L : C03.Layout p) (qc : Bytes) (pa pn pr : List Bytes) :
    carried p L p.length qc pa pn pr =
      some (12 + qc.length + pa.flatten.length + pn.flatten.length + pr.flatten.length) := by
  unfold carried
  simp

/-- **an answer record** goes to the start of its canonical form -/
theorem carried_answer {p : Bytes} (L : C03.Layout p) (qc : Bytes) (pa pn pr : List Bytes)
    (l1 : List RecPos) (r : RecPos) (l2 : List RecPos) (ps1 : List Bytes) (pc : Bytes) (ps2 : List Bytes)
    (hl : L.answers = l1 ++ r :: l2) (hp : pa = ps1 ++ pc :: ps2) (hlen : l1.length = ps1.length) :
    carried p L r.off qc pa pn pr = some (12 + qc.length + ps1.flatten.length) := by
  obtain ⟨hq, h1, h2, h3, ma, mn, mr⟩ := layout_offsets L
  have hr := ma r (by rw [hl]; simp)
  have hlater : ∀ r' ∈ l2, r'.off ≠ r.off := by
    have := L.ha; rw [hl] at this; exact this.later_ne
  unfold carried
  have hne : ¬ (r.off = p.length) := by omega
  simp only [hne, if_false]
  rw [carry_miss r.off L.additional _ _ _ (fun x hx => by have := mr x hx; omega),
    carry_miss r.off L.authority _ _ _ (fun x hx => by have := mn x hx; omega), hl, hp,
    carry_hit l1 r l2 ps1 pc ps2 _ _ hlen hlater]

theorem carried_authority {p : Bytes} (L : C03.Layout p) (qc : Bytes) (pa pn pr : List Bytes)
    (l1 : List RecPos) (r : RecPos) (l2 : List RecPos) (ps1 : List Bytes) (pc : Bytes) (ps2 : List Bytes)
    (hl : L.authority = l1 ++ r :: l2) (hp : pn = ps1 ++ pc :: ps2) (hlen : l1.length = ps1.length) :
    carried p L r.off qc pa pn pr = some (12 + qc.length + pa.flatten.length + ps1.flatten.length) := by
  obtain ⟨hq, h1, h2, h3, ma, mn, mr⟩ := layout_offsets L
  have hr := mn r (by rw [hl]; simp)
  have hlater : ∀ r' ∈ l2, r'.off ≠ r.off := by
    have := L.hn; rw [hl] at this; exact this.later_ne
  unfold carried
  have hne : ¬ (r.off = p.length) := by omega
  simp only [hne, if_false]
  rw [carry_miss r.off L.additional _ _ _ (fun x hx => by have := mr x hx; omega), hl, hp,
    carry_hit l1 r l2 ps1 pc ps2 _ _ hlen hlater]

theorem carried_additional {p : Bytes} (L : C03.Layout p) (qc : Bytes) (pa pn pr : List Bytes)
    (l1 : List RecPos) (r : RecPos) (l2 : List RecPos) (ps1 : List Bytes) (pc : Bytes) (ps2 : List Bytes)
    (hl : L.additional = l1 ++ r :: l2) (hp : pr = ps1 ++ pc :: ps2) (hlen : l1.length = ps1.length) :
    carried p L r.off qc pa pn pr =
      some (12 + qc.length + pa.flatten.length + pn.flatten.length + ps1.flatten.length) := by
  obtain ⟨hq, h1, h2, h3, ma, mn, mr⟩ := layout_offsets L
  have hr := mr r (by rw [hl]; simp)
  have hlater : ∀ r' ∈ l2, r'.off ≠ r.off := by
    have := L.hr; rw [hl] at this; exact this.later_ne
  unfold carried
  have hne : ¬ (r.off = p.length) := by omega
  simp only [hne, if_false]
  rw [hl, hp, carry_hit l1 r l2 ps1 pc ps2 _ _ hlen hlater]

/-- **decompression succeeds** on every accepted packet, and its result is the canonical output -/
theorem decompress_ok {p : Bytes} {v : View} (h : parse p = .ok v) :
    ∃ (L : C03.Layout p) (o : Output p L), uncompress p = .ok o.bytes := by
  obtain ⟨L, o, hu⟩ := uncompress_output h 12
  refine ⟨L, o, ?_⟩
  unfold uncompress
  simp only [DNS_HEADER_SIZE]
  rw [hu, carried_question]
  rfl

/-- **the result is accepted** -/
theorem decompressed_accepted {p : Bytes} {v : View} (h : parse p = .ok v) {u : Bytes} (hu : uncompress p = .ok u) :
    ∃ v', parse u = .ok v' := by
  obtain ⟨L, o, ho⟩ := decompress_ok h
  rw [ho] at hu
  simp at hu
  subst hu
  exact C02.wf_accepted _ (output_layout h o).1

/-- layouts of the same packet are equal -/
theorem layout_unique {u : Bytes} (L1 L2 : C03.Layout u) :
    L1.qe = L2.qe ∧ L1.answers = L2.answers ∧ L1.authority = L2.authority ∧ L1.additional = L2.additional := by
  have hq : L1.qe = L2.qe := nameEnds_functional L1.hq.1 L2.hq.1
  have ha := L1.ha
  rw [hq] at ha
  obtain ⟨ea, e2⟩ := ha.functional L2.ha (by rw [L1.na, L2.na])
  have hn := L1.hn
  rw [e2] at hn
  obtain ⟨en, e3⟩ := hn.functional L2.hn (by rw [L1.nn, L2.nn])
  have hr := L1.hr
  rw [e3] at hr
  obtain ⟨er, _⟩ := hr.functional L2.hr (by rw [L1.nr, L2.nr])
  exact ⟨hq, ea, en, er⟩

/-- **a second decompression changes nothing** -/
theorem decompress_fixed_point {p : Bytes} {v : View} (h : parse p = .ok v) {u : Bytes} (hu : uncompress p = .ok u) :
    uncompress u = .ok u := by
  obtain ⟨L, o, ho⟩ := decompress_ok h
  rw [ho] at hu
  simp at hu
  subst hu
  obtain ⟨hwf, L', hq', ha', hn', hr', _⟩ := output_layout h o
  obtain ⟨v', h'⟩ := C02.wf_accepted _ hwf
  obtain ⟨L'', o'', ho''⟩ := decompress_ok h'
  rw [ho'']
  obtain ⟨eq, ea, en, er⟩ := layout_unique L'' L'
  have e1 : o''.qc = o.qc := by have := o''.hq; rw [eq] at this; exact this.functional hq'
  have e2 : o''.pa = o.pa := by have := o''.ha; rw [ea] at this; exact this.functional ha'
  have e3 : o''.pn = o.pn := by have := o''.hn; rw [en] at this; exact this.functional hn'
  have e4 : o''.pr = o.pr := by have := o''.hr; rw [er] at this; exact this.functional hr'
  congr 1
  unfold Output.bytes
  rw [e1, e2, e3, e4]
  congr 4
  -- the header of the output is the header of the input
  have hl : 12 ≤ p.length := (C02.accepted_wf p v h).1
  have : (p.take 12).length = 12 := by simp; omega
  simp only [Output.bytes, List.append_assoc]
  rw [List.take_append_of_le_length (by omega), List.take_of_length_le (by omega)]

end Dns.C05

namespace Dns.C05
open Dns Res

/-- the output and the carried offset, for *any* layout of the input and its canonical pieces
(they are unique) -/
theorem uncompress_any {p : Bytes} {v : View} (h : parse p = .ok v) (ref : Nat) (L : C03.Layout p) (o : Output p L) :
    uncompressWithPreviousOffset p ref =
      match carried p L ref o.qc o.pa o.pn o.pr with
      | some n => .ok (o.bytes, n)
      | none => .panic := by
  obtain ⟨L0, o0, hu⟩ := uncompress_output h ref
  obtain ⟨eq, ea, en, er⟩ := layout_unique L0 L
  have e1 : o0.qc = o.qc := by have := o0.hq; rw [eq] at this; exact this.functional o.hq
  have e2 : o0.pa = o.pa := by have := o0.ha; rw [ea] at this; exact this.functional o.ha
  have e3 : o0.pn = o.pn := by have := o0.hn; rw [en] at this; exact this.functional o.hn
  have e4 : o0.pr = o.pr := by have := o0.hr; rw [er] at this; exact this.functional o.hr
  have eb : o0.bytes = o.bytes := by unfold Output.bytes; rw [e1, e2, e3, e4]
  have ec : carried p L0 ref o0.qc o0.pa o0.pn o0.pr = carried p L ref o.qc o.pa o.pn o.pr := by
    unfold carried; rw [e1, e2, e3, e4, ea, en, er]
  rw [hu, eb, ec]

/-- **record boundaries are carried across**: the start of the `i`-th answer / authority /
additional record of the input goes to the start of the `i`-th such record of the output, the
question to the question, the end to the end. -/
theorem boundaries {p : Bytes} {v : View} (h : parse p = .ok v) (L : C03.Layout p) (o : Output p L) :
    uncompressWithPreviousOffset p 12 = .ok (o.bytes, 12) ∧
    uncompressWithPreviousOffset p p.length = .ok (o.bytes, o.bytes.length) ∧
    (∀ l1 r l2 ps1 pc ps2, L.answers = l1 ++ r :: l2 → o.pa = ps1 ++ pc :: ps2 → l1.length = ps1.length →
      uncompressWithPreviousOffset p r.off = .ok (o.bytes, 12 + o.qc.length + ps1.flatten.length)) ∧
    (∀ l1 r l2 ps1 pc ps2, L.authority = l1 ++ r :: l2 → o.pn = ps1 ++ pc :: ps2 → l1.length = ps1.length →
      uncompressWithPreviousOffset p r.off = .ok (o.bytes, 12 + o.qc.length + o.pa.flatten.length + ps1.flatten.length)) ∧
    (∀ l1 r l2 ps1 pc ps2, L.additional = l1 ++ r :: l2 → o.pr = ps1 ++ pc :: ps2 → l1.length = ps1.length →
      uncompressWithPreviousOffset p r.off =
        .ok (o.bytes, 12 + o.qc.length + o.pa.flatten.length + o.pn.flatten.length + ps1.flatten.length)) := by
  have hl : 12 ≤ p.length := (C02.accepted_wf p v h).1
  have hH : (p.take 12).length = 12 := by simp; omega
  refine ⟨?_, ?_, ?_, ?_, ?_⟩
  · rw [uncompress_any h 12 L o, carried_question]
  · rw [uncompress_any h p.length L o, carried_end]
    simp only [Output.bytes, List.length_append, hH]
  · intro l1 r l2 ps1 pc ps2 hl hp hlen
    rw [uncompress_any h r.off L o, carried_answer L _ _ _ _ l1 r l2 ps1 pc ps2 hl hp hlen]
  · intro l1 r l2 ps1 pc ps2 hl hp hlen
    rw [uncompress_any h r.off L o, carried_authority L _ _ _ _ l1 r l2 ps1 pc ps2 hl hp hlen]
  · intro l1 r l2 ps1 pc ps2 hl hp hlen
    rw [uncompress_any h r.off L o, carried_additional L _ _ _ _ l1 r l2 ps1 pc ps2 hl hp hlen]

/-! non-vacuity: the sample packet of C02 (a pointer in the answer's owner name, OPT) decompresses
to a longer packet, which is a fixed point (kernel evaluation of the model) -/
def okExpanded : Bytes :=
  [0, 7, 128, 0, 0, 1, 0, 1, 0, 0, 0, 1, 1, 97, 0, 0, 1, 0, 1, 1, 97, 0, 0, 1, 0, 1, 0, 0, 0, 9, 0, 4, 1, 2, 3, 4, 0, 0,
   41, 4, 208, 0, 0, 0, 0, 0, 6, 0, 10, 0, 2, 7, 7]
example : uncompress C02.okPacket = .ok okExpanded := by decide +kernel
example : uncompress okExpanded = .ok okExpanded := by decide +kernel


/-! ### Tie to the current source text
The name copier decompression is built from (`Compress::raw_name_len`, `raw_name_len_after_decompression`, `copy_uncompressed_name`,
`SuffixDict::raw_names_eq_ignore_case`) are re-translated from /repo/src/compress.rs by rs2lean.py on every run
(`Generated/TrReader.lean`) and proved equal to the model functions used above (`Tie/Reader.lean`). -/
theorem source_reader_tie (p pre n1 n2 : Bytes) (off : Nat) :
    Tr.Reader.raw_name_len p = rawNameLen p ∧
    Tr.Reader.raw_name_len_after_decompression p off = rawNameLenAfterDecompression p off ∧
    Tr.Reader.copy_uncompressed_name pre p off
      = (copyUncompressedName p off >>= fun r => Res.ok ((r.1.length, r.2), pre ++ r.1)) ∧
    Tr.Reader.raw_names_eq_ignore_case n1 n2 = .ok (rawNamesEqIgnoreCase n1 n2) :=
  Tie.reader_tie p pre n1 n2 off

end Dns.C05
