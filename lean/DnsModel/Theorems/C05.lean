import DnsModel.Renamer
namespace Dns.C05
end Dns.C05
