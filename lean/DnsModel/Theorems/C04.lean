/-
  C04 — Header, question and EDNS summaries equal what the bytes say.
  For every accepted packet (`parse p = .ok v`, object `PP.ofView p v`):
  * `header_summary`: id, opcode, rcode, response bit, the 32-bit flag word bit by bit, and the
    DNSSEC indicator (AD for responses, DO for queries) are the fields of the header word and of the
    OPT record's flag word;
  * `question_summary`: the question in raw, raw-without-root and lowercase-text form with its type
    and class is the name the name relation assigns at offset 12 and the two words after it, with
    the cache empty and with the cache filled;
  * `edns_summary`: EDNS start, option count, extended rcode, version, extended flags and payload
    size are those of the one OPT record of the additional section, and the defaults (none, 0,
    512) when there is none.
-/
import DnsModel.Lemmas.Question
import DnsModel.Theorems.C12
import DnsModel.Theorems.C03
namespace Dns.C04
open Dns Res

/-- **header.** -/
theorem header_summary (p : Bytes) (ext : Option Nat) (hp : 12 ≤ p.length) :
    hTid p = .ok (get16 p 0) ∧ hOpcode p = .ok (C12.opcodeOf (C12.word p)) ∧
    hRcode p = .ok (C12.rcodeOf (C12.word p)) ∧
    hIsResponse p ext = .ok ((C12.word p).testBit 15) ∧
    (∃ f, hFlags p ext = .ok f ∧ (∀ i, i < 16 → f.testBit i = (flagBit i && (C12.word p).testBit i)) ∧
        (∀ i, f.testBit (i + 16) = (ext.getD 0).testBit i)) ∧
    hDnssec p ext = .ok (if (C12.word p).testBit 15 then (C12.word p).testBit 5 else (ext.getD 0).testBit 15) := by
  obtain ⟨g1, g2, g3, g4, f, hf, hlo, hhi⟩ := C12.getters p ext hp
  refine ⟨g1, g2, g3, g4, ⟨f, hf, hlo, hhi⟩, ?_⟩
  unfold hDnssec
  simp only [hf, bind_ok, pure_eq]
  have e15 : DNS_FLAG_QR = 2 ^ 15 := rfl
  have e31 : DNS_FLAG_DO = 2 ^ 31 := rfl
  have e5 : DNS_FLAG_AD = 2 ^ 5 := rfl
  have b15 : f.testBit 15 = (C12.word p).testBit 15 := by rw [hlo 15 (by decide)]; simp +decide [flagBit]
  have b5 : f.testBit 5 = (C12.word p).testBit 5 := by rw [hlo 5 (by decide)]; simp +decide [flagBit]
  have b31 : f.testBit 31 = (ext.getD 0).testBit 15 := hhi 15
  rw [e15, e31, e5, and_two_pow_eq, and_two_pow_eq, and_two_pow_eq, b15, b5, b31]
  cases (C12.word p).testBit 15 <;> cases (C12.word p).testBit 5 <;> cases (ext.getD 0).testBit 15 <;> simp +decide

/-- **question.** With `ls` the labels of the question name: raw form `encLabels ls ++ [0]`,
raw-without-root `encLabels ls`, text `lowercase (join "." ls)`, type and class the two words after
the name as written; the same answers once the cache is filled. -/
theorem question_summary {p : Bytes} {v : View} (h : parse p = .ok v) :
    ∃ qe ls, ValidName p 12 ls qe ∧
      let pp := PP.ofView p v
      let q := (encLabels ls ++ [0], get16 p qe, get16 p (qe + 2))
      let pp' := { pp with cached := some q }
      questionRaw0 pp = .ok (some q, pp') ∧
      questionRaw pp = .ok (some (encLabels ls, q.2.1, q.2.2), pp') ∧
      questionText pp = .ok (some (lowerBytes (joinText [] ls), q.2.1, q.2.2)) ∧
      qtypeQclass pp = .ok (some (q.2.1, q.2.2)) ∧
      questionRaw0 pp' = .ok (some q, pp') ∧
      questionRaw pp' = .ok (some (encLabels ls, q.2.1, q.2.2), pp') ∧
      questionText pp' = .ok (some (lowerBytes (joinText [] ls), q.2.1, q.2.2)) ∧
      qtypeQclass pp' = .ok (some (q.2.1, q.2.2)) := by
  obtain ⟨hl, _, qe, _, _, _, _, _, hne, hq4, _, _, _, _, v1, _⟩ := parse_ok_decomp h
  obtain ⟨ls, hv⟩ := hne
  refine ⟨qe, ls, hv, ?_⟩
  have hgt : 12 < qe := hv.2.1.lt
  have hcopy := copyUncompressedName_valid hv
  have hstr := rawNameToStr_valid hv
  have hlen : rawNameLen (p.drop 12) = .ok (qe - 12) := rawNameLen_nameAt hv.2.1 (by omega)
  have ht : be16 p qe = .ok (get16 p qe) := (be16_ok_of_le (p := p) (i := qe) (by omega)).1
  have hc : be16 p (qe + 2) = .ok (get16 p (qe + 2)) := (be16_ok_of_le (p := p) (i := qe + 2) (by omega)).1
  have hsl : sliceFrom p qe = .ok (p.drop qe) := by simp [sliceFrom]; omega
  have hsl12 : sliceFrom p 12 = .ok (p.drop 12) := by simp [sliceFrom]; omega
  have hq12 : 12 + (qe - 12) = qe := by omega
  have hsub : sub (encLabels ls ++ [0]).length 1 = .ok (encLabels ls).length := by simp [sub]
  have hstr' := rawNameToStr_valid (validName_enc hv)
  have r0 : questionRaw0 (PP.ofView p v) = .ok (some (encLabels ls ++ [0], get16 p qe, get16 p (qe + 2)),
      { PP.ofView p v with cached := some (encLabels ls ++ [0], get16 p qe, get16 p (qe + 2)) }) := by
    simp [questionRaw0, PP.ofView, v1, hcopy, hsl, DNS_RR_TYPE_OFFSET, DNS_RR_CLASS_OFFSET, ht, hc]
  have r0' : questionRaw0 { PP.ofView p v with cached := some (encLabels ls ++ [0], get16 p qe, get16 p (qe + 2)) } =
      .ok (some (encLabels ls ++ [0], get16 p qe, get16 p (qe + 2)),
        { PP.ofView p v with cached := some (encLabels ls ++ [0], get16 p qe, get16 p (qe + 2)) }) := by
    simp [questionRaw0]
  refine ⟨r0, ?_, ?_, ?_, r0', ?_, ?_, ?_⟩
  · simp only [questionRaw, r0, bind_ok, hsub, pure_eq]
    simp
  · simp [questionText, PP.ofView, v1, hstr, hsl12, hlen, hq12, hsl, DNS_RR_TYPE_OFFSET, DNS_RR_CLASS_OFFSET, ht, hc]
  · simp [qtypeQclass, PP.ofView, v1, hsl12, hlen, hq12, hsl, DNS_RR_TYPE_OFFSET, DNS_RR_CLASS_OFFSET, ht, hc]
  · simp only [questionRaw, r0', bind_ok, hsub, pure_eq]
    simp
  · simp [questionText, hstr']
  · simp [qtypeQclass]

/-- **EDNS.** The summary is that of the additional section's OPT record, if any; no other section
holds one. -/
theorem edns_summary {p : Bytes} {v : View} (h : parse p = .ok v) :
    ∃ L : C03.Layout p,
      (∀ r ∈ L.answers ++ L.authority, get16 p r.ne ≠ 41) ∧
      match firstOpt p L.additional with
      | none => v.info = EdnsInfo.none
      | some r => ∃ n, OptionsTile p (r.ne + 10) (r.ne + 10 + get16 p (r.ne + 8)) n ∧ v.info = optInfo p r.ne n := by
  obtain ⟨_, _, qe, la, ln, lr, e2, o2, e3, o3, o4, i2, i3, hne, hq4, _, hla, hln, hlr, ra, rn, rr, ia, inn, ir, _⟩ :=
    parse_ok_layout h
  have na := ra.no_opt_of_sec (by decide)
  have nn := rn.no_opt_of_sec (by decide)
  have e2' : i2 = EdnsInfo.none := ia.no_opt na
  have e3' : i3 = i2 := inn.no_opt nn
  subst e3'; subst e2'
  refine ⟨⟨qe, la, ln, lr, e2, e3, o2, o3, o4, ⟨hne, hq4⟩, ra, rn, rr, hla, hln, hlr⟩, ?_, info_of_run rr ir⟩
  intro r hr
  rcases List.mem_append.1 hr with h | h
  · exact na r h
  · exact nn r h

/-! non-vacuity: a response with an OPT carrying one option, a query without OPT -/
example : (parse C02.okPacket).isOk = true := by decide


/-! ### The header summary, stated about the getters translated from the current source text
(`Generated/TrHeader.lean`, rewritten by rs2lean.py on every run; equalities in `Tie/Header.lean`).
`ExtOK`: the EDNS flags are an `Option<u16>` in Rust. -/

theorem source_header_summary (p : Bytes) (ext : Option Nat) (hp : 12 ≤ p.length) (hext : Tie.ExtOK ext) :
    Tr.Header.tid p = .ok (get16 p 0) ∧ Tr.Header.opcode p = .ok (C12.opcodeOf (C12.word p)) ∧
    Tr.Header.rcode p = .ok (C12.rcodeOf (C12.word p)) ∧
    Tr.Header.is_response p ext = .ok ((C12.word p).testBit 15) ∧
    (∃ f, Tr.Header.flags p ext = .ok f ∧ (∀ i, i < 16 → f.testBit i = (flagBit i && (C12.word p).testBit i)) ∧
        (∀ i, f.testBit (i + 16) = (ext.getD 0).testBit i)) ∧
    Tr.Header.dnssec p ext = .ok (if (C12.word p).testBit 15 then (C12.word p).testBit 5 else (ext.getD 0).testBit 15) := by
  simp only [Tie.tid_eq, Tie.opcode_eq, Tie.rcode_eq, Tie.is_response_eq p ext hext, Tie.flags_eq p ext hext,
    Tie.dnssec_eq p ext hext]
  exact header_summary p ext hp

end Dns.C04
