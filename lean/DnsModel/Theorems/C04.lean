import DnsModel.Iter
namespace Dns.C04
end Dns.C04
