/-
  DnsModel.Basic — bytes, outcomes of Rust calls, bounds-checked reads.

  Every Rust function of dnssector is modelled as a total Lean function returning `Res α`:
  `ok v`, `err kind` (a `DSError` variant), `panic` (slice index out of range, arithmetic
  underflow/overflow in a debug build, failed `assert!`, `unwrap` on `None`), or `diverge`
  (fuel exhausted: the Rust loop would not have terminated within the fuel we give it).
-/
namespace Dns

abbrev Bytes := List UInt8

/-- mirror of `errors.rs: DSError` (payloads dropped: messages are not compared) -/
inductive Err
  | packetTooSmall | packetTooLarge | unsupportedClass | internalError | invalidName
  | invalidPacket | unsupportedRRType | unsupportedRRClass | voidRecord | propertyNotFound
  | wrongAddressFamily | parseError
  deriving Repr, DecidableEq, Inhabited

def Err.name : Err → String
  | .packetTooSmall => "PacketTooSmall" | .packetTooLarge => "PacketTooLarge"
  | .unsupportedClass => "UnsupportedClass" | .internalError => "InternalError"
  | .invalidName => "InvalidName" | .invalidPacket => "InvalidPacket"
  | .unsupportedRRType => "UnsupportedRRType" | .unsupportedRRClass => "UnsupportedRRClass"
  | .voidRecord => "VoidRecord" | .propertyNotFound => "PropertyNotFound"
  | .wrongAddressFamily => "WrongAddressFamily" | .parseError => "ParseError"

inductive Res (α : Type) where
  | ok (a : α) | err (e : Err) | panic | diverge
  deriving Repr, DecidableEq, Inhabited

namespace Res
@[inline] def bind {α β : Type} (x : Res α) (f : α → Res β) : Res β :=
  match x with
  | .ok a => f a
  | .err e => .err e
  | .panic => .panic
  | .diverge => .diverge

instance : Monad Res where
  pure := .ok
  bind := Res.bind

@[simp] theorem pure_eq {α} (a : α) : (pure a : Res α) = .ok a := rfl
@[simp] theorem bind_ok {α β} (a : α) (f : α → Res β) : (Res.ok a >>= f) = f a := rfl
@[simp] theorem bind_err {α β} (e : Err) (f : α → Res β) : (Res.err e >>= f) = .err e := rfl
@[simp] theorem bind_panic {α β} (f : α → Res β) : ((Res.panic : Res α) >>= f) = .panic := rfl
@[simp] theorem bind_diverge {α β} (f : α → Res β) : ((Res.diverge : Res α) >>= f) = .diverge := rfl
@[simp] theorem bind_def {α β} (x : Res α) (f : α → Res β) : Res.bind x f = (x >>= f) := rfl

/-- the call returned normally (`Ok` or `Err`), i.e. neither panicked nor looped -/
def Returns {α} (x : Res α) : Prop := x ≠ .panic ∧ x ≠ .diverge

def isOk {α} : Res α → Bool | .ok _ => true | _ => false

theorem bind_eq_ok {α β} {x : Res α} {f : α → Res β} {b : β} :
    (x >>= f) = .ok b ↔ ∃ a, x = .ok a ∧ f a = .ok b := by
  cases x <;> simp

theorem bind_ne_panic {α β} {x : Res α} {f : α → Res β}
    (h1 : x ≠ .panic) (h2 : ∀ a, x = .ok a → f a ≠ .panic) : (x >>= f) ≠ .panic := by
  cases x <;> simp_all

theorem bind_ne_diverge {α β} {x : Res α} {f : α → Res β}
    (h1 : x ≠ .diverge) (h2 : ∀ a, x = .ok a → f a ≠ .diverge) : (x >>= f) ≠ .diverge := by
  cases x <;> simp_all

theorem bind_returns {α β} {x : Res α} {f : α → Res β}
    (h1 : x.Returns) (h2 : ∀ a, x = .ok a → (f a).Returns) : (x >>= f).Returns := by
  cases x <;> simp_all [Returns]

theorem returns_ok {α} (a : α) : (Res.ok a).Returns := by simp [Returns]
theorem returns_err {α} (e : Err) : (Res.err e : Res α).Returns := by simp [Returns]

theorem returns_cases {α} {x : Res α} (h : x.Returns) : (∃ a, x = .ok a) ∨ (∃ e, x = .err e) := by
  cases x <;> simp_all [Returns]
end Res

/-- `bail!(e)` when the condition holds -/
@[inline] def failIf (c : Bool) (e : Err) : Res Unit := if c then .err e else .ok ()

/-- `assert!(c)` -/
@[inline] def assert (c : Bool) : Res Unit := if c then .ok () else .panic

def byteAt (p : Bytes) (i : Nat) : Option Nat := (p[i]?).map (·.toNat)

theorem byteAt_lt {p : Bytes} {i b : Nat} (h : byteAt p i = some b) : b < 256 := by
  unfold byteAt at h
  cases hp : p[i]? with
  | none => simp [hp] at h
  | some x => simp [hp] at h; subst h; exact x.toNat_lt

theorem byteAt_lt_length {p : Bytes} {i b : Nat} (h : byteAt p i = some b) : i < p.length := by
  unfold byteAt at h
  cases hp : p[i]? with
  | none => simp [hp] at h
  | some x => exact (List.getElem?_eq_some_iff.1 hp).1

theorem byteAt_of_lt {p : Bytes} {i : Nat} (h : i < p.length) : ∃ b, byteAt p i = some b ∧ b < 256 := by
  unfold byteAt
  simp [List.getElem?_eq_getElem h]
  exact (p[i]).toNat_lt

/-- `packet[i]` : panics when out of bounds, like a Rust slice index -/
def idx (p : Bytes) (i : Nat) : Res Nat := match byteAt p i with | some b => .ok b | none => .panic

theorem idx_ok_of_lt {p : Bytes} {i : Nat} (h : i < p.length) : ∃ b, idx p i = .ok b ∧ b < 256 := by
  obtain ⟨b, hb, hlt⟩ := byteAt_of_lt h
  exact ⟨b, by simp [idx, hb], hlt⟩

theorem idx_ok_iff {p : Bytes} {i b : Nat} : idx p i = .ok b ↔ byteAt p i = some b := by
  unfold idx; cases h : byteAt p i <;> simp

theorem idx_of_byteAt {p : Bytes} {i b : Nat} (h : byteAt p i = some b) : idx p i = .ok b := idx_ok_iff.2 h

theorem idx_cases (p : Bytes) (i : Nat) :
    (∃ b, idx p i = .ok b ∧ byteAt p i = some b ∧ b < 256) ∨ idx p i = .panic := by
  unfold idx; cases h : byteAt p i with
  | none => right; rfl
  | some b => left; exact ⟨b, rfl, rfl, byteAt_lt h⟩

theorem idx_ne_diverge (p : Bytes) (i : Nat) : idx p i ≠ .diverge := by
  unfold idx; cases byteAt p i <;> simp

theorem idx_ne_err (p : Bytes) (i : Nat) (e : Err) : idx p i ≠ .err e := by
  unfold idx; cases byteAt p i <;> simp

/-- `BigEndian::read_u16(&p[i..])`: panics unless two bytes are available -/
def be16 (p : Bytes) (i : Nat) : Res Nat := do
  let hi ← idx p i
  let lo ← idx p (i + 1)
  pure (hi * 256 + lo)

/-- `BigEndian::read_u32(&p[i..])` -/
def be32 (p : Bytes) (i : Nat) : Res Nat := do
  let a ← be16 p i
  let b ← be16 p (i + 2)
  pure (a * 65536 + b)

/-- pure (non-panicking) reads for contexts where the bounds have been established; out-of-range
bytes read as 0.  Used by the specification side only. -/
def getB (p : Bytes) (i : Nat) : Nat := (byteAt p i).getD 0
def get16 (p : Bytes) (i : Nat) : Nat := getB p i * 256 + getB p (i + 1)
def get32 (p : Bytes) (i : Nat) : Nat := get16 p i * 65536 + get16 p (i + 2)

theorem be16_ok_of_le {p : Bytes} {i : Nat} (h : i + 2 ≤ p.length) :
    be16 p i = .ok (get16 p i) ∧ get16 p i < 65536 := by
  obtain ⟨a, ha, hal⟩ := byteAt_of_lt (p := p) (i := i) (by omega)
  obtain ⟨b, hb, hbl⟩ := byteAt_of_lt (p := p) (i := i + 1) (by omega)
  simp [be16, get16, getB, idx, ha, hb]
  omega

theorem get16_lt (p : Bytes) (i : Nat) : get16 p i < 65536 := by
  unfold get16 getB
  have h1 : (byteAt p i).getD 0 < 256 := by
    cases h : byteAt p i with
    | none => simp
    | some b => simpa using byteAt_lt h
  have h2 : (byteAt p (i+1)).getD 0 < 256 := by
    cases h : byteAt p (i+1) with
    | none => simp
    | some b => simpa using byteAt_lt h
  omega

theorem be16_cases (p : Bytes) (i : Nat) :
    (i + 2 ≤ p.length ∧ be16 p i = .ok (get16 p i)) ∨ (p.length < i + 2 ∧ be16 p i = .panic) := by
  by_cases h : i + 2 ≤ p.length
  · left; exact ⟨h, (be16_ok_of_le h).1⟩
  · right
    refine ⟨by omega, ?_⟩
    unfold be16
    rcases idx_cases p i with ⟨a, ha, hba, _⟩ | hp
    · have hi := byteAt_lt_length hba
      have : byteAt p (i+1) = none := by
        unfold byteAt
        have : p.length ≤ i + 1 := by omega
        simp [List.getElem?_eq_none this]
      have h2 : idx p (i+1) = .panic := by simp [idx, this]
      simp [ha, h2]
    · simp [hp]

/-- `a - b` on `usize` in a debug build -/
def sub (a b : Nat) : Res Nat := if b ≤ a then .ok (a - b) else .panic

/-- `&p[a..b]` -/
def slice (p : Bytes) (a b : Nat) : Res Bytes :=
  if a ≤ b ∧ b ≤ p.length then .ok ((p.drop a).take (b - a)) else .panic

/-- `&p[a..]` -/
def sliceFrom (p : Bytes) (a : Nat) : Res Bytes :=
  if a ≤ p.length then .ok (p.drop a) else .panic

def isPtr (b : Nat) : Bool := b &&& 0xc0 == 0xc0
theorem isPtr_iff : ∀ b : Fin 256, isPtr b.val = decide (b.val ≥ 192) := by decide +kernel
theorem isPtr_iff' (b : Nat) (h : b < 256) : isPtr b = true ↔ 192 ≤ b := by
  have := isPtr_iff ⟨b, h⟩
  simp at this
  rw [this]; simp

def put16 (v : Nat) : Bytes := [UInt8.ofNat (v / 256 % 256), UInt8.ofNat (v % 256)]
def put32 (v : Nat) : Bytes := put16 (v / 65536 % 65536) ++ put16 (v % 65536)

/-- overwrite `p[i .. i + v.length]` with `v` (`copy_from_slice` on a sub-slice); panics when out of range -/
def writeAt (p : Bytes) (i : Nat) (v : Bytes) : Res Bytes :=
  if i + v.length ≤ p.length then .ok (p.take i ++ v ++ p.drop (i + v.length)) else .panic

def toLowerB (c : UInt8) : UInt8 := if 65 ≤ c.toNat ∧ c.toNat ≤ 90 then UInt8.ofNat (c.toNat + 32) else c
def lowerBytes (b : Bytes) : Bytes := b.map toLowerB

end Dns
