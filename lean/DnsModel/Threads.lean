/-
  DnsModel.Threads — the per-thread error slot of the C facade (c_abi.rs: `thread_local! CERR`,
  `throw_err`, `error_description`) and sessions of pure calls (C17).
-/
import DnsModel.Basic
namespace Dns

abbrev Tid := Nat
abbrev MsgId := Nat

/-- the slots: the last failure message of each thread, if any -/
abbrev Slots := Tid → Option MsgId

inductive TStep
  | fail (t : Tid) (m : MsgId)   -- a failing table call on thread `t`: `throw_err` stores the description
  | read (t : Tid)               -- `error_description` of the pointer obtained at `t`'s last failure
  deriving DecidableEq, Repr

def Slots.init : Slots := fun _ => none

/-- one step: new slots and what a `read` observes -/
def tstep (s : Slots) : TStep → Slots × Option (Option MsgId)
  | .fail t m => (fun u => if u = t then some m else s u, none)
  | .read t => (s, some (s t))

def trun : Slots → List TStep → List (Option (Option MsgId)) → Slots × List (Option (Option MsgId))
  | s, [], acc => (s, acc.reverse)
  | s, st :: rest, acc => let (s', o) := tstep s st; trun s' rest (o :: acc)

/-- the specification: the message of the last `fail t _` in a history (latest first search) -/
def lastFail (t : Tid) : List TStep → Option MsgId
  | [] => none
  | .fail u m :: rest => match lastFail t rest with
      | some x => some x
      | none => if u = t then some m else none
  | .read _ :: rest => lastFail t rest

end Dns
