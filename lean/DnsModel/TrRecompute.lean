/-
  DnsModel.TrRecompute — what the translated `insert_rr` calls but the translator does not translate:
  `Compress::uncompress` (the model function `uncompress`) and `ParsedPacket::recompute` (the model function
  `PP.recompute`, here with its fields spread out and its error returned as an error).  Both are tied to the
  source by correspondence only.
-/
import DnsModel.Mutate
import DnsModel.TrSupport
namespace Dns.Tr

def recomputeFields (packet : Bytes) (oq oa ons oad oe : Option Nat) (ec : Nat) (rc ver fl : Option Nat)
    (mc : Bool) (mp : Nat) (cached : Option (Bytes × Nat × Nat)) :
    Res (Bytes × Option Nat × Option Nat × Option Nat × Option Nat × Option Nat × Bool × Option (Bytes × Nat × Nat)) :=
  let pp : PP := { packet := packet, offsetQuestion := oq, offsetAnswers := oa, offsetNameservers := ons,
                   offsetAdditional := oad, offsetEdns := oe, ednsCount := ec, extRcode := rc, ednsVersion := ver,
                   extFlags := fl, maybeCompressed := mc, maxPayload := mp, cached := cached }
  pp.recompute >>= fun r =>
    match r.2 with
    | some e => .err e
    | none => .ok (r.1.packet, r.1.offsetQuestion, r.1.offsetAnswers, r.1.offsetNameservers, r.1.offsetAdditional,
                   r.1.offsetEdns, r.1.maybeCompressed, r.1.cached)

end Dns.Tr
