/-
  DnsModel.Dispatch — text protocol between the Rust harness and the model (see DESIGN.md §5.1).
  Pure: `dispatch : String → String`.
-/
import DnsModel.Dump
import DnsModel.Script
import DnsModel.Synth
import DnsModel.Steps
import DnsModel.CAbi
import DnsModel.Threads
namespace Dns

/-- cursor script: `set n`, `inc n`, `rdlen`, `ednsrdlen`, a final `parse` — one result per step, then the offset -/
def cursorSteps (p : Bytes) : List String → Sector → List String → String
  | [], s, acc => String.intercalate " " (acc.reverse ++ [s!"off={s.offset}"])
  | "set" :: n :: rest, s, acc =>
    match Sector.setOffset p s n.toNat! with
    | .ok (s', old) => cursorSteps p rest s' (s!"ok:{old}" :: acc)
    | r => cursorSteps p rest s ((fmtRes (fun _ => "") r).replace " " ":" :: acc)
  | "inc" :: n :: rest, s, acc =>
    match Sector.incrementOffset p s n.toNat! with
    | .ok (s', old) => cursorSteps p rest s' (s!"ok:{old}" :: acc)
    | r => cursorSteps p rest s ((fmtRes (fun _ => "") r).replace " " ":" :: acc)
  | "rdlen" :: rest, s, acc =>
    cursorSteps p rest s ((fmtRes toString (Sector.rrRdlen p s)).replace " " ":" :: acc)
  | "ednsrdlen" :: rest, s, acc =>
    cursorSteps p rest s ((fmtRes toString (Sector.ednsRrRdlen p s)).replace " " ":" :: acc)
  -- `parse` (last step; it consumes the sector): the verdict is that of a fresh sector over the same bytes,
  -- wherever the cursor calls left the cursor
  | ["parse"], s, acc =>
    String.intercalate " " (acc.reverse ++ [s!"off={s.offset}", "parse=" ++ (fmtRes fmtView (parse p)).replace " " ":"])
  | _ :: _, _, _ => "bad-op"

def secOfTag (t : String) : Option (Section × Bool) :=
  match t with
  | "Q" => some (.question, false) | "A" => some (.answer, false) | "N" => some (.nameServers, false)
  | "R" => some (.additional, false) | "O" => some (.additional, true) | "E" => some (.edns, false)
  | _ => none

def parseOp : List String → Option Op
  | ["settid", n] => n.toNat?.map (fun n => .setTid (n % 65536))
  | ["setflags", n] => n.toNat?.map (fun n => .setFlags (n % 4294967296))
  | ["setopcode", n] => n.toNat?.map (fun n => .setOpcode (n % 256))
  | ["setrcode", n] => n.toNat?.map (fun n => .setRcode (n % 256))
  | ["setresponse", n] => n.toNat?.map (fun n => .setResponse (n != 0))
  | ["open", t] => (secOfTag t).map (fun (s, incl) => .openSec s incl)
  | ["next"] => some .next
  | ["nextopt"] => some .nextOpt
  | ["close"] => some .close
  | ["setname", h] => (parseHex h).map .setName
  | ["delete"] => some .delete
  | ["ttl", n] => n.toNat?.map (fun n => .ttl (n % 4294967296))
  | ["ip", h] => (parseHex h).map .ip
  | ["ituncompress"] => some .itUncompress
  | ["name"] => some .name
  | ["insert", t, h] =>
    match secOfTag t, parseHex h with
    | some (s, _), some txt => some (.insert s (synth txt))
    | _, _ => none
  | ["insertq", h, t, c] =>
    match parseHex h, t.toNat?, c.toNat? with
    | some n, some t, some c => some (.insert .question (rrNewQuestion n t c))
    | _, _, _ => none
  | ["rename", t, s, sfx] =>
    match parseHex t, parseHex s with
    | some t, some s => some (.rename t s (sfx == "1"))
    | _, _ => none
  | ["recompute"] => some .recompute
  | ["qcache"] => some .qcache
  | _ => none

def splitOps (ws : List String) : List (List String) :=
  (ws.foldr (fun w (acc : List (List String)) =>
    if w == ";" then [] :: acc else match acc with | [] => [[w]] | h :: t => (w :: h) :: t) [[]]).filter (· ≠ [])

def runScriptLine (init : String) (ws : List String) : String :=
  let st0 : Option (Res State) :=
    if init.startsWith "empty:" then
      ((init.drop 6).toNat?).map (fun tid => (PP.empty (tid % 65536)).bind (fun pp => .ok { pp := pp, cur := none }))
    else (parseHex init).map (fun p => (parsePP p).bind (fun pp => .ok { pp := pp, cur := none }))
  match st0 with
  | none => "bad-init"
  | some (.ok st) =>
    let ops := (splitOps ws).map parseOp
    if ops.any Option.isNone then "bad-op" else
    String.intercalate " ; " (runScript st (ops.filterMap id) [])
  | some r => "noparse " ++ fmtRes (fun _ => "") r

def parseCAction : List String → Option CAction
  | ["name"] => some .name
  | ["type"] => some .rrType
  | ["class"] => some .rrClass
  | ["ttl"] => some .ttl
  | ["setttl", n] => n.toNat?.map (fun n => .setTtl (n % 4294967296))
  | ["ip"] => some (.ip 16)
  | ["ipcap", n] => n.toNat?.map .ip
  | ["setip", h] => (parseHex h).map .setIp
  | ["setrawname", h] => (parseHex h).map .setRawName
  | ["setname", h, z] =>
    -- c_abi.rs: a NULL zone pointer or a zero length both mean "no default zone"
    (parseHex h).map (fun t => .setName t (if z == "." || z == "-" then none else parseHex z))
  | ["delete"] => some .delete
  | ["delete2"] => some .delete2
  | ["none"] => some .nothing
  | _ => none

def parseCOp : List String → Option COp
  | ["flags"] => some .flags
  | ["setflags", n] => n.toNat?.map (fun n => .setFlags (n % 4294967296))
  | ["rcode"] => some .rcode
  | ["setrcode", n] => n.toNat?.map (fun n => .setRcode (n % 256))
  | ["opcode"] => some .opcode
  | ["setopcode", n] => n.toNat?.map (fun n => .setOpcode (n % 256))
  | "iter" :: t :: k :: act =>
    match secOfTag t, k.toNat?, parseCAction act with
    | some (s, _), some k, some a => some (.iter s k a)
    | _, _, _ => none
  | ["addq", h] => (parseHex h).map (.add .question)
  | ["adda", h] => (parseHex h).map (.add .answer)
  | ["addn", h] => (parseHex h).map (.add .nameServers)
  | ["addr", h] => (parseHex h).map (.add .additional)
  | ["rawpacket", n] => n.toNat?.map .rawPacket
  | ["question"] => some .question
  | ["rename", t, s, sfx] =>
    match parseHex t, parseHex s with
    | some t, some s => some (.rename t s (sfx == "1"))
    | _, _ => none
  | ["name2raw", h] => (parseHex h).map .name2raw
  | ["abi"] => some .abi
  | _ => none

def runCabiLine (init : String) (ws : List String) : String :=
  match parseHex init with
  | none => "bad-init"
  | some p =>
    match parsePP p with
    | .ok pp =>
      let ops := (splitOps ws).map parseCOp
      if ops.any Option.isNone then "bad-op" else
      String.intercalate " ; " (runCabi pp (ops.filterMap id) [])
    | r => "noparse " ++ fmtRes (fun _ => "") r

def parseTStep (w : String) : Option TStep :=
  let ds := w.toList.takeWhile Char.isDigit
  let rest := w.toList.drop ds.length
  match (String.ofList ds).toNat?, rest with
  | some t, 'f' :: m => ((String.ofList m).toNat?).map (fun m => .fail t m)
  | some t, ['r'] => some (.read t)
  | _, _ => none

/-- `<tid>s<k>`: a table call on thread `tid` that succeeds (kind `k`): it returns 0 and is no step of the slot
machine (the description of the thread's last failure stays what it was) -/
def parseSuccess (w : String) : Option Tid :=
  let ds := w.toList.takeWhile Char.isDigit
  let rest := w.toList.drop ds.length
  match (String.ofList ds).toNat?, rest with
  | some t, 's' :: k => ((String.ofList k).toNat?).map (fun _ => t)
  | _, _ => none

def runErrslots (ws : List String) : String :=
  let steps : List (Option (Sum TStep Tid)) := ws.map (fun w =>
    match parseTStep w with
    | some st => some (.inl st)
    | none => (parseSuccess w).map .inr)
  if steps.any Option.isNone then "bad-op" else
  let steps := steps.filterMap id
  let rec go (s : Slots) : List (Sum TStep Tid) → List String → List String
    | [], acc => acc.reverse
    | .inr t :: rest, acc => go s rest (s!"t{t}s=0" :: acc)
    | .inl st :: rest, acc =>
      let (s', o) := tstep s st
      let txt := match st, o with
        | .fail t _, _ => s!"t{t}f=-1"
        | .read t, some (some m) => s!"t{t}={m}"
        | .read t, _ => s!"t{t}=none"
      go s' rest (txt :: acc)
  String.intercalate " " (go Slots.init steps [])

partial def dispatchWords : List String → String
  | ["parse", h] =>
    match parseHex h with
    | some p => fmtRes fmtView (parse p)
    | none => "bad-hex"
  | ["checkc", h, off] =>
    match parseHex h, off.toNat? with
    | some p, some o => fmtRes toString (checkCompressedName p o)
    | _, _ => "bad-args"
  | ["checku", h, off] =>
    match parseHex h, off.toNat? with
    | some p, some o => fmtRes toString (checkUncompressedName p o)
    | _, _ => "bad-args"
  | ["uncompress", h, r] =>
    match parseHex h with
    | some p =>
      if r == "-" then
        let first := uncompress p
        let idem := match first with
          | .ok u => (match uncompress u with | .ok u2 => if u2 == u then " idem=1" else " idem=0" | _ => " idem=fail")
          | _ => ""
        fmtRes toHex first ++ idem
      else match r.toNat? with
        | some ro => fmtRes (fun (x : Bytes × Nat) => s!"{toHex x.1} {x.2}") (uncompressWithPreviousOffset p ro)
        | none => "bad-args"
    | none => "bad-hex"
  | ["compress", h] =>
    match parseHex h with
    | some p => fmtRes toHex (compress p)
    | none => "bad-hex"
  | ["rename", h, t, s, sfx] =>
    match parseHex h, parseHex t, parseHex s with
    | some p, some t, some s =>
      (match parsePP p with
        | .ok pp => fmtRes toHex (renameWithRawNames pp t s (sfx == "1"))
        | r => "noparse " ++ fmtRes (fun _ => "") r)
    | _, _, _ => "bad-hex"
  | "script" :: init :: ws => runScriptLine init ws
  | "errslots" :: _n :: ws => runErrslots ws
  | "session" :: ws =>
    let cases := (ws.foldr (fun w (acc : List (List String)) =>
      if w == "|" then [] :: acc else match acc with | [] => [[w]] | h :: t => (w :: h) :: t) [[]]).filter (· ≠ [])
    "seq=ok conc=ok || " ++ String.intercalate " || " (cases.map dispatchWords)
  | "cabi" :: init :: ws => runCabiLine init ws
  | "cabic" :: init :: ws => let t := runCabiLine init ws; t ++ " @@ " ++ t
  | ["synth", h] =>
    match parseHex h with
    | some t => fmtRes toHex (synth t)
    | none => "bad-hex"
  | ["name2raw", h, z] =>
    match parseHex h with
    | some n =>
      let first := rawNameFromStr n (if z == "." then none else parseHex z)
      let rt := match first with
        | .ok raw =>
          (match parseHex "12348180000100010000000001710000010001036f6c64076578616d706c650000010001000000050004c0000201" with
          | some pk =>
            (match parsePP pk with
            | .ok pp =>
              (match nextSkippingOpt pp (Cursor.new .answer) with
              | .ok (some c) =>
                (match setRawName pp c raw with
                | .ok o => (match o.result with
                  | none => " rt=" ++ fld toHex (o.cur.name o.pp.packet)
                  | some e => " rt=err:" ++ e.name)
                | _ => " rt=panic")
              | _ => " rt=panic")
            | _ => " rt=panic")
          | none => "")
        | _ => ""
      fmtRes toHex first ++ rt
    | none => "bad-hex"
  | ["steps", h] =>
    match parseHex h with
    | some p => let r := parseI p; s!"{(fmtRes (fun _ => "") r.res).trimAscii.toString} steps={r.steps}"
    | none => "bad-hex"
  | ["iter", h] =>
    match parseHex h with
    | some p => (match parsePP p with
        | .ok pp => iterDump pp
        | r => "noparse " ++ fmtRes (fun _ => "") r)
    | none => "bad-hex"
  | ["summary", h] =>
    match parseHex h with
    | some p => (match parsePP p with
        | .ok pp => summaryDump pp
        | r => "noparse " ++ fmtRes (fun _ => "") r)
    | none => "bad-hex"
  | ["hdr", h, ext, setter, arg] =>
    match parseHex h, arg.toNat? with
    | some p, some a => hdrOp p ext.toNat? setter a
    | _, _ => "bad-args"
  | "cursor" :: h :: steps =>
    match parseHex h with
    | some p => cursorSteps p steps Sector.new []
    | none => "bad-hex"
  | _ => "bad-op"

def dispatch (line : String) : String :=
  dispatchWords ((line.splitOn " ").filter (fun w => w ≠ "" ∧ !w.startsWith "#"))

end Dns
