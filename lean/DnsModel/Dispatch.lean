/-
  DnsModel.Dispatch — text protocol between the Rust harness and the model (see DESIGN.md §5.1).
  Pure: `dispatch : String → String`.
-/
import DnsModel.Dump
import DnsModel.Renamer
namespace Dns

/-- cursor script: `set n`, `inc n`, `rdlen`, `ednsrdlen` — one result per step, then the offset -/
def cursorSteps (p : Bytes) : List String → Sector → List String → String
  | [], s, acc => String.intercalate " " (acc.reverse ++ [s!"off={s.offset}"])
  | "set" :: n :: rest, s, acc =>
    match Sector.setOffset p s n.toNat! with
    | .ok (s', old) => cursorSteps p rest s' (s!"ok:{old}" :: acc)
    | r => cursorSteps p rest s ((fmtRes (fun _ => "") r).replace " " ":" :: acc)
  | "inc" :: n :: rest, s, acc =>
    match Sector.incrementOffset p s n.toNat! with
    | .ok (s', old) => cursorSteps p rest s' (s!"ok:{old}" :: acc)
    | r => cursorSteps p rest s ((fmtRes (fun _ => "") r).replace " " ":" :: acc)
  | "rdlen" :: rest, s, acc =>
    cursorSteps p rest s ((fmtRes toString (Sector.rrRdlen p s)).replace " " ":" :: acc)
  | "ednsrdlen" :: rest, s, acc =>
    cursorSteps p rest s ((fmtRes toString (Sector.ednsRrRdlen p s)).replace " " ":" :: acc)
  | _ :: _, _, _ => "bad-op"

def dispatchWords : List String → String
  | ["parse", h] =>
    match parseHex h with
    | some p => fmtRes fmtView (parse p)
    | none => "bad-hex"
  | ["checkc", h, off] =>
    match parseHex h, off.toNat? with
    | some p, some o => fmtRes toString (checkCompressedName p o)
    | _, _ => "bad-args"
  | ["checku", h, off] =>
    match parseHex h, off.toNat? with
    | some p, some o => fmtRes toString (checkUncompressedName p o)
    | _, _ => "bad-args"
  | ["uncompress", h, r] =>
    match parseHex h with
    | some p =>
      if r == "-" then
        let first := uncompress p
        let idem := match first with
          | .ok u => (match uncompress u with | .ok u2 => if u2 == u then " idem=1" else " idem=0" | _ => " idem=fail")
          | _ => ""
        fmtRes toHex first ++ idem
      else match r.toNat? with
        | some ro => fmtRes (fun (x : Bytes × Nat) => s!"{toHex x.1} {x.2}") (uncompressWithPreviousOffset p ro)
        | none => "bad-args"
    | none => "bad-hex"
  | ["compress", h] =>
    match parseHex h with
    | some p => fmtRes toHex (compress p)
    | none => "bad-hex"
  | ["rename", h, t, s, sfx] =>
    match parseHex h, parseHex t, parseHex s with
    | some p, some t, some s =>
      (match parsePP p with
        | .ok pp => fmtRes toHex (renameWithRawNames pp t s (sfx == "1"))
        | r => "noparse " ++ fmtRes (fun _ => "") r)
    | _, _, _ => "bad-hex"
  | ["iter", h] =>
    match parseHex h with
    | some p => (match parsePP p with
        | .ok pp => iterDump pp
        | r => "noparse " ++ fmtRes (fun _ => "") r)
    | none => "bad-hex"
  | ["summary", h] =>
    match parseHex h with
    | some p => (match parsePP p with
        | .ok pp => summaryDump pp
        | r => "noparse " ++ fmtRes (fun _ => "") r)
    | none => "bad-hex"
  | ["hdr", h, ext, setter, arg] =>
    match parseHex h, arg.toNat? with
    | some p, some a => hdrOp p ext.toNat? setter a
    | _, _ => "bad-args"
  | "cursor" :: h :: steps =>
    match parseHex h with
    | some p => cursorSteps p steps Sector.new []
    | none => "bad-hex"
  | _ => "bad-op"

def dispatch (line : String) : String :=
  dispatchWords ((line.splitOn " ").filter (fun w => w ≠ "" ∧ !w.startsWith "#"))

end Dns
