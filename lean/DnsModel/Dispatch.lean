/-
  DnsModel.Dispatch — text protocol between the Rust harness and the model (see DESIGN.md §5.1).
  Pure: `dispatch : String → String`.
-/
import DnsModel.Sector
namespace Dns

def hexVal (c : Char) : Option Nat :=
  if '0' ≤ c ∧ c ≤ '9' then some (c.toNat - '0'.toNat)
  else if 'a' ≤ c ∧ c ≤ 'f' then some (c.toNat - 'a'.toNat + 10)
  else if 'A' ≤ c ∧ c ≤ 'F' then some (c.toNat - 'A'.toNat + 10)
  else none

def parseHexAux : List Char → Bytes → Option Bytes
  | [], acc => some acc.reverse
  | [_], _ => none
  | a :: b :: rest, acc =>
    match hexVal a, hexVal b with
    | some x, some y => parseHexAux rest (UInt8.ofNat (x * 16 + y) :: acc)
    | _, _ => none

/-- "-" denotes the empty byte string -/
def parseHex (s : String) : Option Bytes :=
  if s == "-" then some [] else parseHexAux s.toList []

def hexDigit (n : Nat) : Char :=
  if n < 10 then Char.ofNat ('0'.toNat + n) else Char.ofNat ('a'.toNat + n - 10)

def toHex (b : Bytes) : String :=
  if b.isEmpty then "-" else
  String.ofList (b.foldr (fun x acc => hexDigit (x.toNat / 16) :: hexDigit (x.toNat % 16) :: acc) [])

def fmtOpt (o : Option Nat) : String := match o with | none => "-" | some n => toString n

def fmtRes {α} (f : α → String) : Res α → String
  | .ok a => "ok " ++ f a
  | .err e => "err " ++ e.name
  | .panic => "panic"
  | .diverge => "diverge"

def fmtView (v : View) : String :=
  s!"q={fmtOpt v.offsetQuestion} an={fmtOpt v.offsetAnswers} ns={fmtOpt v.offsetNameservers} ar={fmtOpt v.offsetAdditional} edns={fmtOpt v.offsetEdns} cnt={v.ednsCount} rc={fmtOpt v.extRcode} ver={fmtOpt v.ednsVersion} fl={fmtOpt v.extFlags} mp={v.maxPayload}"

/-- cursor script: `set n`, `inc n`, `rdlen`, `ednsrdlen` — one result per step, then the offset -/
def cursorSteps (p : Bytes) : List String → Sector → List String → String
  | [], s, acc => String.intercalate " " (acc.reverse ++ [s!"off={s.offset}"])
  | "set" :: n :: rest, s, acc =>
    match Sector.setOffset p s n.toNat! with
    | .ok (s', old) => cursorSteps p rest s' (s!"ok:{old}" :: acc)
    | r => cursorSteps p rest s ((fmtRes (fun _ => "") r).replace " " ":" :: acc)
  | "inc" :: n :: rest, s, acc =>
    match Sector.incrementOffset p s n.toNat! with
    | .ok (s', old) => cursorSteps p rest s' (s!"ok:{old}" :: acc)
    | r => cursorSteps p rest s ((fmtRes (fun _ => "") r).replace " " ":" :: acc)
  | "rdlen" :: rest, s, acc =>
    cursorSteps p rest s ((fmtRes toString (Sector.rrRdlen p s)).replace " " ":" :: acc)
  | "ednsrdlen" :: rest, s, acc =>
    cursorSteps p rest s ((fmtRes toString (Sector.ednsRrRdlen p s)).replace " " ":" :: acc)
  | _ :: _, _, _ => "bad-op"

def dispatchWords : List String → String
  | ["parse", h] =>
    match parseHex h with
    | some p => fmtRes fmtView (parse p)
    | none => "bad-hex"
  | ["checkc", h, off] =>
    match parseHex h, off.toNat? with
    | some p, some o => fmtRes toString (checkCompressedName p o)
    | _, _ => "bad-args"
  | ["checku", h, off] =>
    match parseHex h, off.toNat? with
    | some p, some o => fmtRes toString (checkUncompressedName p o)
    | _, _ => "bad-args"
  | "cursor" :: h :: steps =>
    match parseHex h with
    | some p => cursorSteps p steps Sector.new []
    | none => "bad-hex"
  | _ => "bad-op"

def dispatch (line : String) : String :=
  dispatchWords ((line.splitOn " ").filter (fun w => w ≠ "" ∧ !w.startsWith "#"))

end Dns
