/-
  DnsModel.Packet — `ParsedPacket` (parsed_packet.rs): the object, header getters and setters,
  question accessors with their cache.  Trusted readers: out-of-range reads are `panic`.
-/
import DnsModel.Sector
namespace Dns

/-- mirror of `pub struct ParsedPacket` (all fields are public in Rust) -/
structure PP where
  packet : Bytes
  offsetQuestion : Option Nat
  offsetAnswers : Option Nat
  offsetNameservers : Option Nat
  offsetAdditional : Option Nat
  offsetEdns : Option Nat
  ednsCount : Nat
  extRcode : Option Nat
  ednsVersion : Option Nat
  extFlags : Option Nat
  maybeCompressed : Bool
  maxPayload : Nat
  cached : Option (Bytes × Nat × Nat)
  deriving Repr, DecidableEq

def PP.ofView (p : Bytes) (v : View) : PP :=
  { packet := p, offsetQuestion := v.offsetQuestion, offsetAnswers := v.offsetAnswers,
    offsetNameservers := v.offsetNameservers, offsetAdditional := v.offsetAdditional,
    offsetEdns := v.offsetEdns, ednsCount := v.ednsCount, extRcode := v.extRcode,
    ednsVersion := v.ednsVersion, extFlags := v.extFlags, maybeCompressed := true,
    maxPayload := v.maxPayload, cached := none }

def PP.view (pp : PP) : View :=
  { offsetQuestion := pp.offsetQuestion, offsetAnswers := pp.offsetAnswers,
    offsetNameservers := pp.offsetNameservers, offsetAdditional := pp.offsetAdditional,
    offsetEdns := pp.offsetEdns, ednsCount := pp.ednsCount, extRcode := pp.extRcode,
    ednsVersion := pp.ednsVersion, extFlags := pp.extFlags, maxPayload := pp.maxPayload }

/-- `DNSSector::new(p)?.parse()` as an object -/
def parsePP (p : Bytes) : Res PP := do
  let v ← parse p
  pure (PP.ofView p v)

/-! ### header: getters -/

def qdcount (p : Bytes) : Res Nat := be16 p 4
def ancount (p : Bytes) : Res Nat := be16 p 6
def nscount (p : Bytes) : Res Nat := be16 p 8
def arcount (p : Bytes) : Res Nat := be16 p 10

def hTid (p : Bytes) : Res Nat := be16 p DNS_TID_OFFSET

/-- `flags()`: opcode and rcode masked out, EDNS extended flags in the upper half -/
def hFlags (p : Bytes) (extFlags : Option Nat) : Res Nat := do
  let rflags ← be16 p DNS_FLAGS_OFFSET
  let rflags := rflags &&& 0x87ff   -- `&= !0x7800` on a u16
  let rflags := rflags &&& 0xfff0   -- `&= !0x000f`
  pure (((extFlags.getD 0) <<< 16) ||| rflags)

def hIsResponse (p : Bytes) (extFlags : Option Nat) : Res Bool := do
  let f ← hFlags p extFlags
  pure (f &&& DNS_FLAG_QR == DNS_FLAG_QR)

def hDnssec (p : Bytes) (extFlags : Option Nat) : Res Bool := do
  let f ← hFlags p extFlags
  if f &&& DNS_FLAG_QR == 0 then pure (f &&& DNS_FLAG_DO != 0) else pure (f &&& DNS_FLAG_AD != 0)

def hRcode (p : Bytes) : Res Nat := do
  let b ← idx p (DNS_FLAGS_OFFSET + 1)
  pure (b &&& 0x0f)

def hOpcode (p : Bytes) : Res Nat := do
  let b ← idx p DNS_FLAGS_OFFSET
  pure ((b &&& 0x78) >>> 3)

/-! ### header: setters (arguments already truncated to the Rust parameter type by the caller) -/

def hSetTid (p : Bytes) (tid : Nat) : Res Bytes := writeAt p DNS_TID_OFFSET (put16 tid)

/-- `set_flags(flags: u32)` -/
def hSetFlags (p : Bytes) (flags : Nat) : Res Bytes := do
  let rflags := flags &&& 0xffff
  let rflags := rflags &&& 0x87ff
  let rflags := rflags &&& 0xfff0
  let v ← be16 p DNS_FLAGS_OFFSET
  let v := v &&& (0x7800 ||| 0x000f)
  let v := v ||| rflags
  writeAt p DNS_FLAGS_OFFSET (put16 v)

def hSetResponse (p : Bytes) (isResponse : Bool) : Res Bytes := do
  let oll ← be16 p DNS_FLAGS_OFFSET
  let oll := if isResponse then oll ||| DNS_FLAG_QR else oll &&& 0x7fff
  writeAt p DNS_FLAGS_OFFSET (put16 oll)

/-- `set_rcode(rcode: u8)` -/
def hSetRcode (p : Bytes) (rcode : Nat) : Res Bytes := do
  let b ← idx p (DNS_FLAGS_OFFSET + 1)
  let b := b &&& 0xf0
  let b := b ||| (rcode &&& 0x0f)
  writeAt p (DNS_FLAGS_OFFSET + 1) [UInt8.ofNat b]

/-- `set_opcode(opcode: u8)`; `opcode << 3` on a u8 drops the high bits -/
def hSetOpcode (p : Bytes) (opcode : Nat) : Res Bytes := do
  let b ← idx p DNS_FLAGS_OFFSET
  let b := b &&& 0x87
  let b := b ||| (((opcode <<< 3) % 256) &&& 0x78)
  writeAt p DNS_FLAGS_OFFSET [UInt8.ofNat b]

end Dns
