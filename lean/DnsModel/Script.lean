/-
  DnsModel.Script — interpreter of operation scripts over a `ParsedPacket` and at most one live
  cursor (the borrow checker allows no more).  `step : State → Op → State × Out`.
-/
import DnsModel.Mutate
import DnsModel.Dump
namespace Dns

inductive Op
  | setTid (n : Nat) | setFlags (n : Nat) | setOpcode (n : Nat) | setRcode (n : Nat) | setResponse (b : Bool)
  | openSec (s : Section) (inclOpt : Bool) | next | nextOpt | close
  | setName (n : Bytes) | delete | ttl (n : Nat) | ip (b : Bytes) | itUncompress | name
  | insert (s : Section) (rr : Res Bytes)   -- the record synthesised from text (or the synthesis error)
  | rename (t s : Bytes) (sfx : Bool) | recompute | qcache
  deriving Inhabited

structure State where
  pp : PP
  cur : Option Cursor

/-- result of one step: text of the call's result; `none` = the call panicked (script stops) -/
abbrev Out := Option String

def okOrErr (e : Option Err) : String := match e with | none => "ok" | some e => "err:" ++ e.name

def withHeader (st : State) (f : Bytes → Res Bytes) : State × Out :=
  match f st.pp.packet with
  | .ok p => ({ st with pp := { st.pp with packet := p } }, some "ok")
  | .err e => (st, some ("err:" ++ e.name))
  | _ => (st, none)

def advance (st : State) (f : PP → Cursor → Res (Option Cursor)) : State × Out :=
  match st.cur with
  | none => (st, some "nocursor")
  | some c =>
    match f st.pp c with
    | .ok (some c') => ({ st with cur := some c' }, some "some")
    | .ok none => ({ st with cur := none }, some "none")
    | .err e => (st, some ("err:" ++ e.name))
    | _ => (st, none)

def withCursorM (st : State) (f : PP → Cursor → MRes) : State × Out :=
  match st.cur with
  | none => (st, some "nocursor")
  | some c =>
    if c.sec == .edns then (st, some "nocursor") else
    match f st.pp c with
    | .ok o => ({ pp := o.pp, cur := some o.cur }, some (okOrErr o.result))
    | .err e => (st, some ("err:" ++ e.name))
    | _ => (st, none)

def step (st : State) : Op → State × Out
  | .setTid n => withHeader st (fun p => hSetTid p n)
  | .setFlags n => withHeader st (fun p => hSetFlags p n)
  | .setOpcode n => withHeader st (fun p => hSetOpcode p n)
  | .setRcode n => withHeader st (fun p => hSetRcode p n)
  | .setResponse b => withHeader st (fun p => hSetResponse p b)
  | .openSec s incl =>
    let f := match s with
      | .question => nextQuestion
      | .edns => nextEdns
      | _ => if incl then nextIncludingOpt else nextSkippingOpt
    advance { st with cur := some (Cursor.new s) } f
  | .next =>
    match st.cur with
    | none => (st, some "nocursor")
    | some c => advance st (match c.sec with | .question => nextQuestion | .edns => nextEdns | _ => nextSkippingOpt)
  | .nextOpt => advance st nextIncludingOpt
  | .close => ({ st with cur := none }, some "ok")
  | .setName n => withCursorM st (fun pp c => setRawName pp c n)
  | .delete => withCursorM st deleteRR
  | .itUncompress => withCursorM st iterUncompress
  | .ttl n =>
    match st.cur with
    | none => (st, some "nocursor")
    | some c =>
      if c.sec == .question || c.sec == .edns then (st, some "nocursor") else
      match setRrTtl st.pp c n with
      | .ok pp => ({ st with pp := pp }, some "ok")
      | .err e => (st, some ("err:" ++ e.name))
      | _ => (st, none)
  | .ip b =>
    match st.cur with
    | none => (st, some "nocursor")
    | some c =>
      if c.sec == .question || c.sec == .edns then (st, some "nocursor") else
      match setRrIp st.pp c b with
      | .ok (pp, e) => ({ st with pp := pp }, some (okOrErr e))
      | .err e => (st, some ("err:" ++ e.name))
      | _ => (st, none)
  | .name =>
    match st.cur with
    | none => (st, some "nocursor")
    | some c =>
      if c.sec == .edns then (st, some "nocursor") else
      match c.name st.pp.packet with
      | .ok n => (st, some ("name:" ++ toHex n))
      | .err e => (st, some ("err:" ++ e.name))
      | _ => (st, none)
  | .insert s rr =>
    -- structural operations on the packet object end the cursor's borrow
    let st := { st with cur := none }
    match rr with
    | .err e => (st, some ("err:" ++ e.name))
    | .ok rr =>
      (match insertRR st.pp s rr with
      | .ok (pp, e) => ({ pp := pp, cur := none }, some (okOrErr e))
      | .err e => (st, some ("err:" ++ e.name))
      | _ => (st, none))
    | _ => (st, none)
  | .rename t s sfx =>
    let st := { st with cur := none }
    match st.pp.renameWithRawNames t s sfx with
    | .ok (pp, e) => ({ pp := pp, cur := none }, some (okOrErr e))
    | .err e => (st, some ("err:" ++ e.name))
    | _ => (st, none)
  | .recompute =>
    let st := { st with cur := none }
    match st.pp.recompute with
    | .ok (pp, e) => ({ pp := pp, cur := none }, some (okOrErr e))
    | .err e => (st, some ("err:" ++ e.name))
    | _ => (st, none)
  | .qcache =>
    match questionRaw0 st.pp with
    | .ok (r, pp) => ({ st with pp := pp }, some ("raw0:" ++ fmtQ r))
    | .err e => (st, some ("err:" ++ e.name))
    | _ => (st, none)

def fmtCursor (c : Option Cursor) : String :=
  match c with
  | none => "-"
  | some c => s!"{fmtOpt c.offset}/{c.offsetNext}/{if c.offset.isSome then toString c.nameEnd else "-"}"

def fmtCache (c : Option (Bytes × Nat × Nat)) : String :=
  match c with
  | none => "-"
  | some (n, t, cl) => s!"{toHex n}/{t}/{cl}"

def fmtState (st : State) : String :=
  s!"b={toHex st.pp.packet} v={(fmtView st.pp.view).replace " " ","} mc={fmtBool st.pp.maybeCompressed} c={fmtCache st.pp.cached} k={fmtCursor st.cur}"

/-- run a script; after every op print the call's result and the whole observable state -/
def runScript : State → List Op → List String → List String
  | _, [], acc => acc.reverse
  | st, op :: ops, acc =>
    match step st op with
    | (st', some r) => runScript st' ops (s!"{r} {fmtState st'}" :: acc)
    | (_, none) => ("panic" :: acc).reverse

end Dns
