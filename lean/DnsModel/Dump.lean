/-
  DnsModel.Dump — canonical text of observations (what the harness prints for the real code).
-/
import DnsModel.Iter
namespace Dns

def hexVal (c : Char) : Option Nat :=
  if '0' ≤ c ∧ c ≤ '9' then some (c.toNat - '0'.toNat)
  else if 'a' ≤ c ∧ c ≤ 'f' then some (c.toNat - 'a'.toNat + 10)
  else if 'A' ≤ c ∧ c ≤ 'F' then some (c.toNat - 'A'.toNat + 10)
  else none

def parseHexAux : List Char → Bytes → Option Bytes
  | [], acc => some acc.reverse
  | [_], _ => none
  | a :: b :: rest, acc =>
    match hexVal a, hexVal b with
    | some x, some y => parseHexAux rest (UInt8.ofNat (x * 16 + y) :: acc)
    | _, _ => none

/-- "-" denotes the empty byte string -/
def parseHex (s : String) : Option Bytes :=
  if s == "-" then some [] else parseHexAux s.toList []

def hexDigit (n : Nat) : Char :=
  if n < 10 then Char.ofNat ('0'.toNat + n) else Char.ofNat ('a'.toNat + n - 10)

def toHex (b : Bytes) : String :=
  if b.isEmpty then "-" else
  String.ofList (b.foldr (fun x acc => hexDigit (x.toNat / 16) :: hexDigit (x.toNat % 16) :: acc) [])

def fmtOpt (o : Option Nat) : String := match o with | none => "-" | some n => toString n

def fmtRes {α} (f : α → String) : Res α → String
  | .ok a => "ok " ++ f a
  | .err e => "err " ++ e.name
  | .panic => "panic"
  | .diverge => "diverge"

/-- one field: value, or the failure kind without spaces -/
def fld {α} (f : α → String) : Res α → String
  | .ok a => f a
  | .err e => "err:" ++ e.name
  | .panic => "panic"
  | .diverge => "diverge"

def fmtView (v : View) : String :=
  s!"q={fmtOpt v.offsetQuestion} an={fmtOpt v.offsetAnswers} ns={fmtOpt v.offsetNameservers} ar={fmtOpt v.offsetAdditional} edns={fmtOpt v.offsetEdns} cnt={v.ednsCount} rc={fmtOpt v.extRcode} ver={fmtOpt v.ednsVersion} fl={fmtOpt v.extFlags} mp={v.maxPayload}"

def Section.tag : Section → String
  | .question => "Q" | .answer => "A" | .nameServers => "N" | .additional => "R" | .edns => "E"

def fmtBool (b : Bool) : String := if b then "1" else "0"

/-- every accessor on the record under the cursor -/
def dumpRecord (pp : PP) (c : Cursor) : String :=
  let p := pp.packet
  let common := s!"{fmtOpt c.offset},{fld toHex (c.name p)},{fld toHex (c.rawName p)},{fld toString (c.rrType p)},{fld toString (c.rrClass p)}"
  let sec := fld Section.tag (c.currentSection pp)
  match c.sec with
  | .question => s!"{common},{sec}"
  | _ =>
    let rd := match c.rrRd p with
      | .ok (.ip b) => "ip:" ++ toHex b
      | .ok (.data b) => "d:" ++ toHex b
      | .err e => "err:" ++ e.name | .panic => "panic" | .diverge => "diverge"
    s!"{common},{fld toString (c.rrTtl p)},{fld toString (c.rrRdlen p)},{rd},{fld toHex (c.rrIp p)},{sec}"

def dumpOption (pp : PP) (c : Cursor) : String :=
  let p := pp.packet
  match c.offset with
  | none => "-"
  | some o =>
    let code := fld toString (be16 p o)
    let len := be16 p (o + 2)
    let data := match len with
      | .ok l => fld toHex (slice p (o + 4) (o + 4 + l))
      | _ => "panic"
    s!"{o},{code},{fld toString len},{data}"

/-- walk a section with `step`, dumping every record with `dump`; stops at 70000 records -/
def walkSection (pp : PP) (step : PP → Cursor → Res (Option Cursor)) (dump : PP → Cursor → String) :
    Nat → Cursor → List String → List String
  | 0, _, acc => ("!fuel" :: acc).reverse
  | fuel+1, c, acc =>
    match step pp c with
    | .ok none => acc.reverse
    | .ok (some c') => walkSection pp step dump fuel c' (dump pp c' :: acc)
    | .err e => (s!"!err:{e.name}" :: acc).reverse
    | .panic => ("!panic" :: acc).reverse
    | .diverge => ("!diverge" :: acc).reverse

def dumpWalk (tag : String) (pp : PP) (step : PP → Cursor → Res (Option Cursor)) (dump : PP → Cursor → String)
    (sec : Section) : String :=
  tag ++ "[" ++ String.intercalate ";" (walkSection pp step dump 70000 (Cursor.new sec) []) ++ "]"

def iterDump (pp : PP) : String :=
  String.intercalate " " [
    dumpWalk "Q" pp nextQuestion dumpRecord .question,
    dumpWalk "A" pp nextSkippingOpt dumpRecord .answer,
    dumpWalk "N" pp nextSkippingOpt dumpRecord .nameServers,
    dumpWalk "R" pp nextSkippingOpt dumpRecord .additional,
    dumpWalk "O" pp nextIncludingOpt dumpRecord .additional,
    dumpWalk "E" pp nextEdns dumpOption .edns]

def fmtQ (r : Option (Bytes × Nat × Nat)) : String :=
  match r with
  | none => "-"
  | some (n, t, c) => s!"{toHex n}/{t}/{c}"

/-- every summary getter; the question getters are called twice (cold and warm cache) -/
def summaryDump (pp : PP) : String :=
  let p := pp.packet
  let hdr := s!"tid={fld toString (hTid p)} op={fld toString (hOpcode p)} rc={fld toString (hRcode p)} qr={fld fmtBool (hIsResponse p pp.extFlags)} fl={fld toString (hFlags p pp.extFlags)} sec={fld fmtBool (hDnssec p pp.extFlags)}"
  let qt0 := fld fmtQ (questionText pp)
  let qq0 := fld (fun (o : Option (Nat × Nat)) => match o with | none => "-" | some (t, c) => s!"{t}/{c}") (qtypeQclass pp)
  let (r0, pp1) := match questionRaw0 pp with
    | .ok (r, pp') => (fmtQ r, pp')
    | .err e => ("err:" ++ e.name, pp) | .panic => ("panic", pp) | .diverge => ("diverge", pp)
  let r1 := match questionRaw pp1 with
    | .ok (r, _) => fmtQ r
    | .err e => "err:" ++ e.name | .panic => "panic" | .diverge => "diverge"
  let qt1 := fld fmtQ (questionText pp1)
  let qq1 := fld (fun (o : Option (Nat × Nat)) => match o with | none => "-" | some (t, c) => s!"{t}/{c}") (qtypeQclass pp1)
  let r2 := match questionRaw0 pp1 with
    | .ok (r, _) => fmtQ r
    | .err e => "err:" ++ e.name | .panic => "panic" | .diverge => "diverge"
  s!"{hdr} qtext={qt0} qtc={qq0} raw0={r0} raw={r1} qtext2={qt1} qtc2={qq1} raw0b={r2} ver={fmtOpt pp.ednsVersion} xrc={fmtOpt pp.extRcode} cnt={pp.ednsCount} mp={pp.maxPayload}"

/-- header setter op on a bare 12+-byte buffer -/
def hdrOp (p : Bytes) (ext : Option Nat) (setter : String) (arg : Nat) : String :=
  let r : Res Bytes := match setter with
    | "settid" => hSetTid p (arg % 65536)
    | "setflags" => hSetFlags p (arg % 4294967296)
    | "setopcode" => hSetOpcode p (arg % 256)
    | "setrcode" => hSetRcode p (arg % 256)
    | "setresponse" => hSetResponse p (arg != 0)
    | _ => .ok p
  match r with
  | .ok q =>
    s!"ok {toHex (q.take 12)} tid={fld toString (hTid q)} op={fld toString (hOpcode q)} rc={fld toString (hRcode q)} qr={fld fmtBool (hIsResponse q ext)} fl={fld toString (hFlags q ext)} sec={fld fmtBool (hDnssec q ext)}"
  | .err e => "err " ++ e.name
  | .panic => "panic"
  | .diverge => "diverge"

end Dns
