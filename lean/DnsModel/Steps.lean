/-
  DnsModel.Steps — instrumented twin of `parse()` for C18: the same control flow as
  DnsModel.Sector, in a monad that also counts elementary steps (one per iteration of the two
  name-walking loops, one per record, one per EDNS option), including on the paths that end in an
  error.  `StepsErasure.lean` proves that forgetting the counter gives back `parse`.
-/
import DnsModel.Sector
namespace Dns

/-- a result together with the number of steps spent producing it -/
structure Cnt (α : Type) where
  res : Res α
  steps : Nat

namespace Cnt
@[inline] def bind {α β} (x : Cnt α) (f : α → Cnt β) : Cnt β :=
  match x.res with
  | .ok a => let y := f a; ⟨y.res, x.steps + y.steps⟩
  | .err e => ⟨.err e, x.steps⟩
  | .panic => ⟨.panic, x.steps⟩
  | .diverge => ⟨.diverge, x.steps⟩

instance : Monad Cnt where
  pure a := ⟨.ok a, 0⟩
  bind := Cnt.bind

/-- an uninstrumented computation costs nothing -/
@[inline] def lift {α} (r : Res α) : Cnt α := ⟨r, 0⟩
@[inline] def tick : Cnt Unit := ⟨.ok (), 1⟩
end Cnt

open Cnt in
/-- `check_compressed_name` with its loop-head counter -/
def ccnLoopI (p : Bytes) : Nat → NW → Cnt Nat
  | 0, _ => ⟨.diverge, 0⟩
  | fuel+1, s =>
    let one (r : Res Nat) : Cnt Nat := ⟨r, 1⟩
    if s.offset ≥ s.barrier then one (.err .invalidName) else
    match idx p s.offset with
    | .ok len =>
      if isPtr len then
        if s.refs = 0 then one (.err .invalidName) else
        if 2 > p.length - s.offset then one (.err .invalidName) else
        match idx p (s.offset + 1) with
        | .ok lo =>
          let ref := ((len &&& 0x3f) <<< 8) ||| lo
          if ref = s.offset ∨ ref ≥ s.lowest then one (.err .invalidName) else
          match idx p ref with
          | .ok t =>
            if !(isPtr t) && t < 1 then one (.err .invalidName) else
            let s' : NW := { s with final := s.final.or (some (s.offset + 2)), offset := ref,
                                    barrier := s.lowest, lowest := ref, refs := s.refs - 1 }
            let r := ccnLoopI p fuel s'
            ⟨r.res, r.steps + 1⟩
          | .err e => one (.err e) | .panic => one .panic | .diverge => one .diverge
        | .err e => one (.err e) | .panic => one .panic | .diverge => one .diverge
      else if len > 0x3f then one (.err .invalidName)
      else if len ≥ p.length - s.offset then one (.err .invalidName)
      else
        let nameLen := s.nameLen + len + 1
        if nameLen > DNS_MAX_HOSTNAME_LEN then one (.err .invalidName) else
        match labelHasBadChar p s.offset len with
        | .ok true => one (.err .invalidName)
        | .ok false =>
          if len = 0 then one (.ok (s.final.getD (s.offset + 1)))
          else
            let r := ccnLoopI p fuel { s with offset := s.offset + len + 1, nameLen := nameLen }
            ⟨r.res, r.steps + 1⟩
        | .err e => one (.err e) | .panic => one .panic | .diverge => one .diverge
    | .err e => one (.err e) | .panic => one .panic | .diverge => one .diverge

def checkCompressedNameI (p : Bytes) (off : Nat) : Cnt Nat :=
  if off ≥ p.length then ⟨.err .internalError, 0⟩ else
  ccnLoopI p nameFuel { offset := off, nameLen := 0, barrier := p.length, lowest := off, final := none,
                        refs := DNS_MAX_HOSTNAME_INDIRECTIONS }

def cunLoopI (p : Bytes) : Nat → Nat → Nat → Cnt Nat
  | 0, _, _ => ⟨.diverge, 0⟩
  | fuel+1, offset, nameLen =>
    let one (r : Res Nat) : Cnt Nat := ⟨r, 1⟩
    if offset ≥ p.length then one (.err .invalidName) else
    match idx p offset with
    | .ok len =>
      if isPtr len then one (.err .invalidName)
      else if len > 0x3f then one (.err .invalidName)
      else if len ≥ p.length - offset then one (.err .invalidName)
      else
        let nameLen := nameLen + len + 1
        if nameLen > DNS_MAX_HOSTNAME_LEN then one (.err .invalidName) else
        if len = 0 then one (.ok (offset + len + 1))
        else
          let r := cunLoopI p fuel (offset + len + 1) nameLen
          ⟨r.res, r.steps + 1⟩
    | .err e => one (.err e) | .panic => one .panic | .diverge => one .diverge

def checkUncompressedNameI (p : Bytes) (off : Nat) : Cnt Nat :=
  if off ≥ p.length then ⟨.err .internalError, 0⟩ else cunLoopI p nameFuel off 0

namespace SectorI
open Sector Cnt

def skipName (p : Bytes) (s : Sector) : Cnt Sector := do
  let off ← checkCompressedNameI p s.offset
  let (s', _) ← lift (setOffset p s off)
  pure s'

def parseQuestion (p : Bytes) (s : Sector) : Cnt Sector := do
  let s ← skipName p s
  lift (ensureInClass p s)
  let c ← lift (rrClass p s)
  lift (failIf (c != CLASS_IN) .unsupportedClass)
  let (s, _) ← lift (incrementOffset p s DNS_RR_QUESTION_HEADER_SIZE)
  pure s

def ednsSkipRr (p : Bytes) (s : Sector) : Cnt Sector := do
  tick
  lift (Sector.ednsSkipRr p s)

def optLoop (p : Bytes) : Nat → Sector → Cnt Sector
  | 0, _ => ⟨.diverge, 0⟩
  | fuel+1, s => do
    let r ← lift (ednsRemainingLen s)
    if r > 0 then
      let s ← ednsSkipRr p s
      optLoop p fuel { s with ednsCount := s.ednsCount + 1 }
    else pure s

def parseOpt (p : Bytes) (s : Sector) : Cnt Sector := do
  lift (failIf s.ednsEnd.isSome .invalidPacket)
  let extRcode ← lift (u8Load p s DNS_OPT_RR_EXT_RCODE_OFFSET)
  let ver ← lift (u8Load p s DNS_OPT_RR_EDNS_VERSION_OFFSET)
  let mp ← lift (be16Load p s DNS_OPT_RR_MAX_PAYLOAD_OFFSET)
  let fl ← lift (be16Load p s DNS_OPT_RR_EDNS_EXT_FLAGS_OFFSET)
  let ednsLen ← lift (be16Load p s DNS_OPT_RR_RDLEN_OFFSET)
  let (s1, _) ← lift (incrementOffset p s DNS_OPT_RR_HEADER_SIZE)
  lift (ensureRemainingLen p s1 ednsLen)
  optLoop p (ednsLen / DNS_EDNS_RR_HEADER_SIZE + 2)
    { s1 with extRcode := some extRcode, ednsVersion := some ver, maxPayload := mp, extFlags := some fl,
              ednsStart := some s1.offset, ednsEnd := some (s1.offset + ednsLen), ednsCount := 0 }

/-- what `parse_rr` does after reading the owner name, type and rdlen -/
def rrBody (p : Bytes) (s : Sector) (sec : Section) (rrStart rrType rrRdlen : Nat) : Cnt Sector :=
  if rrType == TYPE_OPT then do
    lift (failIf (sec != .additional) .invalidPacket)
    let d ← lift (sub s.offset rrStart)
    lift (failIf (d != 1) .invalidPacket)
    parseOpt p s
  else if rrType == TYPE_NS || rrType == TYPE_CNAME || rrType == TYPE_PTR then do
    lift (failIf (rrRdlen == 0) .packetTooSmall)
    let (s, _) ← lift (incrementOffset p s DNS_RR_HEADER_SIZE)
    let fin ← checkCompressedNameI p s.offset
    let d ← lift (sub fin s.offset)
    lift (failIf (d != rrRdlen) .invalidPacket)
    let (s, _) ← lift (incrementOffset p s rrRdlen)
    pure s
  else if rrType == TYPE_MX then do
    lift (failIf (rrRdlen ≤ 2) .packetTooSmall)
    let (s, _) ← lift (incrementOffset p s DNS_RR_HEADER_SIZE)
    let fin ← checkCompressedNameI p (s.offset + 2)
    let d ← lift (sub fin s.offset)
    lift (failIf (d != rrRdlen) .invalidPacket)
    let (s, _) ← lift (incrementOffset p s rrRdlen)
    pure s
  else if rrType == TYPE_SOA then do
    lift (failIf (rrRdlen ≤ 1 + 20) .packetTooSmall)
    let (s, _) ← lift (incrementOffset p s DNS_RR_HEADER_SIZE)
    let fin1 ← checkCompressedNameI p s.offset
    let fin2 ← checkCompressedNameI p fin1
    let d ← lift (sub fin2 s.offset)
    let e ← lift (sub rrRdlen 20)
    lift (failIf (d != e) .invalidPacket)
    let (s, _) ← lift (incrementOffset p s rrRdlen)
    pure s
  else if rrType == TYPE_DNAME then do
    lift (failIf (rrRdlen == 0) .packetTooSmall)
    let (s, _) ← lift (incrementOffset p s DNS_RR_HEADER_SIZE)
    let fin ← checkUncompressedNameI p s.offset
    let d ← lift (sub fin s.offset)
    lift (failIf (d != rrRdlen) .invalidPacket)
    let (s, _) ← lift (incrementOffset p s rrRdlen)
    pure s
  else if rrType == TYPE_A then do
    lift (failIf (rrRdlen != 4) .invalidPacket)
    let (s, _) ← lift (incrementOffset p s (DNS_RR_HEADER_SIZE + rrRdlen))
    pure s
  else if rrType == TYPE_AAAA then do
    lift (failIf (rrRdlen != 16) .invalidPacket)
    let (s, _) ← lift (incrementOffset p s (DNS_RR_HEADER_SIZE + rrRdlen))
    pure s
  else do
    let (s, _) ← lift (incrementOffset p s (DNS_RR_HEADER_SIZE + rrRdlen))
    pure s

def parseRR (p : Bytes) (s : Sector) (sec : Section) : Cnt Sector := do
  tick
  let rrStart := s.offset
  let s ← skipName p s
  let rrType ← lift (rrType p s)
  let rrRdlen ← lift (rrRdlen p s)
  rrBody p s sec rrStart rrType rrRdlen

def parseRRs (p : Bytes) (sec : Section) : Nat → Sector → Cnt Sector
  | 0, s => pure s
  | n+1, s => do
    let s ← parseRR p s sec
    parseRRs p sec n s

end SectorI

open Sector Cnt in
def parseI (p : Bytes) : Cnt View := do
  let s := Sector.new
  lift (failIf (p.length < DNS_HEADER_SIZE) .packetTooSmall)
  let flags ← lift (be16 p DNS_FLAGS_OFFSET)
  let isResponse := flags &&& DNS_FLAG_QR == DNS_FLAG_QR
  let qdcount ← lift (be16 p 4)
  lift (failIf (qdcount == 0) .invalidPacket)
  lift (failIf (qdcount > 1) .invalidPacket)
  let (s, _) ← lift (setOffset p s DNS_QUESTION_OFFSET)
  let offsetQuestion := some s.offset
  let s ← SectorI.parseQuestion p s
  let ancount ← lift (be16 p 6)
  lift (failIf (!isResponse && ancount > 0) .invalidPacket)
  let offsetAnswers := if ancount > 0 then some s.offset else none
  let s ← SectorI.parseRRs p .answer ancount s
  let nscount ← lift (be16 p 8)
  lift (failIf (!isResponse && nscount > 0) .invalidPacket)
  let offsetNameservers := if nscount > 0 then some s.offset else none
  let s ← SectorI.parseRRs p .nameServers nscount s
  let arcount ← lift (be16 p 10)
  let offsetAdditional := if arcount > 0 then some s.offset else none
  let s ← SectorI.parseRRs p .additional arcount s
  let r ← lift (remainingLen p s)
  lift (failIf (r > 0) .invalidPacket)
  pure { offsetQuestion, offsetAnswers, offsetNameservers, offsetAdditional,
         offsetEdns := s.ednsStart, ednsCount := s.ednsCount, extRcode := s.extRcode,
         ednsVersion := s.ednsVersion, extFlags := s.extFlags, maxPayload := s.maxPayload }

end Dns
