/-
  Driver — runs the model's executable definitions on the case lines produced by the Rust harness.
  One request per line on stdin, one canonical answer per line on stdout.
-/
import DnsModel.Dispatch

partial def loop (stdin stdout : IO.FS.Stream) (n : Nat) : IO Unit := do
  let line ← stdin.getLine
  if line.isEmpty then return ()
  let l := line.trimAscii.toString
  stdout.putStrLn (Dns.dispatch l)
  if n % 512 == 0 then stdout.flush
  loop stdin stdout (n + 1)

def main (_args : List String) : IO Unit := do
  let stdin ← IO.getStdin
  let stdout ← IO.getStdout
  loop stdin stdout 1
  stdout.flush
