import DnsModel.Basic
import DnsModel.Generated.Constants
import DnsModel.Name
import DnsModel.Sector
import DnsModel.Dispatch
