#!/usr/bin/env python3
"""Translator: the C function table of dnssector, as declared in src/c_abi.rs (struct FnTable and the
initialiser in fn_table()) and in src/bin/c_hook/c_hook.h (typedef struct FnTable), reduced to ordered
lists of ABI-class signatures and emitted as Lean data (DnsModel/Generated/FnTable.lean).

usage: gen_fntable.py <c_abi.rs> <c_hook.h>
"""
import re
import sys


def strip_comments(s):
    s = re.sub(r"/\*.*?\*/", "", s, flags=re.S)
    s = re.sub(r"//.*", "", s)
    return s


def split_top(s, sep=","):
    """split on `sep` at nesting depth 0 of (), <>, []"""
    out, depth, cur = [], 0, []
    s = s.replace("->", "\u2192")
    for ch in s:
        if ch in "([<":
            depth += 1
        elif ch in ")]>":
            depth -= 1
        if ch == sep and depth == 0:
            out.append("".join(cur))
            cur = []
        else:
            cur.append(ch)
    if "".join(cur).strip():
        out.append("".join(cur))
    return [x.strip().replace("\u2192", "->") for x in out if x.strip()]


def block_after(s, start_regex):
    m = re.search(start_regex, s)
    if not m:
        raise SystemExit("cannot find %s" % start_regex)
    i = s.index("{", m.end() - 1)
    depth = 0
    for j in range(i, len(s)):
        if s[j] == "{":
            depth += 1
        elif s[j] == "}":
            depth -= 1
            if depth == 0:
                return s[i + 1:j]
    raise SystemExit("unbalanced braces")


def rust_class(t):
    t = t.strip()
    if re.match(r"^(unsafe\s+)?(extern\s+\"C\"\s+)?fn\b", t):
        return "fnptr"
    if t.startswith("*") or t.startswith("&"):
        return "ptr"
    t = t.replace("libc::", "")
    return {"u8": "u8", "u16": "u16", "u32": "u32", "u64": "u64", "usize": "usize", "size_t": "usize",
            "c_int": "int", "i32": "int", "bool": "bool", "()": "void"}.get(t, "other:" + t)


def rust_fn_sig(t):
    m = re.match(r"^(?:unsafe\s+)?(?:extern\s+\"C\"\s+)?fn\s*\((.*)\)\s*(?:->\s*(.*))?$", t.strip(), re.S)
    if not m:
        return None
    args = []
    for a in split_top(m.group(1)):
        # `name: type` or just `type`
        mm = re.match(r"^[A-Za-z_][A-Za-z0-9_]*\s*:\s*(.*)$", a, re.S)
        args.append(rust_class(mm.group(1) if mm else a))
    ret = rust_class(m.group(2)) if m.group(2) else "void"
    return args, ret


def parse_rust(src):
    s = strip_comments(src)
    body = block_after(s, r"pub\s+struct\s+FnTable\s*\{")
    entries = []
    for f in split_top(body):
        m = re.match(r"^pub\s+([A-Za-z_][A-Za-z0-9_]*)\s*:\s*(.*)$", f, re.S)
        if not m:
            raise SystemExit("unparsed Rust field: %r" % f[:80])
        name, ty = m.group(1), " ".join(m.group(2).split())
        sig = rust_fn_sig(ty)
        if sig:
            entries.append((name, "fn", sig[0], sig[1]))
        else:
            entries.append((name, "data", [], rust_class(ty)))
    # initialiser order
    fbody = block_after(s, r"pub\s+fn\s+fn_table\s*\(\s*\)\s*->\s*FnTable\s*\{")
    init = block_after(fbody, r"FnTable\s*\{")
    init_names = []
    for f in split_top(init):
        init_names.append(f.split(":")[0].strip())
    return entries, init_names


def c_class(decl):
    """ABI class of one C parameter / return declaration"""
    d = " ".join(decl.split())
    if re.search(r"\(\s*\*", d):
        return "fnptr"
    if "*" in d or "[" in d:
        return "ptr"
    d = re.sub(r"\bconst\b", "", d).strip()
    # drop the parameter name if any
    toks = d.split(" ")
    base = toks[0] if len(toks) <= 2 else " ".join(toks[:-1])
    if len(toks) == 2 and toks[0] in ("unsigned", "signed", "struct"):
        base = d
    return {"uint8_t": "u8", "uint16_t": "u16", "uint32_t": "u32", "uint64_t": "u64", "size_t": "usize",
            "int": "int", "bool": "bool", "_Bool": "bool", "void": "void", "char": "u8"}.get(base, "other:" + base)


def parse_c(src):
    s = strip_comments(src)
    m = re.search(r"typedef\s+struct\s+FnTable\s*\{", s)
    if not m:
        raise SystemExit("cannot find struct FnTable in the header")
    body = block_after(s, r"typedef\s+struct\s+FnTable\s*\{")
    entries = []
    for f in split_top(body, ";"):
        f = " ".join(f.split())
        mm = re.match(r"^(.*?)\(\s*\*\s*([A-Za-z_][A-Za-z0-9_]*)\s*\)\s*\((.*)\)$", f, re.S)
        if mm:
            ret = mm.group(1).strip()
            name = mm.group(2)
            args = [] if mm.group(3).strip() in ("", "void") else [c_class(a) for a in split_top(mm.group(3))]
            entries.append((name, "fn", args, "ptr" if "*" in ret else c_class(ret)))
        else:
            toks = f.split(" ")
            entries.append((toks[-1], "data", [], c_class(" ".join(toks))))
    return entries


def lean_entry(e):
    name, kind, args, ret = e
    return '{ name := "%s", isFn := %s, args := [%s], ret := "%s" }' % (
        name, "true" if kind == "fn" else "false", ", ".join('"%s"' % a for a in args), ret)


def main():
    rust_src = open(sys.argv[1]).read()
    c_src = open(sys.argv[2]).read()
    rust, init = parse_rust(rust_src)
    c = parse_c(c_src)
    out = ["-- GENERATED by gen_fntable.py from /repo/src/c_abi.rs and /repo/src/bin/c_hook/c_hook.h — do not edit.",
           "namespace Dns.FnTable",
           "structure Entry where",
           "  name : String",
           "  isFn : Bool",
           "  args : List String",
           "  ret : String",
           "  deriving DecidableEq, Repr",
           "",
           "/-- `pub struct FnTable` of c_abi.rs, in declaration order -/",
           "def rustTable : List Entry := ["]
    out.append(",\n".join("  " + lean_entry(e) for e in rust))
    out.append("]")
    out.append("")
    out.append("/-- field order of the initialiser in `fn_table()` -/")
    out.append("def rustInit : List String := [%s]" % ", ".join('"%s"' % n for n in init))
    out.append("")
    out.append("/-- `typedef struct FnTable` of c_hook.h, in declaration order -/")
    out.append("def headerTable : List Entry := [")
    out.append(",\n".join("  " + lean_entry(e) for e in c))
    out.append("]")
    out.append("end Dns.FnTable")
    print("\n".join(out))


if __name__ == "__main__":
    main()
