#!/bin/bash
# applies each behaviour-preserving refactoring under /verif/harmless/ to /repo, runs every quick check, undoes it.
# expected: OK everywhere (a VIOLATION here is a false alarm of the machinery)
cd /verif
for d in harmless/harmless_*.diff; do
  git -C /repo apply /verif/$d || { echo "$d does not apply"; continue; }
  res=""
  for i in 01 02 03 04 05 06 07 08 09 10 11 12 13 14 15 16 17 18; do
    r=$(./check C$i 2>&1 | grep -v KNOWN | tail -1)
    case "$r" in OK*) ;; *) res="$res\n    C$i: $r";; esac
  done
  git -C /repo checkout -- .
  if [ -z "$res" ]; then echo "$d: all 18 quick checks OK"; else echo -e "$d: ALARMS$res"; fi
done
git -C /repo status --short
