"""Reference decoder used by the oracles (the search for a failing input). Independent of the Lean
model and of dnssector: RFC 1035 decoding of a packet into an abstract message."""


class Undecodable(Exception):
    pass


def be16(p, o):
    if o + 2 > len(p):
        raise Undecodable("short read at %d" % o)
    return p[o] * 256 + p[o + 1]


def dec_name(p, off):
    """returns (labels, end) where end is the position after the name as written at `off`"""
    labels = []
    end = None
    hops = 0
    while True:
        if off >= len(p):
            raise Undecodable("name runs off the packet")
        b = p[off]
        if b & 0xC0 == 0xC0:
            if off + 2 > len(p):
                raise Undecodable("truncated pointer")
            t = ((b & 0x3F) << 8) | p[off + 1]
            if end is None:
                end = off + 2
            hops += 1
            if hops > 300:
                raise Undecodable("pointer loop")
            off = t
            continue
        if b == 0:
            return labels, (end if end is not None else off + 1)
        if off + 1 + b > len(p):
            raise Undecodable("label runs off the packet")
        labels.append(bytes(p[off + 1:off + 1 + b]))
        off += 1 + b


def name_has_ptr(p, off):
    while True:
        b = p[off]
        if b & 0xC0 == 0xC0:
            return True
        if b == 0:
            return False
        off += 1 + b


NAME_TYPES = (2, 5, 12)


class Rec:
    __slots__ = ("off", "name", "typ", "cls", "ttl", "rdlen", "rdata_raw", "rd", "sec", "name_end", "end", "ptr_in_names")

    def key(self, ci=False):
        f = (lambda n: tuple(l.lower() for l in n)) if ci else (lambda n: tuple(n))
        rd = self.rd
        if rd[0] == "name":
            rd = ("name", f(rd[1]))
        elif rd[0] == "mx":
            rd = ("mx", rd[1], f(rd[2]))
        elif rd[0] == "soa":
            rd = ("soa", f(rd[1]), f(rd[2]), rd[3])
        return (f(self.name), self.typ, self.cls, self.ttl, rd)


class Msg:
    pass


def decode(p):
    p = bytes(p)
    if len(p) < 12:
        raise Undecodable("no header")
    m = Msg()
    m.header = p[:12]
    m.tid = be16(p, 0)
    m.flags = be16(p, 2)
    counts = [be16(p, 4 + 2 * i) for i in range(4)]
    m.counts = counts
    if counts[0] != 1:
        raise Undecodable("qdcount %d" % counts[0])
    off = 12
    labels, e = dec_name(p, off)
    m.q_off = 12
    m.q_name_end = e
    m.qname = labels
    m.qtype = be16(p, e)
    m.qclass = be16(p, e + 2)
    m.q_ptr = name_has_ptr(p, 12)
    off = e + 4
    m.secs = [[], [], []]
    m.bounds = [12]
    for s in range(3):
        for _ in range(counts[1 + s]):
            r = Rec()
            r.off = off
            r.sec = "ANR"[s]
            r.name, ne = dec_name(p, off)
            r.ptr_in_names = name_has_ptr(p, off)
            r.name_end = ne
            r.typ = be16(p, ne)
            r.cls = be16(p, ne + 2)
            r.ttl = be16(p, ne + 4) * 65536 + be16(p, ne + 6)
            r.rdlen = be16(p, ne + 8)
            rs = ne + 10
            re_ = rs + r.rdlen
            if re_ > len(p):
                raise Undecodable("rdata runs off the packet")
            r.rdata_raw = p[rs:re_]
            if r.typ in NAME_TYPES:
                n, e2 = dec_name(p, rs)
                if e2 != re_:
                    raise Undecodable("name does not fill rdata")
                r.rd = ("name", n)
                r.ptr_in_names = r.ptr_in_names or name_has_ptr(p, rs)
            elif r.typ == 15:
                n, e2 = dec_name(p, rs + 2)
                if e2 != re_:
                    raise Undecodable("mx name does not fill rdata")
                r.rd = ("mx", be16(p, rs), n)
                r.ptr_in_names = r.ptr_in_names or name_has_ptr(p, rs + 2)
            elif r.typ == 6:
                a, e1 = dec_name(p, rs)
                b, e2 = dec_name(p, e1)
                if e2 + 20 != re_:
                    raise Undecodable("soa shape")
                r.rd = ("soa", a, b, p[e2:re_])
                r.ptr_in_names = r.ptr_in_names or name_has_ptr(p, rs) or name_has_ptr(p, e1)
            else:
                r.rd = ("raw", p[rs:re_])
            r.end = re_
            m.bounds.append(off)
            m.secs[s].append(r)
            off = re_
    if off != len(p):
        raise Undecodable("trailing bytes")
    m.bounds.append(off)
    m.length = len(p)
    return m


def enc_name(n):
    out = bytearray()
    for l in n:
        out.append(len(l))
        out += l
    out.append(0)
    return bytes(out)


def encode(m):
    """canonical pointer-free encoding of a decoded message"""
    out = bytearray(m.header)
    out += enc_name(m.qname) + bytes([m.qtype >> 8, m.qtype & 255, m.qclass >> 8, m.qclass & 255])
    for s in m.secs:
        for r in s:
            out += enc_name(r.name)
            out += bytes([r.typ >> 8, r.typ & 255, r.cls >> 8, r.cls & 255])
            out += r.ttl.to_bytes(4, "big")
            if r.rd[0] == "name":
                rd = enc_name(r.rd[1])
            elif r.rd[0] == "mx":
                rd = bytes([r.rd[1] >> 8, r.rd[1] & 255]) + enc_name(r.rd[2])
            elif r.rd[0] == "soa":
                rd = enc_name(r.rd[1]) + enc_name(r.rd[2]) + r.rd[3]
            else:
                rd = r.rd[1]
            out += len(rd).to_bytes(2, "big") + rd
    return bytes(out)


def msg_key(m, ci=False):
    f = (lambda n: tuple(l.lower() for l in n)) if ci else (lambda n: tuple(n))
    return (m.header[:4], tuple(m.counts), f(m.qname), m.qtype, m.qclass, tuple(tuple(r.key(ci) for r in s) for s in m.secs))


def hexs(b):
    return b.hex() if len(b) else "-"


def name_text(labels):
    out = bytearray()
    for i, l in enumerate(labels):
        if i:
            out += b"."
        out += l.replace(b".", b"\\046")
    return bytes(out).lower().hex() if out else "-"


def lower_ascii(b):
    return bytes(c + 32 if 65 <= c <= 90 else c for c in b)


def name_text_exact(labels):
    out = bytearray()
    for i, l in enumerate(labels):
        if i:
            out += b"."
        out += l.replace(b".", b"\\046")
    return lower_ascii(bytes(out))


def expected_iter_dump(p):
    m = decode(p)
    q = "Q[%d,%s,%s,%d,%d,Q]" % (12, hexs(name_text_exact(m.qname)), hexs(enc_name(m.qname)), m.qtype, m.qclass)

    def rec(r):
        if r.typ == 1 and r.rdlen >= 4:
            ip = hexs(r.rdata_raw[:4])
        elif r.typ == 28 and r.rdlen >= 16:
            ip = hexs(r.rdata_raw[:16])
        else:
            ip = None
        rd = ("ip:" + ip) if ip else ("d:" + hexs(r.rdata_raw))
        return "%d,%s,%s,%d,%d,%d,%d,%s,%s,%s" % (r.off, hexs(name_text_exact(r.name)), hexs(enc_name(r.name)), r.typ, r.cls, r.ttl, r.rdlen, rd, ip if ip else "err:PropertyNotFound", r.sec)

    walks = [q]
    for tag, s, skip in (("A", 0, True), ("N", 1, True), ("R", 2, True), ("O", 2, False)):
        walks.append("%s[%s]" % (tag, ";".join(rec(r) for r in m.secs[s] if not (skip and r.typ == 41))))
    opts = []
    for r in m.secs[2]:
        if r.typ == 41:
            o = 0
            base = r.name_end + 10
            while o < len(r.rdata_raw):
                code = r.rdata_raw[o] * 256 + r.rdata_raw[o + 1]
                ln = r.rdata_raw[o + 2] * 256 + r.rdata_raw[o + 3]
                opts.append("%d,%d,%d,%s" % (base + o, code, ln, hexs(r.rdata_raw[o + 4:o + 4 + ln])))
                o += 4 + ln
    walks.append("E[%s]" % ";".join(opts))
    return " ".join(walks)


def expected_summary(p):
    m = decode(p)
    w = m.flags
    opt = [r for r in m.secs[2] if r.typ == 41]
    ext = (opt[0].ttl % 65536) if opt else None
    qr = w // 32768
    fl = ((ext or 0) << 16) | (w & 0x87F0)
    sec = ((fl >> 31) & 1) if qr == 0 else (w // 32) % 2
    qtext = "%s/%d/%d" % (hexs(name_text_exact(m.qname)), m.qtype, m.qclass)
    raw0 = "%s/%d/%d" % (hexs(enc_name(m.qname)), m.qtype, m.qclass)
    raw = "%s/%d/%d" % (hexs(enc_name(m.qname)[:-1]), m.qtype, m.qclass)
    qtc = "%d/%d" % (m.qtype, m.qclass)
    nopts = 0
    if opt:
        o = 0
        rd = opt[0].rdata_raw
        while o < len(rd):
            nopts += 1
            o += 4 + rd[o + 2] * 256 + rd[o + 3]
    return ("tid=%d op=%d rc=%d qr=%d fl=%d sec=%d qtext=%s qtc=%s raw0=%s raw=%s qtext2=%s qtc2=%s raw0b=%s ver=%s xrc=%s cnt=%d mp=%d" % (
        m.tid, (w // 2048) % 16, w % 16, qr, fl, sec, qtext, qtc, raw0, raw, qtext, qtc, raw0,
        str((opt[0].ttl // 65536) % 256) if opt else "-", str(opt[0].ttl // 16777216) if opt else "-", nopts,
        opt[0].cls if opt else 512))


# ---------------------------------------------------------------------------------------------
# executable statement of the acceptance policy (property C02), independent of model and code

class IllFormed(Exception):
    pass


def _bad_char(c):
    return c < 32 or c == 127 or c == 46 or c == 92


def wf_name(p, off, allow_ptr=True, check_chars=True):
    """validates the name written at `off`; returns the position after it.
    Pointers: at most 16, strictly backward (target before the start of the segment containing the
    pointer, and a segment never runs into the one it was reached from), never to a root label."""
    n = len(p)
    if off >= n:
        raise IllFormed("name starts outside the packet")
    total = 0
    refs = 16
    barrier = n       # the current segment must stay below this
    low = off         # start of the current segment: pointers must target < low
    end = None
    pos = off
    while True:
        if pos >= barrier:
            raise IllFormed("name runs into the segment it came from / off the packet")
        b = p[pos]
        if b & 0xC0 == 0xC0:
            if not allow_ptr:
                raise IllFormed("pointer in a name that must be pointer-free")
            if refs == 0:
                raise IllFormed("more than 16 pointers")
            refs -= 1
            if pos + 2 > n:
                raise IllFormed("truncated pointer")
            t = ((b & 0x3F) << 8) | p[pos + 1]
            if t >= low:
                raise IllFormed("pointer not strictly backward")
            if p[t] == 0:
                raise IllFormed("pointer to a root label")
            if end is None:
                end = pos + 2
            barrier, low, pos = low, t, t
            continue
        if b > 63:
            raise IllFormed("label type")
        if pos + 1 + b > n or (b > 0 and pos + 1 + b >= n + 1):
            raise IllFormed("label off the packet")
        if b >= n - pos:
            raise IllFormed("label off the packet")
        total += b + 1
        if total > 255:
            raise IllFormed("name longer than 255")
        if b == 0:
            return end if end is not None else pos + 1
        if check_chars and any(_bad_char(c) for c in p[pos + 1:pos + 1 + b]):
            raise IllFormed("forbidden character in label")
        pos += 1 + b


def wellformed(p):
    """raises IllFormed unless `p` is well-formed under the parser's policy"""
    p = bytes(p)
    n = len(p)
    if n < 12:
        raise IllFormed("no header")
    qd, an, ns, ar = (p[4 + 2 * i] * 256 + p[5 + 2 * i] for i in range(4))
    qr = p[2] >> 7
    if qd != 1:
        raise IllFormed("not exactly one question")
    off = wf_name(p, 12)
    if off + 4 > n:
        raise IllFormed("question truncated")
    if p[off + 2] * 256 + p[off + 3] != 1:
        raise IllFormed("question class")
    off += 4
    if not qr and (an or ns):
        raise IllFormed("answers in a query")
    opt_seen = False
    for sec, cnt in ((0, an), (1, ns), (2, ar)):
        for _ in range(cnt):
            if off >= n:
                raise IllFormed("record starts at/after the end")
            start = off
            ne = wf_name(p, off)
            if ne + 10 > n:
                raise IllFormed("record header truncated")
            typ = p[ne] * 256 + p[ne + 1]
            rdlen = p[ne + 8] * 256 + p[ne + 9]
            rs = ne + 10
            re_ = rs + rdlen
            if re_ > n:
                raise IllFormed("rdata off the packet")
            if typ == 41:
                if sec != 2:
                    raise IllFormed("OPT outside additional")
                if ne - start != 1:
                    raise IllFormed("OPT owner not root")
                if opt_seen:
                    raise IllFormed("second OPT")
                opt_seen = True
                o = rs
                while o < re_:
                    if o + 4 > re_:
                        raise IllFormed("option header")
                    o += 4 + p[o + 2] * 256 + p[o + 3]
                if o != re_:
                    raise IllFormed("options do not tile rdata")
            elif typ in (2, 5, 12):
                if rdlen == 0 or wf_name(p, rs) != re_:
                    raise IllFormed("name does not fill rdata")
            elif typ == 15:
                if rdlen <= 2 or wf_name(p, rs + 2) != re_:
                    raise IllFormed("MX shape")
            elif typ == 6:
                if rdlen <= 21:
                    raise IllFormed("SOA too short")
                e1 = wf_name(p, rs)
                e2 = wf_name(p, e1)
                if e2 + 20 != re_:
                    raise IllFormed("SOA shape")
            elif typ == 39:
                if rdlen == 0 or wf_name(p, rs, allow_ptr=False, check_chars=False) != re_:
                    raise IllFormed("DNAME shape")
            elif typ == 1:
                if rdlen != 4:
                    raise IllFormed("A length")
            elif typ == 28:
                if rdlen != 16:
                    raise IllFormed("AAAA length")
            off = re_
    if off != n:
        raise IllFormed("bytes left over")
    return True


def is_wellformed(p):
    try:
        wellformed(p)
        return True, ""
    except IllFormed as e:
        return False, str(e)
    except IndexError:
        return False, "read outside the packet"
