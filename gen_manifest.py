#!/usr/bin/env python3
"""writes MANIFEST.json from properties_cfg.py (levels, theorems) — keeps the interface file in step with the checks"""
import json, subprocess, sys, os
sys.path.insert(0, os.path.dirname(os.path.abspath(__file__)))
import properties_cfg as cfg

TEXT = cfg.MANIFEST_TEXT
hooks_commits = subprocess.run(["git", "-C", "/repo", "log", "--format=%h %s"], capture_output=True, text=True).stdout.splitlines()
hook_commits = [l.split(" ")[0] for l in hooks_commits if l.split(" ", 1)[1].startswith("verif:")]
checks = []
for pid in sorted(cfg.PROPS):
    spec = cfg.PROPS[pid]
    t = TEXT[pid]
    checks.append({
        "property_id": pid,
        "quick_cmd": "./check %s --tier quick" % pid,
        "thorough_cmd": "./check %s --tier thorough" % pid,
        "evidence_file": "/verif/evidence/%s.json" % pid,
        "replay_cmd_template": "./check %s --replay {path}" % pid,
        "engine": "lean-model+correspondence",
        "level_claimed": {"category": spec["level"], "text": t["text"], "design_ref": "DESIGN.md §6 %s" % pid},
        "level_note": t["note"],
        "technique": t["technique"],
    })
m = {
    "version": 1,
    "setup_cmd": "./setup.sh",
    "hooks": {
        "guard": "dnssector_verif",
        "enable": "rustc --cfg dnssector_verif (set in /verif/harness/.cargo/config.toml; the harness depends on /repo by path, so every check rebuilds dnssector from the working tree with the hooks on)",
        "baseline_off_cmd": "cd /repo && cargo test --workspace --no-fail-fast --offline",
        "source_commits": hook_commits,
        "add_only": True,
    },
    "engines": [{
        "name": "lean-model+correspondence", "path": "/verif/check", "serves_properties": sorted(cfg.PROPS),
        "kind_free_text": "Lean 4 theorems about a hand-written executable model of dnssector (lean/DnsModel); the model is tied to /repo on every run by (a) regenerating constants and the C function table from the sources, (a') re-translating the validator (DNSSector::new/parse/parse_rr/parse_opt/..., both name walkers) and the header API from the Rust text with rs2lean.py and proving the translation equal to the model (Tie/*.lean), and (b) differential execution of the real code (Rust harness, hooks on) and the compiled Lean driver on generated cases; per-property oracles (reference decoder / recogniser / synthesiser in Python) search for a concrete failing input",
    }],
    "checks": checks,
    "not_applicable": [],
    "notes": "DESIGN.md describes the method; KNOWN_FINDINGS lists by-design findings (KF1-KF5) and the repaired defects; corpus/ holds regression cases; seeded/ holds validated breaking changes.",
}
json.dump(m, open(os.path.join(os.path.dirname(os.path.abspath(__file__)), "MANIFEST.json"), "w"), indent=1)
print("MANIFEST.json written:", len(checks), "checks")
