"""Reference synthesiser: RFC 1035 wire form of a record given as text in the supported grammar
(owner ttl IN type rdata). Independent of the Lean model and of dnssector. Returns None when the
text is outside the grammar."""
import ipaddress
import re

HWS = " \t"
TYPES = {"A": 1, "AAAA": 28, "NS": 2, "CNAME": 5, "PTR": 12, "TXT": 16, "MX": 15, "SOA": 6, "DS": 43}


def host_ok(name):
    """grammar of a host name token: labels of letters, digits, '-' (not first), '_' (first only), at
    most 62 bytes each, optional trailing dot, '.' alone for the root, an all-numeric name must not be
    dot-terminated"""
    if name == b".":
        return True
    if not name:
        return False
    body = name[:-1] if name.endswith(b".") else name
    labels = body.split(b".")
    for l in labels:
        if not (1 <= len(l) <= 62):
            return False
        for i, c in enumerate(l):
            ch = chr(c)
            if ch.isascii() and (ch.isalpha() or ch.isdigit()):
                continue
            if ch == "_" and i == 0:
                continue
            if ch == "-" and i > 0:
                continue
            return False
    if name.endswith(b".") and all(chr(c).isdigit() or c == 46 for c in name):
        return False
    return True


def name_wire(name):
    """labels of the text name, root-terminated; None if a limit is exceeded"""
    if len(name) > 253:
        return None
    if name == b"." or name == b"":
        return b"\x00"
    body = name[:-1] if name.endswith(b".") else name
    out = bytearray()
    for l in body.split(b"."):
        if not (1 <= len(l) <= 62):
            return None
        out.append(len(l))
        out += l
    out.append(0)
    if len(out) > 253:
        return None
    return bytes(out)


def tokens(s):
    return [t for t in re.split(rb"[ \t]+", s.strip(b" \t")) if t]


def dec(tok, maxv):
    if not tok or not tok.isdigit() or not tok.isascii():
        return None
    v = int(tok)
    return v if v <= maxv else None


def parse_txt(rest):
    rest = rest.strip(b" \t")
    if len(rest) < 3 or rest[0] != 34 or rest[-1] != 34:
        return None
    body = rest[1:-1]
    out = bytearray()
    i = 0
    while i < len(body):
        c = body[i]
        if c == 34:
            return None
        if c == 92:
            d = body[i + 1:i + 4]
            if len(d) != 3 or not d.isdigit():
                return None
            v = int(d)
            if v > 255:
                return None
            out.append(v)
            i += 4
        else:
            if c < 32 or c > 127:
                return None
            out.append(c)
            i += 1
    if not out:
        return None
    return bytes(out)


class Outside(Exception):
    """the text is not in the supported grammar"""


class Refused(Exception):
    """in the grammar, but a documented limit refuses it (name/TXT too long)"""


def synth(text):
    """returns the wire record; raises Outside / Refused"""
    s = text
    # owner and ttl are separated by blanks; a host name swallows digits and dots, so at least one blank is needed
    m = re.match(rb"^[ \t]*([^ \t]+)[ \t]+([0-9]+)[ \t]+([iI][nN])[ \t]+([A-Za-z0-9]+)[ \t]+(.*)$", s, re.S)
    if not m:
        raise Outside("record shape")
    owner, ttl, _, typ, rest = m.groups()
    if not host_ok(owner):
        raise Outside("owner")
    ttl = dec(ttl, 0xFFFFFFFF)
    if ttl is None:
        raise Outside("ttl")
    t = TYPES.get(typ.decode("ascii", "replace").upper())
    if t is None:
        raise Outside("type")
    if t == 16:
        txt = parse_txt(rest)
        if txt is None:
            raise Outside("txt")
        if len(txt) > 3825:
            raise Refused("text too long")
        rd = bytearray()
        for i in range(0, len(txt), 255):
            ch = txt[i:i + 255]
            rd.append(len(ch))
            rd += ch
        rd = bytes(rd)
    elif t == 6:
        m2 = re.match(rb"^([^ \t]+)[ \t]+([^ \t(]+)[ \t]*\([ \t\n\r\x0b\x0c]*([0-9]+)[ \t\n\r\x0b\x0c]+([0-9]+)[ \t\n\r\x0b\x0c]+([0-9]+)[ \t\n\r\x0b\x0c]+([0-9]+)[ \t\n\r\x0b\x0c]+([0-9]+)[ \t\n\r\x0b\x0c]*\)[ \t]*$", rest, re.S)
        if not m2:
            raise Outside("soa")
        ns, contact = m2.group(1), m2.group(2)
        if not host_ok(ns) or not host_ok(contact):
            raise Outside("soa names")
        nums = [dec(m2.group(i), 0xFFFFFFFF) for i in range(3, 8)]
        if any(n is None for n in nums):
            raise Outside("soa numbers")
        a, b = name_wire(ns), name_wire(contact)
        if a is None or b is None:
            raise Refused("name too long")
        rd = a + b + b"".join(n.to_bytes(4, "big") for n in nums)
    else:
        toks = tokens(rest)
        if t == 1:
            if len(toks) != 1:
                raise Outside("a")
            parts = toks[0].split(b".")
            if len(parts) != 4:
                raise Outside("a")
            vals = [dec(x, 255) for x in parts]
            if any(v is None for v in vals):
                raise Outside("a")
            rd = bytes(vals)
        elif t == 28:
            if len(toks) != 1 or not re.fullmatch(rb"[0-9a-fA-F:]+", toks[0]):
                raise Outside("aaaa")
            try:
                rd = ipaddress.IPv6Address(toks[0].decode()).packed
            except Exception:
                raise Outside("aaaa")
        elif t in (2, 5, 12):
            if len(toks) != 1 or not host_ok(toks[0]):
                raise Outside("name")
            rd = name_wire(toks[0])
            if rd is None:
                raise Refused("name too long")
        elif t == 15:
            if len(toks) != 2 or not host_ok(toks[1]):
                raise Outside("mx")
            p = dec(toks[0], 65535)
            if p is None:
                raise Outside("mx")
            n = name_wire(toks[1])
            if n is None:
                raise Refused("name too long")
            rd = p.to_bytes(2, "big") + n
        elif t == 43:
            if len(toks) != 4:
                raise Outside("ds")
            tag, alg, dt = dec(toks[0], 65535), dec(toks[1], 255), dec(toks[2], 255)
            if tag is None or alg is None or dt is None:
                raise Outside("ds")
            if not re.fullmatch(rb"[0-9a-fA-F]+", toks[3]) or len(toks[3]) % 2:
                raise Outside("ds digest")
            rd = tag.to_bytes(2, "big") + bytes([alg, dt]) + bytes.fromhex(toks[3].decode())
        else:
            raise Outside("type")
    o = name_wire(owner)
    if o is None:
        raise Refused("name too long")
    if len(rd) > 65535:
        raise Refused("data longer than a 16-bit length can say")
    return o + t.to_bytes(2, "big") + b"\x00\x01" + ttl.to_bytes(4, "big") + len(rd).to_bytes(2, "big") + rd
