use dnssector::*;
use std::panic::{catch_unwind, AssertUnwindSafe};
fn name(s: &str) -> Vec<u8> { let mut v = vec![]; if !s.is_empty() { for l in s.split('.') { v.push(l.len() as u8); v.extend(l.as_bytes()); } } v.push(0); v }
fn hdr(flags: u16, qd: u16, an: u16, ns: u16, ar: u16) -> Vec<u8> { let mut v = vec![0x12, 0x34]; for x in [flags, qd, an, ns, ar] { v.extend(x.to_be_bytes()); } v }
fn q(n: &[u8], t: u16) -> Vec<u8> { let mut v = n.to_vec(); v.extend(t.to_be_bytes()); v.extend(1u16.to_be_bytes()); v }
fn rr(n: &[u8], t: u16, ttl: u32, rd: &[u8]) -> Vec<u8> { let mut v = n.to_vec(); v.extend(t.to_be_bytes()); v.extend(1u16.to_be_bytes()); v.extend(ttl.to_be_bytes()); v.extend((rd.len() as u16).to_be_bytes()); v.extend(rd); v }
fn parse(p: &[u8]) -> Result<ParsedPacket, String> { DNSSector::new(p.to_vec()).unwrap().parse().map_err(|e| e.to_string()) }
fn t<F: FnOnce() -> String>(label: &str, f: F) { match catch_unwind(AssertUnwindSafe(f)) { Ok(s) => println!("[{}] {}", label, s), Err(e) => println!("[{}] PANIC: {}", label, e.downcast_ref::<String>().cloned().or(e.downcast_ref::<&str>().map(|s| s.to_string())).unwrap_or("?".into())) } }
fn s(v: Vec<u8>) -> String { String::from_utf8_lossy(&v).to_string() }
fn main() {
  std::panic::set_hook(Box::new(|_| {}));
  t("iter-uncompress", || {
    let mut p = hdr(0x8000, 1, 3, 0, 0); p.extend(q(&name("a.example.com"), 1));
    p.extend(rr(&[0xc0, 12], 1, 1, &[1,1,1,1])); p.extend(rr(&[1, b'b', 0xc0, 14], 1, 2, &[2,2,2,2])); p.extend(rr(&[1, b'c', 0xc0, 14], 1, 3, &[3,3,3,3]));
    let mut pp = parse(&p).unwrap();
    let it = pp.into_iter_answer().unwrap(); let mut it = it.next().unwrap();
    let before = s(it.name()); it.uncompress().unwrap(); let after = s(it.name()); let ttl = it.rr_ttl();
    let nx = it.next().map(|i| s(i.name()));
    format!("before={} after={} ttl={} next={:?}", before, after, ttl, nx) });
  t("alias-tid", || {
    // question name = pointer to offset 0: header bytes must be a name: tid=[1,'a'], flags=[0,0] root
    let mut p = vec![1, b'a', 0, 0, 0, 1, 0, 0, 0, 0, 0, 0]; p.extend(q(&[0xc0, 0], 1));
    let mut pp = parse(&p).unwrap(); let n1 = pp.question().map(|x| s(x.0));
    pp.set_tid(0x4142); let r = parse(pp.packet()).map(|_| ());
    pp.cached = None; let n2 = pp.question().map(|x| s(x.0));
    format!("q before={:?} after set_tid: reparse={:?} q={:?}", n1, r, n2) });
  t("alias-tid-bad", || {
    let mut p = vec![1, b'a', 0, 0, 0, 1, 0, 0, 0, 0, 0, 0]; p.extend(q(&[0xc0, 0], 1));
    let mut pp = parse(&p).unwrap(); pp.set_tid(0xffff); format!("reparse={:?}", parse(pp.packet()).map(|_| ())) });
  for sec in 0..4 { t(&format!("c11-delete-all-sec{}", sec), || {
    let mut p = hdr(0x8000, 1, 3, 3, 3); p.extend(q(&name("a.example.com"), 1));
    for i in 0..9u8 { p.extend(rr(&[1, b'a' + i, 0xc0, 14], 1, i as u32, &[i; 4])); }
    let mut pp = parse(&p).unwrap(); let mut yielded = vec![]; let mut steps = 0;
    { macro_rules! walk { ($it:expr) => {{ let mut it = $it; while let Some(mut i) = it { steps += 1; if steps > 100 { break; } yielded.push(s(i.name())); let n = s(i.name()); if n.starts_with('b') || n.starts_with('e') || n.starts_with('h') || n.starts_with('a') && sec == 3 { i.delete().unwrap(); assert!(i.delete().is_err()); } it = i.next(); } }} }
      match sec { 0 => walk!(pp.into_iter_answer()), 1 => walk!(pp.into_iter_nameservers()), 2 => walk!(pp.into_iter_additional()), _ => walk!(pp.into_iter_question()) } }
    let fresh = parse(pp.packet());
    format!("steps={} yielded={:?} counts={:?} reparse={:?} offs={:?}/{:?}/{:?}/{:?}", steps, yielded, &pp.packet()[4..12], fresh.as_ref().map(|_| ()), pp.offset_question, pp.offset_answers, pp.offset_nameservers, pp.offset_additional) }); }
  t("rename-cache", || {
    let mut p = hdr(0, 1, 0, 0, 0); p.extend(q(&name("a.example.com"), 1)); let mut pp = parse(&p).unwrap();
    let a = pp.question().map(|x| s(x.0)); let _ = pp.question_raw0();
    pp.rename_with_raw_names(&name("example.net"), &name("example.com"), true).unwrap();
    let b = pp.question().map(|x| s(x.0)); format!("before={:?} after={:?}", a, b) });
  t("rename-grow-255", || {
    let l = "a".repeat(60); let n = format!("{}.{}.{}.x.example.com", l, l, l);
    let mut p = hdr(0, 1, 0, 0, 0); p.extend(q(&name(&n), 1)); let mut pp = parse(&p).unwrap();
    let tgt = format!("{}.bb", l); format!("{:?}", pp.rename_with_raw_names(&name(&tgt), &name("example.com"), true).map_err(|e| e.to_string())) });
  t("raw-name-63", || { let l63 = "a".repeat(63); let l62 = "a".repeat(62); format!("63={:?} 62={:?}", r#gen::raw_name_from_str(l63.as_bytes(), None).map(|v| v.len()).map_err(|e| e.to_string()), r#gen::raw_name_from_str(l62.as_bytes(), None).map(|v| v.len()).map_err(|e| e.to_string())) });
  t("txt-256", || { let s256 = "x".repeat(256); let r = r#gen::RR::from_string(&format!("a.com. 1 IN TXT \"{}\"", s256)).unwrap(); format!("rdata len={} first={} at256={}", r.rdata().len(), r.rdata()[0], r.rdata()[256]) });
  t("edns-iter", || { let mut p = hdr(0, 1, 0, 0, 1); p.extend(q(&name("a.com"), 1)); let mut o = vec![0u8]; o.extend(41u16.to_be_bytes()); o.extend(1232u16.to_be_bytes()); o.extend([1, 2, 0x80, 0]); let opts = [0u8, 8, 0, 2, 9, 9, 0, 10, 0, 0]; o.extend((opts.len() as u16).to_be_bytes()); o.extend(opts); p.extend(o);
    let mut pp = parse(&p).unwrap(); let mut n = 0; let mut it = pp.into_iter_edns(); while let Some(i) = it { n += 1; it = i.next(); }
    format!("n={} count={} payload={} rcode={:?} ver={:?} flags={:x} dnssec={}", n, pp.edns_count, pp.max_payload(), pp.ext_rcode, pp.edns_version, pp.flags(), pp.dnssec()) });
}
