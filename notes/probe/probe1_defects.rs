use dnssector::*;
use std::panic::{catch_unwind, AssertUnwindSafe};

fn name(s: &str) -> Vec<u8> {
    let mut v = vec![];
    if !s.is_empty() { for l in s.split('.') { v.push(l.len() as u8); v.extend(l.as_bytes()); } }
    v.push(0); v
}
fn hdr(flags: u16, qd: u16, an: u16, ns: u16, ar: u16) -> Vec<u8> {
    let mut v = vec![0x12, 0x34];
    for x in [flags, qd, an, ns, ar] { v.extend(x.to_be_bytes()); }
    v
}
fn q(n: &str, t: u16) -> Vec<u8> { let mut v = name(n); v.extend(t.to_be_bytes()); v.extend(1u16.to_be_bytes()); v }
fn rr(n: &str, t: u16, ttl: u32, rd: &[u8]) -> Vec<u8> {
    let mut v = name(n); v.extend(t.to_be_bytes()); v.extend(1u16.to_be_bytes()); v.extend(ttl.to_be_bytes());
    v.extend((rd.len() as u16).to_be_bytes()); v.extend(rd); v
}
fn opt(opts: &[u8]) -> Vec<u8> {
    let mut v = vec![0u8]; v.extend(41u16.to_be_bytes()); v.extend(4096u16.to_be_bytes()); v.extend([0,0,0x80,0]);
    v.extend((opts.len() as u16).to_be_bytes()); v.extend(opts); v
}
fn parse(p: &[u8]) -> Result<ParsedPacket, String> { DNSSector::new(p.to_vec()).unwrap().parse().map_err(|e| e.to_string()) }
fn t<F: FnOnce() -> String>(label: &str, f: F) {
    let r = catch_unwind(AssertUnwindSafe(f));
    match r { Ok(s) => println!("[{}] {}", label, s), Err(e) => {
        let m = e.downcast_ref::<String>().cloned().or(e.downcast_ref::<&str>().map(|s| s.to_string())).unwrap_or("?".into());
        println!("[{}] PANIC: {}", label, m) } }
}
fn main() {
    std::panic::set_hook(Box::new(|_| {}));
    // 1. compress: input-vs-output offsets
    t("compress-offsets", || {
        let mut p = hdr(0x8000, 1, 3, 0, 0);
        p.extend(q("a.example.com", 1));
        p.extend(rr("a.example.com", 5, 1, &name("b.other.net")));
        p.extend(rr("b.other.net", 1, 1, &[1,2,3,4]));
        p.extend(rr("b.other.net", 1, 1, &[1,2,3,5]));
        parse(&p).unwrap();
        let c = Compress::compress(&p).unwrap();
        let r = parse(&c);
        let u = Compress::uncompress(&c);
        format!("in={} out={} reparse={:?} roundtrip_eq={:?}", p.len(), c.len(), r.as_ref().map(|_|()), u.map(|u| u == p).map_err(|e| e.to_string()))
    });
    // 2. compress drops OPT when not first
    t("compress-opt-last", || {
        let mut p = hdr(0x8000, 1, 0, 0, 2);
        p.extend(q("a.example.com", 1));
        p.extend(rr("x.example.com", 1, 1, &[1,2,3,4]));
        p.extend(opt(&[]));
        parse(&p).unwrap();
        let c = Compress::compress(&p).unwrap();
        format!("reparse={:?}", parse(&c).map(|_|()))
    });
    t("compress-opt-middle", || {
        let mut p = hdr(0x8000, 1, 0, 0, 3);
        p.extend(q("a.example.com", 1));
        p.extend(rr("x.example.com", 1, 1, &[1,2,3,4]));
        p.extend(opt(&[]));
        p.extend(rr("y.example.com", 1, 1, &[1,2,3,4]));
        parse(&p).unwrap();
        let c = Compress::compress(&p).unwrap();
        format!("reparse={:?}", parse(&c).map(|_|()))
    });
    // 3. iterate additional with OPT first then A
    t("iter-opt-first", || {
        let mut p = hdr(0x8000, 1, 0, 0, 2);
        p.extend(q("a.example.com", 1));
        p.extend(opt(&[]));
        p.extend(rr("x.example.com", 1, 1, &[1,2,3,4]));
        let mut pp = parse(&p).unwrap();
        let mut n = 0; let mut it = pp.into_iter_additional();
        while let Some(i) = it { n += 1; it = i.next(); }
        format!("yielded={}", n)
    });
    // 4. set_raw_name grow
    t("set-raw-name-grow", || {
        let mut p = hdr(0x8000, 1, 1, 0, 0);
        p.extend(q("a.example.com", 1));
        p.extend(rr("a.example.com", 1, 1, &[1,2,3,4]));
        let mut pp = parse(&p).unwrap();
        { let mut it = pp.into_iter_answer().unwrap(); it.set_raw_name(&name("longer.a.example.com")).unwrap(); }
        format!("reparse={:?}", parse(pp.packet()).map(|_|()))
    });
    t("set-raw-name-shrink", || {
        let mut p = hdr(0x8000, 1, 1, 0, 0);
        p.extend(q("a.example.com", 1));
        p.extend(rr("a.example.com", 1, 1, &[1,2,3,4]));
        let mut pp = parse(&p).unwrap();
        { let mut it = pp.into_iter_answer().unwrap(); it.set_raw_name(&name("b.c")).unwrap(); }
        format!("reparse={:?}", parse(pp.packet()).map(|_|()))
    });
    // 5. set_raw_name with OPT: offset_edns stale
    t("set-raw-name-edns", || {
        let mut p = hdr(0x8000, 1, 1, 0, 1);
        p.extend(q("a.example.com", 1));
        p.extend(rr("a.example.com", 1, 1, &[1,2,3,4]));
        p.extend(opt(&[0,8,0,0]));
        let mut pp = parse(&p).unwrap();
        { let mut it = pp.into_iter_answer().unwrap(); it.set_raw_name(&name("b.c")).unwrap(); }
        { let mut it = pp.into_iter_answer().unwrap(); it.set_raw_name(&name("b")).unwrap(); }
        let fresh = parse(pp.packet()).unwrap();
        format!("offset_edns obj={:?} fresh={:?}", pp.offset_edns, fresh.offset_edns)
    });
    // 6. insert second question
    t("insert-second-question", || {
        let mut p = hdr(0x0000, 1, 0, 0, 0);
        p.extend(q("a.example.com", 1));
        let mut pp = parse(&p).unwrap();
        let before = pp.packet().to_vec();
        let rr = r#gen::RR::new_question(b"b.com", Type::A, Class::IN).unwrap();
        let r = pp.insert_rr(Section::Question, rr);
        format!("res={:?} unchanged={} reparse={:?}", r.map_err(|e| e.to_string()), before == pp.packet(), parse(pp.packet()).map(|_|()))
    });
    // 7. insert into >8192 packet
    t("insert-big", || {
        let mut p = hdr(0x8000, 1, 1, 0, 0);
        p.extend(q("a.example.com", 1));
        p.extend(rr("a.example.com", 16, 1, &vec![0u8; 9000]));
        let mut pp = parse(&p).unwrap();
        let r = pp.insert_rr_from_string(Section::Answer, "x.com. 1 IN A 1.2.3.4");
        format!("res={:?} len={}", r.map_err(|e| e.to_string()), pp.packet().len())
    });
    // 8. rename MX / SOA
    t("rename-mx", || {
        let mut p = hdr(0x8000, 1, 1, 0, 0);
        p.extend(q("a.example.com", 15));
        let mut rd = vec![0, 10]; rd.extend(name("mail.example.com"));
        p.extend(rr("a.example.com", 15, 1, &rd));
        let mut pp = parse(&p).unwrap();
        let r = Renamer::rename_with_raw_names(&mut pp, &name("example.net"), &name("example.com"), true).unwrap();
        format!("reparse={:?}", parse(&r).map(|_|()))
    });
    t("rename-soa", || {
        let mut p = hdr(0x8000, 1, 1, 0, 0);
        p.extend(q("a.example.com", 6));
        let mut rd = name("ns.example.com"); rd.extend(name("admin.example.com")); rd.extend([0u8; 20]);
        p.extend(rr("a.example.com", 6, 1, &rd));
        let mut pp = parse(&p).unwrap();
        let r = Renamer::rename_with_raw_names(&mut pp, &name("example.net"), &name("example.com"), true).unwrap();
        format!("reparse={:?}", parse(&r).map(|_|()))
    });
    t("rename-ns", || {
        let mut p = hdr(0x8000, 1, 1, 0, 0);
        p.extend(q("a.example.com", 2));
        p.extend(rr("a.example.com", 2, 1, &name("ns.example.com")));
        let mut pp = parse(&p).unwrap();
        let r = Renamer::rename_with_raw_names(&mut pp, &name("example.net"), &name("example.com"), true).unwrap();
        format!("reparse={:?}", parse(&r).map(|_|()))
    });
    // 9. rename with OPT not last
    t("rename-opt-first", || {
        let mut p = hdr(0x8000, 1, 0, 0, 2);
        p.extend(q("a.example.com", 1));
        p.extend(opt(&[]));
        p.extend(rr("x.example.com", 1, 1, &[1,2,3,4]));
        let mut pp = parse(&p).unwrap();
        let r = Renamer::rename_with_raw_names(&mut pp, &name("example.net"), &name("example.com"), true).unwrap();
        format!("reparse={:?}", parse(&r).map(|_|()))
    });
    // 10. DS odd hex
    t("ds-odd-hex", || format!("{:?}", r#gen::RR::from_string("fr. 1 IN DS 1 8 2 ABC").map(|_|()).map_err(|e| e.to_string())));
    // 11. nested depth > 16 compress
    t("compress-depth", || {
        let n = 20;
        let mut p = hdr(0x8000, 1, n as u16, 0, 0);
        p.extend(q("z", 1));
        let mut nm = String::from("z");
        for i in 0..n { nm = format!("{}.{}", (b'a' + i as u8) as char, nm); p.extend(rr(&nm, 1, 1, &[1,2,3,4])); }
        parse(&p).unwrap();
        let c = Compress::compress(&p).unwrap();
        format!("in={} out={} reparse={:?}", p.len(), c.len(), parse(&c).map(|_|()))
    });
    t("rename-depth", || {
        let n = 20;
        let mut p = hdr(0x8000, 1, n as u16, 0, 0);
        p.extend(q("zz", 1));
        let mut nm = String::from("zz");
        for i in 0..n { nm = format!("{}.{}", (b'a' + i as u8) as char, nm); p.extend(rr(&nm, 1, 1, &[1,2,3,4])); }
        let mut pp = parse(&p).unwrap();
        let r = Renamer::rename_with_raw_names(&mut pp, &name("q"), &name("nomatch"), true).unwrap();
        format!("in={} out={} reparse={:?}", p.len(), r.len(), parse(&r).map(|_|()))
    });
    // 12. stale cache
    t("stale-cache", || {
        let mut p = hdr(0x0000, 1, 0, 0, 0);
        p.extend(q("a.example.com", 1));
        let mut pp = parse(&p).unwrap();
        { let mut it = pp.into_iter_question().unwrap(); it.set_raw_name(&name("b.example.com")).unwrap(); }
        let c1 = pp.question_raw0().map(|x| x.0.to_vec());
        { let mut it = pp.into_iter_question().unwrap(); it.set_raw_name(&name("c.example.com")).unwrap(); }
        let c2 = pp.question_raw0().map(|x| x.0.to_vec());
        format!("after1={:?} after2={:?}", c1.map(|v| String::from_utf8_lossy(&v).to_string()), c2.map(|v| String::from_utf8_lossy(&v).to_string()))
    });
    // 13. set_raw_name with control char
    t("set-raw-name-ctrl", || {
        let mut p = hdr(0x8000, 1, 1, 0, 0);
        p.extend(q("a.example.com", 1));
        p.extend(rr("a.example.com", 1, 1, &[1,2,3,4]));
        let mut pp = parse(&p).unwrap();
        let r = { let mut it = pp.into_iter_answer().unwrap(); it.set_raw_name(&[1, 1, 0]).map_err(|e| e.to_string()) };
        format!("res={:?} reparse={:?}", r, parse(pp.packet()).map(|_|()))
    });
    // 14. delete question
    t("delete-question", || {
        let mut p = hdr(0x0000, 1, 0, 0, 0);
        p.extend(q("a.example.com", 1));
        let mut pp = parse(&p).unwrap();
        let r = { let mut it = pp.into_iter_question().unwrap(); it.delete().map_err(|e| e.to_string()) };
        format!("res={:?} reparse={:?} offq={:?}", r, parse(pp.packet()).map(|_|()), pp.offset_question)
    });
    // 15. SOA synth with long names
    t("synth-soa-long", || {
        let l = "a".repeat(60);
        let n1 = format!("{}.{}.{}", l, l, l);
        let s = format!("x.com. 1 IN SOA {}. {}. (1 2 3 4 5)", n1, n1);
        format!("{:?}", r#gen::RR::from_string(&s).map(|_|()).map_err(|e| e.to_string()))
    });
    // 16. delete OPT via including_opt
    t("delete-opt", || {
        let mut p = hdr(0x8000, 1, 0, 0, 1);
        p.extend(q("a.example.com", 1));
        p.extend(opt(&[0,8,0,0]));
        let mut pp = parse(&p).unwrap();
        let r = { let mut it = pp.into_iter_additional_including_opt().unwrap(); it.delete().map_err(|e| e.to_string()) };
        let fresh = parse(pp.packet()).unwrap();
        format!("res={:?} obj: edns={:?} cnt={} ver={:?} | fresh: edns={:?} cnt={} ver={:?}", r, pp.offset_edns, pp.edns_count, pp.edns_version, fresh.offset_edns, fresh.edns_count, fresh.edns_version)
    });
}
