// probe5: synth (C13), name conversion (C14), header setters (C12)
use dnssector::*;
use dnssector::synth::r#gen;
use std::panic::{catch_unwind, AssertUnwindSafe};
struct Rng(u64);
impl Rng { fn next(&mut self) -> u64 { self.0 ^= self.0 << 13; self.0 ^= self.0 >> 7; self.0 ^= self.0 << 17; self.0 } fn below(&mut self, n: usize) -> usize { (self.next() % n as u64) as usize } }
fn guard<T, F: FnOnce() -> T>(f: F) -> Result<T, String> { catch_unwind(AssertUnwindSafe(f)).map_err(|e| e.downcast_ref::<String>().cloned().or(e.downcast_ref::<&str>().map(|s| s.to_string())).unwrap_or("?".into())) }
fn wire_name(s: &str) -> Vec<u8> { let mut v = vec![]; let t = s.strip_suffix('.').unwrap_or(s); if !t.is_empty() { for l in t.split('.') { v.push(l.len() as u8); v.extend(l.as_bytes()); } } v.push(0); v }
fn hex(b: &[u8]) -> String { b.iter().map(|x| format!("{:02x}", x)).collect() }
fn gen_host(r: &mut Rng, maxlab: usize) -> String { let n = 1 + r.below(4); let mut parts = vec![]; for _ in 0..n { let l = 1 + r.below(maxlab); let mut s = String::new(); for i in 0..l { let c = match r.below(6) { 0 if i == 0 => '_', 1 if i > 0 => '-', 2 => (b'0' + r.below(10) as u8) as char, 3 => (b'A' + r.below(26) as u8) as char, _ => (b'a' + r.below(26) as u8) as char }; s.push(c); } parts.push(s); }
  let mut h = parts.join("."); if h.chars().all(|c| c.is_ascii_digit() || c == '.') { h = format!("x{}", h); } if r.below(2) == 0 { h.push('.'); } h }
fn ws(r: &mut Rng, min1: bool) -> String { let n = if min1 { 1 } else { 0 } + r.below(3); (0..n).map(|_| if r.below(2) == 0 { ' ' } else { '\t' }).collect() }
fn kw(r: &mut Rng, k: &str) -> String { k.chars().map(|c| if r.below(2) == 0 { c.to_ascii_lowercase() } else { c.to_ascii_uppercase() }).collect() }
fn main() {
  std::panic::set_hook(Box::new(|_| {}));
  let seed: u64 = std::env::args().nth(1).map(|s| s.parse().unwrap()).unwrap_or(1); let iters: usize = std::env::args().nth(2).map(|s| s.parse().unwrap()).unwrap_or(3000);
  let mut r = Rng(seed.wrapping_mul(0x9E3779B97F4A7C15) | 1); let mut fails: std::collections::BTreeMap<String, (usize, String)> = Default::default();
  let mut fail = |k: &str, d: String| { let e = fails.entry(k.to_string()).or_insert((0, d)); e.0 += 1; };
  // C13 valid texts
  for _ in 0..iters {
    let owner = gen_host(&mut r, 12); let ttl: u32 = match r.below(4) { 0 => 0, 1 => u32::MAX, _ => r.next() as u32 };
    let k = r.below(9);
    let (tname, tnum, rdtext, rdwire): (&str, u16, String, Vec<u8>) = match k {
      0 => { let a = [r.next() as u8, r.next() as u8, r.next() as u8, r.next() as u8]; ("A", 1, format!("{}.{}.{}.{}", a[0], a[1], a[2], a[3]), a.to_vec()) }
      1 => { let a: [u16; 8] = [r.next() as u16, 0, 0, r.next() as u16, r.next() as u16, 0, 1, r.next() as u16]; let ip = std::net::Ipv6Addr::new(a[0], a[1], a[2], a[3], a[4], a[5], a[6], a[7]); ("AAAA", 28, format!("{}", ip), ip.octets().to_vec()) }
      2 | 3 | 4 => { let h = gen_host(&mut r, 20); (["NS", "CNAME", "PTR"][k - 2], [2, 5, 12][k - 2], h.clone(), wire_name(&h)) }
      5 => { let n = [0usize, 1, 254, 255, 256, 300, 600][r.below(7)].max(1); let mut raw = vec![]; let mut txt = String::new(); for _ in 0..n { let c = r.next() as u8; raw.push(c); if c > 31 && c < 128 && c != b'\\' && c != b'"' && r.below(3) > 0 { txt.push(c as char); } else { txt.push_str(&format!("\\{:03}", c)); } }
             let mut w = vec![]; for ch in raw.chunks(255) { w.push(ch.len() as u8); w.extend(ch); } ("TXT", 16, format!("\"{}\"", txt), w) }
      6 => { let p = [0u16, 65535, r.next() as u16][r.below(3)]; let h = gen_host(&mut r, 20); let mut w = p.to_be_bytes().to_vec(); w.extend(wire_name(&h)); ("MX", 15, format!("{}{}{}", p, ws(&mut r, true), h), w) }
      7 => { let a = gen_host(&mut r, 30); let b = gen_host(&mut r, 30); let n: Vec<u32> = (0..5).map(|_| match r.below(3) { 0 => 0, 1 => u32::MAX, _ => r.next() as u32 }).collect(); let mut w = wire_name(&a); w.extend(wire_name(&b)); for x in &n { w.extend(x.to_be_bytes()); }
             ("SOA", 6, format!("{}{}{}{}({} {} {}\t{} {}{})", a, ws(&mut r, true), b, ws(&mut r, false), n[0], n[1], n[2], n[3], n[4], ws(&mut r, false)), w) }
      _ => { let kt = r.next() as u16; let alg = r.next() as u8; let dt = r.next() as u8; let dl = 1 + r.below(40); let dg: Vec<u8> = (0..dl).map(|_| r.next() as u8).collect(); let mut w = kt.to_be_bytes().to_vec(); w.push(alg); w.push(dt); w.extend(&dg);
             let hx: String = dg.iter().map(|b| if r.below(2) == 0 { format!("{:02x}", b) } else { format!("{:02X}", b) }).collect(); ("DS", 43, format!("{}{}{}{}{}{}{}", kt, ws(&mut r, true), alg, ws(&mut r, true), dt, ws(&mut r, true), hx), w) } };
    let text = format!("{}{}{}{}{} {}{}{}{}{}{}", ws(&mut r, false), owner, ws(&mut r, true), ttl, ws(&mut r, false), kw(&mut r, "IN"), ws(&mut r, true), kw(&mut r, tname), ws(&mut r, true), rdtext, ws(&mut r, false));
    let mut exp = wire_name(&owner); exp.extend(tnum.to_be_bytes()); exp.extend([0, 1]); exp.extend(ttl.to_be_bytes()); exp.extend((rdwire.len() as u16).to_be_bytes()); exp.extend(&rdwire);
    match guard(|| r#gen::RR::from_string(&text)) { Err(e) => fail(&format!("synth-panic-{}", tname), format!("{} [{}]", e, text)), Ok(Err(e)) => fail(&format!("synth-valid-rejected-{}", tname), format!("{} [{}]", e, &text[..text.len().min(200)])), Ok(Ok(rr)) => if rr.packet != exp { fail(&format!("synth-wire-differs-{}", tname), format!("[{}] got={} exp={}", &text[..text.len().min(120)], hex(&rr.packet[..rr.packet.len().min(60)]), hex(&exp[..exp.len().min(60)]))) } }
    // damaged: drop one char at random / random bytes
    let mut t2: Vec<u8> = text.clone().into_bytes(); if !t2.is_empty() { let i = r.below(t2.len()); match r.below(3) { 0 => { t2.remove(i); } 1 => { t2[i] = r.next() as u8 & 0x7f; } _ => { t2.insert(i, b"0123456789 .\"\\()"[r.below(16)]); } } }
    if let Ok(s) = String::from_utf8(t2) { match guard(|| r#gen::RR::from_string(&s)) { Err(e) => fail("synth-damaged-panic", format!("{} [{}]", e, s)), Ok(Ok(rr)) => { // must be well-formed: insert into packet and parse
          let mut pp = r#gen::query(b"example.com", Type::A, Class::IN).unwrap(); pp.set_response(true); let len = rr.packet.len(); if len < 8000 { if let Err(e) = guard(|| { pp.insert_rr(Section::Answer, rr).unwrap(); DNSSector::new(pp.packet().to_vec()).unwrap().parse().map(|_| ()).map_err(|e| e.to_string()) }).and_then(|x| x) { fail("synth-damaged-accepted-but-unparseable", format!("{} [{}]", e, s)); } } } _ => {} } }
  }
  // C14 exhaustive small alphabet
  let alpha = [b'a', b'B', b'0', b'-', b'_', b'.', 0x80u8, 0x01];
  let mut cnt = 0usize; for len in 0..=5usize { let total = alpha.len().pow(len as u32); for mut x in 0..total { let mut s = vec![]; for _ in 0..len { s.push(alpha[x % alpha.len()]); x /= alpha.len(); }
      for zone in [None, Some(&b"\x03com\x00"[..])] { cnt += 1;
        let exp: Option<Vec<u8>> = (|| { if s.as_slice() == b"." { return Some(vec![0]); } let mut labels: Vec<&[u8]> = s.split(|&c| c == b'.').collect(); let trailing = s.last() == Some(&b'.'); if s.is_empty() { return Some(vec![0]); } if trailing { labels.pop(); }
            if labels.iter().any(|l| l.is_empty() || l.len() > 62 || l.iter().any(|&c| c > 128)) { return None; } let mut v = vec![]; for l in &labels { v.push(l.len() as u8); v.extend(*l); } if trailing { v.push(0); } else { match zone { None => v.push(0), Some(z) => v.extend(z) } } Some(v) })();
        match guard(|| r#gen::raw_name_from_str(&s, zone)) { Err(e) => fail("name-panic", format!("{} {:?}", e, s)), Ok(got) => { let got = got.ok(); if got != exp { fail("name-differs", format!("{:?} zone={} got={:?} exp={:?}", String::from_utf8_lossy(&s), zone.is_some(), got.map(|x| hex(&x)), exp.map(|x| hex(&x)))); } } } } } }
  // C14 boundary lengths
  for l in 60..=65usize { let s = vec![b'a'; l]; let ok = r#gen::raw_name_from_str(&s, None).is_ok(); if ok != (l <= 62) { fail("name-label-boundary", format!("{} {}", l, ok)); } }
  for total in 248..=258usize { // text length total, labels of 50
    let mut s = vec![]; while s.len() < total { let l = (total - s.len()).min(50); s.extend(vec![b'a'; l]); if s.len() < total { s.push(b'.'); } } if s.last() == Some(&b'.') { s.pop(); s.push(b'b'); }
    let wirelen = s.len() + 2; let ok = r#gen::raw_name_from_str(&s, None).is_ok(); if ok != (wirelen <= 253) { fail("name-total-boundary", format!("text={} wire={} ok={}", s.len(), wirelen, ok)); } }
  // C12 exhaustive-ish header setters
  let mut pp = r#gen::query(b"example.com", Type::A, Class::IN).unwrap();
  for w in 0..=65535u32 { let args: [u32; 6] = [0, 0xffff_ffff, 1 << (w % 32), w.wrapping_mul(2654435761), 0xffff0000 | w, !w];
    for (ai, &a) in args.iter().enumerate() { let set = |pp: &mut ParsedPacket| { let p = pp.packet_mut(); p[2] = (w >> 8) as u8; p[3] = w as u8; p[0] = 0xab; p[1] = 0xcd; };
      set(&mut pp); pp.set_flags(a); let v = ((pp.packet()[2] as u32) << 8) | pp.packet()[3] as u32; let exp = (w & 0x780f) | (a & 0x87f0); if v != exp || pp.tid() != 0xabcd { fail("set_flags", format!("w={:04x} a={:08x} got={:04x} exp={:04x}", w, a, v, exp)); }
      if pp.flags() != (v & 0x87f0) { fail("flags-getter", format!("{:04x}", v)); }
      if ai < 2 { set(&mut pp); pp.set_opcode(a as u8 ^ w as u8); let v = ((pp.packet()[2] as u32) << 8) | pp.packet()[3] as u32; let oc = ((a as u8 ^ w as u8) & 15) as u32; if v != (w & !0x7800) | (oc << 11) || pp.opcode() as u32 != oc { fail("set_opcode", format!("w={:04x}", w)); }
        set(&mut pp); pp.set_rcode(a as u8 ^ (w >> 3) as u8); let v = ((pp.packet()[2] as u32) << 8) | pp.packet()[3] as u32; let rc = ((a as u8 ^ (w >> 3) as u8) & 15) as u32; if v != (w & !0xf) | rc || pp.rcode() as u32 != rc { fail("set_rcode", format!("w={:04x}", w)); }
        set(&mut pp); pp.set_response(ai == 0); let v = ((pp.packet()[2] as u32) << 8) | pp.packet()[3] as u32; if v != (w & 0x7fff) | if ai == 0 { 0x8000 } else { 0 } || pp.is_response() != (ai == 0) { fail("set_response", format!("w={:04x}", w)); }
        set(&mut pp); pp.set_tid(w as u16); let v = ((pp.packet()[2] as u32) << 8) | pp.packet()[3] as u32; if v != w || pp.tid() as u32 != w { fail("set_tid", format!("w={:04x}", w)); } } } }
  for (k, (n, d)) in &fails { println!("{:40} x{:<6} e.g. {}", k, n, &d[..d.len().min(420)]); }
  println!("done: {} synth iters, {} name cases, {} failure kinds", iters, cnt, fails.len());
}
