// probe4: reference recogniser (decode-then-check) vs DNSSector::parse, plus iterator read-back and uncompress
use dnssector::*;
use std::panic::{catch_unwind, AssertUnwindSafe};
struct Rng(u64);
impl Rng { fn next(&mut self) -> u64 { self.0 ^= self.0 << 13; self.0 ^= self.0 >> 7; self.0 ^= self.0 << 17; self.0 } fn below(&mut self, n: usize) -> usize { (self.next() % n as u64) as usize } }
type Name = Vec<Vec<u8>>;
fn bad(c: u8) -> bool { c < 32 || c == 127 || c == b'.' || c == b'\\' }
// returns (labels, end)
fn ref_name(p: &[u8], off: usize, strict_chars: bool) -> Option<(Name, usize)> {
  if off >= p.len() { return None; }
  let (mut bar, mut low, mut o, mut refs, mut end, mut total) = (p.len(), off, off, 16usize, None, 0usize);
  let mut ls = vec![];
  loop {
    if o >= bar { return None; }
    let b = p[o] as usize;
    if b >= 192 { if refs == 0 || o + 2 > p.len() { return None; } let t = ((b & 63) << 8) | p[o + 1] as usize; if t >= low { return None; } if p[t] == 0 { return None; }
      if end.is_none() { end = Some(o + 2); } refs -= 1; bar = low; low = t; o = t; continue; }
    if b > 63 { return None; }
    if o + b + 1 > p.len() { return None; }
    total += b + 1; if total > 255 { return None; }
    let l = p[o + 1..o + 1 + b].to_vec(); if strict_chars && l.iter().any(|&c| bad(c)) { return None; }
    o += b + 1; if b == 0 { return Some((ls, end.unwrap_or(o))); } ls.push(l);
  } }
fn ref_plain(p: &[u8], off: usize) -> Option<(Name, usize)> { if off >= p.len() { return None; } let mut o = off; let mut ls = vec![]; let mut total = 0;
  loop { if o >= p.len() { return None; } let b = p[o] as usize; if b > 63 { return None; } if o + b + 1 > p.len() { return None; } total += b + 1; if total > 255 { return None; } let l = p[o + 1..o + 1 + b].to_vec(); o += b + 1; if b == 0 { return Some((ls, o)); } ls.push(l); } }
fn be16(p: &[u8], o: usize) -> Option<usize> { Some(((*p.get(o)? as usize) << 8) | *p.get(o + 1)? as usize) }
#[derive(Debug, Clone, PartialEq)] struct R { off: usize, name: Name, typ: u16, class: u16, ttl: u32, rd: Vec<u8>, sec: usize }
#[derive(Debug)] struct D { q: (Name, u16, u16), recs: Vec<R>, edns: Option<(usize, usize)>, offs: [Option<usize>; 4] }
fn reference(p: &[u8]) -> Option<D> {
  if p.len() < 12 { return None; } if be16(p, 4)? != 1 { return None; }
  let qr = p[2] & 0x80 != 0; let cnt = [be16(p, 6)?, be16(p, 8)?, be16(p, 10)?]; if !qr && (cnt[0] > 0 || cnt[1] > 0) { return None; }
  let (qn, e) = ref_name(p, 12, true)?; let qt = be16(p, e)?; let qc = be16(p, e + 2)?; if qc != 1 { return None; } let mut o = e + 4; if o > p.len() { return None; }
  let mut recs = vec![]; let mut edns = None; let mut offs = [Some(12), None, None, None];
  for s in 0..3 { if cnt[s] > 0 { offs[s + 1] = Some(o); } for _ in 0..cnt[s] {
    let (n, e) = ref_name(p, o, true)?; let typ = be16(p, e)?; let class = be16(p, e + 2)?; let ttl = ((be16(p, e + 4)? as u32) << 16) | be16(p, e + 6)? as u32; let rdlen = be16(p, e + 8)?; let rs = e + 10; let re = rs + rdlen; if re > p.len() { return None; }
    match typ { 41 => { if s != 2 || e - o != 1 || edns.is_some() { return None; } let mut x = rs; let mut c = 0; while x < re { let l = be16(p, x + 2)?; if x + 4 > re { return None; } x += 4 + l; if x > re { return None; } c += 1; } edns = Some((rs, c)); }
      2 | 5 | 12 => { if rdlen == 0 { return None; } let (_, e2) = ref_name(p, rs, true)?; if e2 != re { return None; } }
      15 => { if rdlen <= 2 { return None; } let (_, e2) = ref_name(p, rs + 2, true)?; if e2 != re { return None; } }
      6 => { if rdlen <= 21 { return None; } let (_, e1) = ref_name(p, rs, true)?; let (_, e2) = ref_name(p, e1, true)?; if e2 + 20 != re { return None; } }
      39 => { if rdlen == 0 { return None; } let (_, e2) = ref_plain(p, rs)?; if e2 != re { return None; } }
      1 => if rdlen != 4 { return None; }, 28 => if rdlen != 16 { return None; }, _ => {} }
    recs.push(R { off: o, name: n, typ: typ as u16, class: class as u16, ttl, rd: p[rs..re].to_vec(), sec: s }); o = re; } }
  if o != p.len() { return None; }
  Some(D { q: (qn, qt as u16, qc as u16), recs, edns, offs }) }

fn enc(n: &Name) -> Vec<u8> { let mut v = vec![]; for l in n { v.push(l.len() as u8); v.extend(l); } v.push(0); v }
// layout-aware writer: remembers where suffixes were written, may emit pointers
struct W { out: Vec<u8>, known: Vec<(Name, usize)>, mode: usize }
impl W { fn name(&mut self, n: &Name, r: &mut Rng) { let lc = |n: &[Vec<u8>]| n.iter().map(|l| l.to_ascii_lowercase()).collect::<Vec<_>>();
    for i in 0..=n.len() { if i < n.len() && self.mode > 0 && r.below(4) > 0 { if let Some((_, o)) = self.known.iter().rev().find(|(k, o)| lc(k) == lc(&n[i..]) && *o < 16384) { let o = *o; let at = self.out.len(); self.out.push(0xc0 | (o >> 8) as u8); self.out.push(o as u8); if self.mode == 2 && i == 0 { self.known.push((n.clone(), at)); } return; } }
      if i == n.len() { self.out.push(0); return; } self.known.push((n[i..].to_vec(), self.out.len())); self.out.push(n[i].len() as u8); self.out.extend(&n[i]); } } }
fn gen(r: &mut Rng) -> Vec<u8> {
  let labs: [&[u8]; 9] = [b"a", b"B", b"example", b"COM", b"net", b"x1", b"Mail", b"ns", b"a-very-long-label-that-is-sixty-three-bytes-long-0123456789-abc"];
  let mut pool: Vec<Name> = vec![]; let mut gn = |r: &mut Rng, pool: &mut Vec<Name>| -> Name { let mut n: Name = vec![]; if !pool.is_empty() && r.below(3) > 0 { let b = &pool[r.below(pool.len())]; let k = r.below(b.len() + 1); for _ in 0..r.below(3) { n.push(labs[r.below(9)].to_vec()); } n.extend(b[k..].iter().cloned()); } else { for _ in 0..r.below(5) { n.push(labs[r.below(9)].to_vec()); } }
    while enc(&n).len() > 255 { n.remove(0); } pool.push(n.clone()); n };
  let resp = r.below(4) > 0; let mut w = W { out: vec![r.next() as u8, r.next() as u8, if resp { 0x80 } else { 0 } | (r.next() as u8 & 0x7f), r.next() as u8, 0, 1, 0, 0, 0, 0, 0, 0], known: vec![], mode: r.below(3) };
  let qn = gn(r, &mut pool); w.name(&qn, r); w.out.extend([0, [1u8, 2, 15, 6, 255][r.below(5)], 0, 1]); let mut opt = false;
  for s in 0..3 { if !resp && s < 2 { continue; } let n = r.below(5); let mut c = 0u16; for _ in 0..n { let k = r.below(11); if k == 10 && (s != 2 || opt) { continue; } c += 1;
      if k == 10 { opt = true; w.out.push(0); w.out.extend([0, 41, 4, 208, r.next() as u8, r.next() as u8, r.next() as u8, r.next() as u8]); let mut o = vec![]; for _ in 0..r.below(3) { let l = r.below(5); o.extend([0, 8, 0, l as u8]); o.extend(vec![7u8; l]); } w.out.extend((o.len() as u16).to_be_bytes()); w.out.extend(o); continue; }
      let nm = gn(r, &mut pool); w.name(&nm, r); let typ: u16 = [1, 28, 2, 5, 12, 15, 6, 39, 16, 99][k]; w.out.extend(typ.to_be_bytes()); w.out.extend([0, 1]); w.out.extend((r.next() as u32).to_be_bytes()); let lenpos = w.out.len(); w.out.extend([0, 0]); let rs = w.out.len();
      match typ { 1 => w.out.extend([1, 2, 3, 4]), 28 => w.out.extend([9u8; 16]), 2 | 5 | 12 => { let t = gn(r, &mut pool); w.name(&t, r) } 15 => { w.out.extend([0, 5]); let t = gn(r, &mut pool); w.name(&t, r) } 6 => { let a = gn(r, &mut pool); w.name(&a, r); let b = gn(r, &mut pool); w.name(&b, r); w.out.extend([3u8; 20]) }
        39 => { let t = gn(r, &mut pool); w.out.extend(enc(&t)) } 16 => { let l = r.below(10); w.out.push(l as u8); w.out.extend(vec![b'.'; l]) } _ => w.out.extend(vec![0xc0u8; r.below(4)]) }
      let rl = (w.out.len() - rs) as u16; w.out[lenpos] = (rl >> 8) as u8; w.out[lenpos + 1] = rl as u8; }
    w.out[6 + 2 * s] = (c >> 8) as u8; w.out[7 + 2 * s] = c as u8; }
  w.out }
fn damage(p: &[u8], r: &mut Rng) -> Vec<u8> { let mut q = p.to_vec(); if q.is_empty() { return q; } match r.below(7) { 0 => { q.truncate(r.below(q.len() + 1)); } 1 => { let i = r.below(q.len()); q[i] = q[i].wrapping_add(1); } 2 => { let i = r.below(q.len()); q[i] = q[i].wrapping_sub(1); } 3 => { q.push(r.next() as u8); } 4 => { let i = r.below(q.len()); q[i] = [0, 0x3f, 0x40, 0xc0, 0xff, b'.', b'\\', 0x1f, 0x7f][r.below(9)]; } 5 => { let i = r.below(q.len()); q.insert(i, r.next() as u8); } _ => { let i = r.below(q.len()); q.remove(i); } } q }
fn hex(b: &[u8]) -> String { b.iter().map(|x| format!("{:02x}", x)).collect() }
fn guard<T, F: FnOnce() -> T>(f: F) -> Result<T, String> { catch_unwind(AssertUnwindSafe(f)).map_err(|e| e.downcast_ref::<String>().cloned().or(e.downcast_ref::<&str>().map(|s| s.to_string())).unwrap_or("?".into())) }
fn text(n: &Name) -> Vec<u8> { let mut v = vec![]; for (i, l) in n.iter().enumerate() { if i > 0 { v.push(b'.'); } v.extend(l.to_ascii_lowercase()); } v }
fn main() {
  std::panic::set_hook(Box::new(|_| {}));
  let seed: u64 = std::env::args().nth(1).map(|s| s.parse().unwrap()).unwrap_or(1); let iters: usize = std::env::args().nth(2).map(|s| s.parse().unwrap()).unwrap_or(2000);
  let mut r = Rng(seed.wrapping_mul(0x9E3779B97F4A7C15) | 1); let mut fails: std::collections::BTreeMap<String, (usize, String)> = Default::default(); let mut stats = [0usize; 4];
  let mut fail = |k: &str, d: String| { let e = fails.entry(k.to_string()).or_insert((0, d)); e.0 += 1; };
  for it in 0..iters { let base = gen(&mut r); let p = match it % 4 { 0 | 1 => base, 2 => damage(&base, &mut r), _ => { let d = damage(&base, &mut r); damage(&d, &mut r) } };
    let rf = reference(&p); let got = guard(|| DNSSector::new(p.clone()).unwrap().parse());
    let mut pp = match got { Err(e) => { fail("parse-panic", format!("{} {}", e, hex(&p))); continue; } Ok(Err(_)) => { stats[1] += 1; if rf.is_some() { fail("wf-but-rejected", hex(&p)); } continue; } Ok(Ok(pp)) => { stats[0] += 1; if rf.is_none() { fail("accepted-but-not-wf", hex(&p)); continue; } pp } };
    let d = rf.unwrap();
    if [pp.offset_question, pp.offset_answers, pp.offset_nameservers, pp.offset_additional] != d.offs { fail("view-offsets", hex(&p)); }
    if pp.offset_edns != d.edns.map(|x| x.0) || pp.edns_count as usize != d.edns.map(|x| x.1).unwrap_or(0) { fail("view-edns", hex(&p)); }
    // iterate
    let res = guard(|| { let mut out: Vec<R> = vec![];
      macro_rules! walk { ($it:expr, $s:expr, $opt:expr) => {{ let mut it = $it; while let Some(i) = it { let mut raw = vec![]; i.copy_raw_name(&mut raw); let (n, _) = ref_plain(&raw, 0).unwrap(); assert_eq!(text(&n), i.name(), "name text");
            let rd = match i.rr_rd().unwrap() { RawRRData::Data(d) => d.to_vec(), RawRRData::IpAddr(std::net::IpAddr::V4(a)) => a.octets().to_vec(), RawRRData::IpAddr(std::net::IpAddr::V6(a)) => a.octets().to_vec() };
            assert_eq!(i.current_section().unwrap(), [Section::Answer, Section::NameServers, Section::Additional][$s], "section");
            out.push(R { off: i.offset().unwrap(), name: n, typ: i.rr_type(), class: i.rr_class(), ttl: i.rr_ttl(), rd, sec: $s }); it = if $opt { i.next_including_opt() } else { i.next() }; } }} }
      walk!(pp.into_iter_answer(), 0, false); walk!(pp.into_iter_nameservers(), 1, false); walk!(pp.into_iter_additional_including_opt(), 2, true);
      let mut skip: Vec<R> = vec![]; { let mut it = pp.into_iter_additional(); while let Some(i) = it { skip.push(R { off: i.offset().unwrap(), name: vec![], typ: i.rr_type(), class: 0, ttl: 0, rd: vec![], sec: 2 }); it = i.next(); } }
      let mut ne = 0; { let mut it = pp.into_iter_edns(); while let Some(i) = it { ne += 1; it = i.next(); } }
      let q = pp.question_raw0().map(|(n, t, c)| (n.to_vec(), t, c)); let qt = pp.question().map(|x| x.0);
      (out, skip, ne, q, qt) });
    match res { Err(e) => fail("iter-panic", format!("{} {}", e, hex(&p))), Ok((out, skip, ne, q, qt)) => {
        if out != d.recs { fail("iter-differs", hex(&p)); }
        let exp_skip: Vec<usize> = d.recs.iter().filter(|x| x.sec == 2 && x.typ != 41).map(|x| x.off).collect(); if skip.iter().map(|x| x.off).collect::<Vec<_>>() != exp_skip { fail("iter-skip-differs", hex(&p)); }
        if ne != d.edns.map(|x| x.1).unwrap_or(0) { fail("edns-iter-count", hex(&p)); }
        if q != Some((enc(&d.q.0), d.q.1, d.q.2)) { fail("question-raw", hex(&p)); } if qt != Some(text(&d.q.0)) { fail("question-text", hex(&p)); } } }
    // uncompress with every boundary
    let mut bounds: Vec<usize> = vec![12]; bounds.extend(d.recs.iter().map(|x| x.off)); bounds.push(p.len());
    for (bi, &b) in bounds.iter().enumerate() { match guard(|| Compress::uncompress_with_previous_offset(&p, b)) { Err(e) => { fail("uncompress-panic", format!("{} {}", e, hex(&p))); break; } Ok(Err(e)) => { fail("uncompress-err", format!("{} {}", e, hex(&p))); break; }
        Ok(Ok((u, nb))) => { let du = match reference(&u) { None => { fail("uncompress-out-not-wf", hex(&p)); break; } Some(x) => x };
          let mut ub: Vec<usize> = vec![12]; ub.extend(du.recs.iter().map(|x| x.off)); ub.push(u.len()); if ub.get(bi) != Some(&nb) { fail("uncompress-offset", format!("b={} got={} exp={:?} {}", b, nb, ub.get(bi), hex(&p))); }
          if bi == 0 { if u.iter().zip(0..).any(|_| false) {} let strip = |d: &D| (d.q.clone(), d.recs.iter().map(|x| (x.name.clone(), x.typ, x.class, x.ttl, x.sec)).collect::<Vec<_>>()); if strip(&du) != strip(&d) { fail("uncompress-msg", hex(&p)); }
            if Compress::uncompress(&u).ok() != Some(u.clone()) { fail("uncompress-idem", hex(&p)); } stats[2] += 1; } } } }
  }
  for (k, (n, d)) in &fails { println!("{:26} x{:<6} e.g. {}", k, n, &d[..d.len().min(400)]); }
  println!("done {} iters: accepted={} rejected={} uncompressed={} ; {} failure kinds", iters, stats[0], stats[1], stats[2], fails.len());
}
