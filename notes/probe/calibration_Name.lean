import Dm.Basic
namespace Dm

inductive Err | tooSmall | internal | invalidName | invalidPacket | unsupportedClass
  deriving Repr, DecidableEq

/-- outcome of a Rust function: value, `Err(..)`, a panic (index out of bounds, arithmetic
underflow, failed assert), or fuel exhaustion (non-termination of the Rust loop). -/
inductive Res (α : Type) | ok (a : α) | err (e : Err) | panic | diverge
  deriving Repr, DecidableEq

/-- `packet[i]` : panics when out of bounds, like a Rust slice index -/
def idx (p : Bytes) (i : Nat) : Res Nat := match byteAt p i with | some b => .ok b | none => .panic

def badChar (c : Nat) : Bool := c < 32 || c == 127 || c == 46 || c == 92

/-- `any` over packet[off+1 .. off+len+1] (slice indexing panics if out of range) -/
def labelHasBadChar (p : Bytes) (off len : Nat) : Res Bool :=
  if off + len + 1 > p.length then .panic
  else .ok (((p.drop (off+1)).take len).any (fun c => badChar c.toNat))

structure NW where
  offset : Nat
  nameLen : Nat
  barrier : Nat
  lowest : Nat
  final : Option Nat
  refs : Nat

def ccnLoop (p : Bytes) : Nat → NW → Res Nat
  | 0, _ => .diverge
  | fuel+1, s =>
    if s.offset ≥ s.barrier then .err .invalidName else
    match idx p s.offset with
    | .ok len =>
      if isPtr len then
        if s.refs = 0 then .err .invalidName else
        if 2 > p.length - s.offset then .err .invalidName else
        match idx p (s.offset + 1) with
        | .ok lo =>
          let ref := ((len &&& 0x3f) <<< 8) ||| lo
          if ref = s.offset ∨ ref ≥ s.lowest then .err .invalidName else
          match idx p ref with
          | .ok t =>
            if !(isPtr t) && t < 1 then .err .invalidName else
            ccnLoop p fuel { s with final := s.final.or (some (s.offset + 2)), offset := ref,
                                    barrier := s.lowest, lowest := ref, refs := s.refs - 1 }
          | .err e => .err e | .panic => .panic | .diverge => .diverge
        | .err e => .err e | .panic => .panic | .diverge => .diverge
      else if len > 0x3f then .err .invalidName
      else if len ≥ p.length - s.offset then .err .invalidName
      else
        let nameLen := s.nameLen + len + 1
        if nameLen > 255 then .err .invalidName else
        match labelHasBadChar p s.offset len with
        | .ok true => .err .invalidName
        | .ok false =>
          if len = 0 then .ok (s.final.getD (s.offset + 1))
          else ccnLoop p fuel { s with offset := s.offset + len + 1, nameLen := nameLen }
        | .err e => .err e | .panic => .panic | .diverge => .diverge
    | .err e => .err e | .panic => .panic | .diverge => .diverge

def checkCompressedName (p : Bytes) (off : Nat) : Res Nat :=
  if off ≥ p.length then .err .internal else
  ccnLoop p 273 { offset := off, nameLen := 0, barrier := p.length, lowest := off, final := none, refs := 16 }

theorem idx_ok_of_lt {p : Bytes} {i : Nat} (h : i < p.length) : ∃ b, idx p i = .ok b ∧ b < 256 := by
  unfold idx byteAt
  simp [List.getElem?_eq_getElem h]
  exact (p[i]).toNat_lt

/-- invariant that makes every read in the loop safe -/
def NW.Inv (p : Bytes) (s : NW) : Prop := s.barrier ≤ p.length ∧ s.lowest ≤ p.length

theorem ccnLoop_no_panic (p : Bytes) (fuel : Nat) (s : NW) (h : s.Inv p) : ccnLoop p fuel s ≠ .panic := by
  induction fuel generalizing s with
  | zero => simp [ccnLoop]
  | succ n ih =>
    unfold ccnLoop
    obtain ⟨hb, hl⟩ := h
    split
    · simp
    · rename_i hlt
      have hoff : s.offset < p.length := by omega
      obtain ⟨len, hlen, _⟩ := idx_ok_of_lt hoff
      simp only [hlen]
      split
      · split
        · simp
        · split
          · simp
          · rename_i h2
            have : s.offset + 1 < p.length := by omega
            obtain ⟨lo, hlo, _⟩ := idx_ok_of_lt this
            simp only [hlo]
            split
            · simp
            · rename_i href
              have hr : (((len &&& 0x3f) <<< 8) ||| lo) < p.length := by omega
              obtain ⟨t, ht, _⟩ := idx_ok_of_lt hr
              simp only [ht]
              split
              · simp
              · apply ih
                exact ⟨by simp; omega, by simp; omega⟩
      · split
        · simp
        · split
          · simp
          · split
            · simp
            · rename_i hge _
              have hfit : s.offset + len + 1 ≤ p.length := by omega
              have : labelHasBadChar p s.offset len = .ok (((p.drop (s.offset+1)).take len).any (fun c => badChar c.toNat)) := by
                unfold labelHasBadChar; simp; omega
              rw [this]
              split
              · simp
              · split
                · simp
                · apply ih; exact ⟨hb, hl⟩
              all_goals simp_all

theorem checkCompressedName_no_panic (p : Bytes) (off : Nat) : checkCompressedName p off ≠ .panic := by
  unfold checkCompressedName
  split
  · simp
  · apply ccnLoop_no_panic; constructor <;> simp <;> omega

example : checkCompressedName [3, 119, 119, 119, 0, 0xc0, 0] 5 = .ok 7 := by decide
example : checkCompressedName [0xc0, 0] 0 = .err .invalidName := by decide
end Dm
