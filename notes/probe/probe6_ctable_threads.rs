// probe6: C table driven from Rust (C15) and error slot across threads (C16)
use dnssector::*;
use std::ffi::{CStr, CString, c_void};
use std::sync::{Arc, Barrier};
fn name(s: &str) -> Vec<u8> { let mut v = vec![]; if !s.is_empty() { for l in s.split('.') { v.push(l.len() as u8); v.extend(l.as_bytes()); } } v.push(0); v }
fn hdr(flags: u16, qd: u16, an: u16, ns: u16, ar: u16) -> Vec<u8> { let mut v = vec![0x12, 0x34]; for x in [flags, qd, an, ns, ar] { v.extend(x.to_be_bytes()); } v }
fn q(n: &[u8], t: u16) -> Vec<u8> { let mut v = n.to_vec(); v.extend(t.to_be_bytes()); v.extend(1u16.to_be_bytes()); v }
fn rr(n: &[u8], t: u16, ttl: u32, rd: &[u8]) -> Vec<u8> { let mut v = n.to_vec(); v.extend(t.to_be_bytes()); v.extend(1u16.to_be_bytes()); v.extend(ttl.to_be_bytes()); v.extend((rd.len() as u16).to_be_bytes()); v.extend(rd); v }
struct Ctx { t: FnTable, log: Vec<String> }
unsafe extern "C" fn cb(ctx: *mut c_void, it: *const SectionIterator) -> bool { unsafe {
  let c = &mut *(ctx as *mut Ctx); let it = &mut *(it as *mut SectionIterator);
  let mut buf = [0xAAu8; 300]; (c.t.name)(it, &mut *(buf.as_mut_ptr() as *mut [u8; 256])); let n = CStr::from_ptr(buf.as_ptr() as *const _).to_string_lossy().to_string(); assert!(buf[256..].iter().all(|&b| b == 0xAA));
  let ty = (c.t.rr_type)(it); let ttl = (c.t.rr_ttl)(it);
  let mut ip = [0xBBu8; 20]; let mut iplen: usize = 16; if ty == 1 || ty == 28 { (c.t.rr_ip)(it, ip.as_mut_ptr(), &mut iplen); }
  c.log.push(format!("name={} type={} class={} ttl={} ip={:?}/{}", n, ty, (c.t.rr_class)(it), ttl, &ip[..iplen.min(16)], iplen));
  (c.t.set_rr_ttl)(it, 42);
  let mut err: *const CErr = std::ptr::null();
  let bad = [64u8, 1, 2]; let r = (c.t.set_raw_name)(it, &mut err, bad.as_ptr(), bad.len()); c.log.push(format!("set_raw_name(bad)={} err={}", r, CStr::from_ptr((c.t.error_description)(err)).to_string_lossy()));
  let z = name("zone.org"); let nm = b"www.prod"; let r = (c.t.set_name)(it, &mut err, nm.as_ptr() as *const _, nm.len(), z.as_ptr(), z.len()); let mut b2 = [0u8; 256]; (c.t.name)(it, &mut b2); c.log.push(format!("set_name={} -> {}", r, CStr::from_ptr(b2.as_ptr() as *const _).to_string_lossy()));
  if ty == 28 { let r = (c.t.delete)(it, &mut err); let r2 = (c.t.delete)(it, &mut err); c.log.push(format!("delete={} again={} err={}", r, r2, CStr::from_ptr((c.t.error_description)(err)).to_string_lossy())); }
  false } }
fn main() {
  let mut p = hdr(0x8000, 1, 3, 0, 1); p.extend(q(&name("a.example.com"), 1));
  p.extend(rr(&[0xc0, 12], 1, 100, &[1, 2, 3, 4])); p.extend(rr(&[1, b'b', 0xc0, 14], 28, 200, &[7u8; 16])); p.extend(rr(&[1, b'c', 0xc0, 14], 5, 300, &[0xc0, 12]));
  p.extend([0, 0, 41, 4, 208, 0, 0, 0x80, 0, 0, 0]);
  let mut pp = DNSSector::new(p).unwrap().parse().unwrap();
  let mut ctx = Ctx { t: fn_table(), log: vec![] };
  unsafe { (ctx.t.iter_answer)(&mut pp, cb, &mut ctx as *mut _ as *mut c_void); }
  for l in &ctx.log { println!("{}", l); }
  unsafe { let t = &ctx.t; let mut err: *const CErr = std::ptr::null();
    let s = CString::new("new.example.com. 5 IN A 9.9.9.9").unwrap(); println!("add_to_answer={}", (t.add_to_answer)(&mut pp, &mut err, s.as_ptr()));
    let s = CString::new("new.example.com. 5 IN A 9.9.9").unwrap(); let r = (t.add_to_answer)(&mut pp, &mut err, s.as_ptr()); println!("add bad={} err={}", r, CStr::from_ptr((t.error_description)(err)).to_string_lossy());
    let s = CString::new("q2.example.com. 5 IN A 9.9.9.9").unwrap(); let r = (t.add_to_question)(&mut pp, &mut err, s.as_ptr()); println!("add question={} err={}", r, CStr::from_ptr((t.error_description)(err)).to_string_lossy());
    let mut raw = vec![0u8; 8192]; let mut rl = 0usize; let r = (t.raw_packet)(&pp, &mut *(raw.as_mut_ptr() as *mut [u8; 8192]), &mut rl, 8192); println!("raw_packet={} len={} reparse={:?}", r, rl, DNSSector::new(raw[..rl].to_vec()).unwrap().parse().map(|_| ()).map_err(|e| e.to_string()));
    let r = (t.raw_packet)(&pp, &mut *(raw.as_mut_ptr() as *mut [u8; 8192]), &mut rl, 10); println!("raw_packet small={}", r);
    let mut nb = [0u8; 256]; let mut ty = 0u16; let r = (t.question)(&mut pp, &mut nb, &mut ty); println!("question={} {} type={}", r, CStr::from_ptr(nb.as_ptr() as *const _).to_string_lossy(), ty);
    let a = name("example.net"); let b = name("example.com"); let r = (t.rename_with_raw_names)(&mut pp, &mut err, a.as_ptr(), a.len(), b.as_ptr(), b.len(), true); let r2 = (t.question)(&mut pp, &mut nb, &mut ty); println!("rename={} question={} {}", r, r2, CStr::from_ptr(nb.as_ptr() as *const _).to_string_lossy());
    println!("flags={:x} rcode={} opcode={}", (t.flags)(&pp), (t.rcode)(&pp), (t.opcode)(&pp));
    println!("view vs fresh: obj={:?}/{:?}/{:?}/{:?}/{:?} ", pp.offset_question, pp.offset_answers, pp.offset_nameservers, pp.offset_additional, pp.offset_edns);
    let f = DNSSector::new(pp.packet().to_vec()).unwrap().parse().unwrap(); println!("              fresh={:?}/{:?}/{:?}/{:?}/{:?}", f.offset_question, f.offset_answers, f.offset_nameservers, f.offset_additional, f.offset_edns);
  }
  // C16: two threads
  let bar = Arc::new(Barrier::new(2)); let mut hs = vec![];
  for id in 0..2 { let bar = bar.clone(); hs.push(std::thread::spawn(move || unsafe { let t = fn_table(); let mut err: *const CErr = std::ptr::null(); let mut buf = [0u8; 256]; let mut l = 0usize;
      let bad: &[u8] = if id == 0 { b"a..b" } else { &[b'x'; 70] };
      if id == 0 { (t.raw_name_from_str)(&mut buf, &mut l, &mut err, bad.as_ptr() as *const _, bad.len()); }
      bar.wait(); if id == 1 { (t.raw_name_from_str)(&mut buf, &mut l, &mut err, bad.as_ptr() as *const _, bad.len()); } bar.wait();
      let d = CStr::from_ptr((t.error_description)(err)).to_string_lossy().to_string(); (id, d) })); }
  for h in hs { println!("{:?}", h.join().unwrap()); }
}
