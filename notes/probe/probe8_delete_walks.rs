// probe8: C11 exhaustive — delete any subset while walking, all sections, compressed/pointer-free, OPT or not
use dnssector::*;
fn name(s: &str) -> Vec<u8> { let mut v = vec![]; if !s.is_empty() { for l in s.split('.') { v.push(l.len() as u8); v.extend(l.as_bytes()); } } v.push(0); v }
fn rr(n: &[u8], t: u16, ttl: u32, rd: &[u8]) -> Vec<u8> { let mut v = n.to_vec(); v.extend(t.to_be_bytes()); v.extend(1u16.to_be_bytes()); v.extend(ttl.to_be_bytes()); v.extend((rd.len() as u16).to_be_bytes()); v.extend(rd); v }
fn s(v: Vec<u8>) -> String { String::from_utf8_lossy(&v).to_string() }
fn main() {
  let mut cases = 0; let mut bad = 0;
  for sec in 0..3usize { for n in 0..=5usize { for mask in 0..(1u32 << n) { for comp in [false, true] { for optpos in [None, Some(0usize), Some(n)] { if optpos.is_some() && sec != 2 { continue; }
    let mut counts = [2u16, 2, 2]; counts[sec] = n as u16 + if optpos.is_some() { 1 } else { 0 };
    let mut p = vec![0x12, 0x34, 0x80, 0, 0, 1]; for c in counts { p.extend(c.to_be_bytes()); }
    p.extend(name("q.example.com")); p.extend([0, 1, 0, 1]);
    let mut idn = 0u8;
    for sx in 0..3 { let k = if sx == sec { n } else { 2 };
      for i in 0..=k { if sx == 2 && sec == 2 && optpos == Some(i) { p.extend([0, 0, 41, 4, 208, 0, 0, 0, 0, 0, 4, 0, 8, 0, 0]); } if i == k { break; }
        let nm = if comp { vec![1, b'a' + idn, 0xc0, 14] } else { name(&format!("{}.example.com", (b'a' + idn) as char)) }; idn += 1; p.extend(rr(&nm, 1, i as u32, &[sx as u8, i as u8, 0, 0])); } }
    let mut pp = match DNSSector::new(p.clone()).unwrap().parse() { Ok(x) => x, Err(e) => { println!("gen rejected {} sec={} n={} opt={:?}", e, sec, n, optpos); bad += 1; continue; } };
    cases += 1;
    // names of records in target section, in order
    let base: u8 = (0..sec).map(|_| 2u8).sum(); let names: Vec<String> = (0..n).map(|i| format!("{}.example.com", (b'a' + base + i as u8) as char)).collect();
    let del: Vec<bool> = (0..n).map(|i| mask & (1 << i) != 0).collect();
    let mut yielded: Vec<String> = vec![]; let mut deleted: Vec<String> = vec![]; let mut steps = 0; let mut ok = true;
    { let mut it = match sec { 0 => pp.into_iter_answer(), 1 => pp.into_iter_nameservers(), _ => pp.into_iter_additional() };
      while let Some(mut i) = it { steps += 1; if steps > 200 { ok = false; break; } let nm = s(i.name()); if deleted.contains(&nm) { println!("re-yield of deleted {}", nm); ok = false; } yielded.push(nm.clone());
        let idx = names.iter().position(|x| *x == nm); match idx { None => { println!("foreign record {} in sec {}", nm, sec); ok = false; } Some(ix) => if del[ix] { let before = i.parsed_packet().packet().len(); i.delete().unwrap(); deleted.push(nm);
            let l1 = i.parsed_packet().packet().to_vec(); if i.delete().is_ok() { ok = false; println!("second delete ok"); } if i.parsed_packet().packet() != &l1[..] { ok = false; println!("second delete changed"); } let _ = before; } }
        it = i.next(); } }
    let survivors: Vec<String> = (0..n).filter(|&i| !del[i]).map(|i| names[i].clone()).collect();
    for sv in &survivors { if !yielded.contains(sv) { ok = false; println!("survivor {} never yielded", sv); } }
    // final content
    let fresh = DNSSector::new(pp.packet().to_vec()).unwrap().parse(); if fresh.is_err() { ok = false; println!("final packet rejected {:?}", fresh.as_ref().err().map(|e| e.to_string())); }
    let mut fin: Vec<String> = vec![]; { let mut it = match sec { 0 => pp.into_iter_answer(), 1 => pp.into_iter_nameservers(), _ => pp.into_iter_additional() }; while let Some(i) = it { fin.push(s(i.name())); it = i.next(); } }
    if fin != survivors { ok = false; println!("final {:?} != survivors {:?}", fin, survivors); }
    let cnt = ((pp.packet()[6 + 2 * sec] as usize) << 8) | pp.packet()[7 + 2 * sec] as usize; if cnt != survivors.len() + if optpos.is_some() { 1 } else { 0 } { ok = false; println!("count {}", cnt); }
    let off = [pp.offset_answers, pp.offset_nameservers, pp.offset_additional][sec]; if (cnt == 0) != off.is_none() { ok = false; println!("offset {:?} count {}", off, cnt); }
    if let Ok(f) = &fresh { if (f.offset_answers, f.offset_nameservers, f.offset_additional, f.offset_edns, f.edns_count) != (pp.offset_answers, pp.offset_nameservers, pp.offset_additional, pp.offset_edns, pp.edns_count) { ok = false; println!("view differs"); } }
    if !ok { bad += 1; println!("  ^ sec={} n={} mask={:b} comp={} opt={:?}", sec, n, mask, comp, optpos); }
  } } } } }
  println!("cases={} bad={}", cases, bad);
}
