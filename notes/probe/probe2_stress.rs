use dnssector::*;
use std::panic::{catch_unwind, AssertUnwindSafe};

struct Rng(u64);
impl Rng { fn next(&mut self) -> u64 { self.0 ^= self.0 << 13; self.0 ^= self.0 >> 7; self.0 ^= self.0 << 17; self.0 }
  fn below(&mut self, n: usize) -> usize { (self.next() % n as u64) as usize } }

#[derive(Clone, Debug, PartialEq)]
struct Rec { name: Vec<Vec<u8>>, typ: u16, class: u16, ttl: u32, rd: Rd }
#[derive(Clone, Debug, PartialEq)]
enum Rd { Raw(Vec<u8>), Name(Vec<Vec<u8>>), Mx(u16, Vec<Vec<u8>>), Soa(Vec<Vec<u8>>, Vec<Vec<u8>>, Vec<u8>) }
#[derive(Clone, Debug, PartialEq)]
struct Msg { hdr: Vec<u8>, q: Option<(Vec<Vec<u8>>, u16, u16)>, secs: [Vec<Rec>; 3] }

fn lc(n: &Vec<Vec<u8>>) -> Vec<Vec<u8>> { n.iter().map(|l| l.to_ascii_lowercase()).collect() }
fn lc_msg(m: &Msg) -> Msg { let mut m = m.clone(); if let Some(q) = m.q.as_mut() { q.0 = lc(&q.0); }
  for s in m.secs.iter_mut() { for r in s.iter_mut() { r.name = lc(&r.name); r.rd = match &r.rd { Rd::Raw(x) => Rd::Raw(x.clone()), Rd::Name(n) => Rd::Name(lc(n)), Rd::Mx(p, n) => Rd::Mx(*p, lc(n)), Rd::Soa(a, b, c) => Rd::Soa(lc(a), lc(b), c.clone()) }; } } m }

fn dec_name(p: &[u8], mut off: usize) -> Option<(Vec<Vec<u8>>, usize)> {
  let mut labels = vec![]; let mut end = None; let mut hops = 0;
  loop { let b = *p.get(off)? as usize;
    if b & 0xc0 == 0xc0 { let t = ((b & 0x3f) << 8) | *p.get(off + 1)? as usize; if end.is_none() { end = Some(off + 2); } hops += 1; if hops > 100 { return None; } off = t; continue; }
    if b == 0 { return Some((labels, end.unwrap_or(off + 1))); }
    labels.push(p.get(off + 1..off + 1 + b)?.to_vec()); off += 1 + b; } }
fn be16(p: &[u8], o: usize) -> Option<usize> { Some(((*p.get(o)? as usize) << 8) | *p.get(o + 1)? as usize) }
fn decode(p: &[u8]) -> Option<Msg> {
  if p.len() < 12 { return None; }
  let mut off = 12; let qd = be16(p, 4)?; let mut q = None;
  if qd == 1 { let (n, e) = dec_name(p, off)?; q = Some((n, be16(p, e)? as u16, be16(p, e + 2)? as u16)); off = e + 4; } else if qd != 0 { return None; }
  let mut secs: [Vec<Rec>; 3] = [vec![], vec![], vec![]];
  for s in 0..3 { for _ in 0..be16(p, 6 + 2 * s)? {
      let (n, e) = dec_name(p, off)?; let typ = be16(p, e)? as u16; let class = be16(p, e + 2)? as u16;
      let ttl = ((be16(p, e + 4)? as u32) << 16) | be16(p, e + 6)? as u32; let rdlen = be16(p, e + 8)?; let rs = e + 10; let re = rs + rdlen; if re > p.len() { return None; }
      let rd = match typ { 2 | 5 | 12 => { let (n, e2) = dec_name(p, rs)?; if e2 != re { return None; } Rd::Name(n) }
        15 => { let (n, e2) = dec_name(p, rs + 2)?; if e2 != re { return None; } Rd::Mx(be16(p, rs)? as u16, n) }
        6 => { let (a, e1) = dec_name(p, rs)?; let (b, e2) = dec_name(p, e1)?; if e2 + 20 != re { return None; } Rd::Soa(a, b, p[e2..re].to_vec()) }
        _ => Rd::Raw(p[rs..re].to_vec()) };
      secs[s].push(Rec { name: n, typ, class, ttl, rd }); off = re; } }
  if off != p.len() { return None; }
  Some(Msg { hdr: p[..12].to_vec(), q, secs }) }

fn enc_name(n: &Vec<Vec<u8>>) -> Vec<u8> { let mut v = vec![]; for l in n { v.push(l.len() as u8); v.extend(l); } v.push(0); v }
fn encode(m: &Msg) -> Vec<u8> { let mut v = m.hdr.clone();
  if let Some((n, t, c)) = &m.q { v.extend(enc_name(n)); v.extend(t.to_be_bytes()); v.extend(c.to_be_bytes()); }
  for s in &m.secs { for r in s { v.extend(enc_name(&r.name)); v.extend(r.typ.to_be_bytes()); v.extend(r.class.to_be_bytes()); v.extend(r.ttl.to_be_bytes());
    let rd = match &r.rd { Rd::Raw(x) => x.clone(), Rd::Name(n) => enc_name(n), Rd::Mx(p, n) => { let mut x = p.to_be_bytes().to_vec(); x.extend(enc_name(n)); x }, Rd::Soa(a, b, c) => { let mut x = enc_name(a); x.extend(enc_name(b)); x.extend(c); x } };
    v.extend((rd.len() as u16).to_be_bytes()); v.extend(rd); } }
  v }

fn gen_name(r: &mut Rng, pool: &mut Vec<Vec<Vec<u8>>>) -> Vec<Vec<u8>> {
  let labs: [&[u8]; 8] = [b"a", b"B", b"example", b"COM", b"net", b"x1", b"Mail", b"ns"];
  if !pool.is_empty() && r.below(3) > 0 { let base = pool[r.below(pool.len())].clone(); let k = r.below(base.len() + 1); let mut n: Vec<Vec<u8>> = vec![];
    for _ in 0..r.below(3) { n.push(labs[r.below(8)].to_vec()); } n.extend(base[k..].iter().cloned());
    if r.below(4) == 0 { for l in n.iter_mut() { if r.below(2) == 0 { *l = l.to_ascii_uppercase(); } } }
    pool.push(n.clone()); return n; }
  let mut n = vec![]; for _ in 0..r.below(5) { n.push(labs[r.below(8)].to_vec()); } pool.push(n.clone()); n }
fn gen_msg(r: &mut Rng) -> Msg {
  let mut pool = vec![]; let resp = r.below(4) > 0;
  let mut hdr = vec![r.next() as u8, r.next() as u8, if resp { 0x80 } else { 0 } | (r.next() as u8 & 0x7f), r.next() as u8, 0, 1, 0, 0, 0, 0, 0, 0];
  let q = Some((gen_name(r, &mut pool), [1u16, 2, 15, 6, 255][r.below(5)], 1u16));
  let mut secs: [Vec<Rec>; 3] = [vec![], vec![], vec![]];
  let mut has_opt = false;
  for s in 0..3 { if !resp && s < 2 { continue; } let n = r.below(5);
    for _ in 0..n { let name = gen_name(r, &mut pool);
      let (typ, rd) = match r.below(9) { 0 => (1, Rd::Raw(vec![r.next() as u8; 4])), 1 => (28, Rd::Raw(vec![r.next() as u8; 16])), 2 => (2, Rd::Name(gen_name(r, &mut pool))), 3 => (5, Rd::Name(gen_name(r, &mut pool))), 4 => (12, Rd::Name(gen_name(r, &mut pool))),
        5 => (15, Rd::Mx(r.next() as u16, gen_name(r, &mut pool))), 6 => (6, Rd::Soa(gen_name(r, &mut pool), gen_name(r, &mut pool), (0..20).map(|_| r.next() as u8).collect())),
        7 => (16, Rd::Raw((0..r.below(20)).map(|_| r.next() as u8).collect())),
        _ => if s == 2 && !has_opt { has_opt = true; let mut o = vec![]; for _ in 0..r.below(3) { let l = r.below(5); o.extend([0, 8, 0, l as u8]); o.extend(vec![7u8; l]); } (41, Rd::Raw(o)) } else { (99, Rd::Raw(vec![1, 2, 3])) } };
      let mut rec = Rec { name, typ, class: if typ == 41 { 1232 } else { 1 }, ttl: r.next() as u32, rd };
      if typ == 41 { rec.name = vec![]; }
      secs[s].push(rec); }
    let c = secs[s].len() as u16; hdr[6 + 2 * s] = (c >> 8) as u8; hdr[7 + 2 * s] = c as u8; }
  Msg { hdr, q, secs } }

fn parse(p: &[u8]) -> Result<ParsedPacket, String> { DNSSector::new(p.to_vec()).unwrap().parse().map_err(|e| e.to_string()) }
fn guard<T, F: FnOnce() -> T>(f: F) -> Result<T, String> { catch_unwind(AssertUnwindSafe(f)).map_err(|e| e.downcast_ref::<String>().cloned().or(e.downcast_ref::<&str>().map(|s| s.to_string())).unwrap_or("?".into())) }

fn view(pp: &ParsedPacket) -> String { format!("{:?} {:?} {:?} {:?} {:?} {} {:?} {:?} {:?}", pp.offset_question, pp.offset_answers, pp.offset_nameservers, pp.offset_additional, pp.offset_edns, pp.edns_count, pp.ext_rcode, pp.edns_version, pp.ext_flags) }

fn main() {
  std::panic::set_hook(Box::new(|_| {}));
  let seed: u64 = std::env::args().nth(1).map(|s| s.parse().unwrap()).unwrap_or(1);
  let iters: usize = std::env::args().nth(2).map(|s| s.parse().unwrap()).unwrap_or(2000);
  let mut r = Rng(seed.wrapping_mul(0x9E3779B97F4A7C15) | 1);
  let mut fails: std::collections::BTreeMap<String, (usize, String)> = Default::default();
  let mut fail = |k: &str, d: String| { let e = fails.entry(k.to_string()).or_insert((0, d)); e.0 += 1; };
  for it in 0..iters {
    let m = gen_msg(&mut r); let u = encode(&m);
    if let Err(e) = parse(&u) { fail("gen-not-accepted", format!("{} {:?}", e, m)); continue; }
    // compress
    let c = match guard(|| Compress::compress(&u)) { Ok(Ok(c)) => c, Ok(Err(e)) => { fail("compress-err", e.to_string()); continue; } Err(e) => { fail("compress-panic", e); continue; } };
    if c.len() > u.len() { fail("compress-grows", format!("{}", it)); }
    match parse(&c) { Err(e) => { fail("compress-out-rejected", format!("{} {}", e, hex(&u))); continue; } Ok(_) => {} }
    match decode(&c) { Some(dm) => { if lc_msg(&dm) != lc_msg(&m) { fail("compress-msg-differs", hex(&u)); } if dm.q != m.q { fail("compress-q-case", hex(&u)); } } None => fail("compress-undecodable", hex(&u)) }
    // uncompress of compressed
    match guard(|| Compress::uncompress(&c)) { Ok(Ok(uu)) => { if decode(&uu) != decode(&c) { fail("uncompress-msg-differs", hex(&c)); }
        if uu.iter().enumerate().any(|_| false) {} if guard(|| Compress::uncompress(&uu)).ok().and_then(|x| x.ok()) != Some(uu.clone()) { fail("uncompress-not-idempotent", hex(&c)); }
        if uu != encode(&decode(&c).unwrap()) { fail("uncompress-not-canonical", hex(&c)); } }
      Ok(Err(e)) => fail("uncompress-err", e.to_string()), Err(e) => fail("uncompress-panic", e) }
    // rename
    let src = vec![b"example".to_vec(), b"com".to_vec()]; let tgt = vec![b"renamed".to_vec(), b"example".to_vec(), b"org".to_vec()];
    for &sfx in &[true, false] { for inp in [&u, &c] {
      let mut pp = parse(inp).unwrap();
      match guard(|| Renamer::rename_with_raw_names(&mut pp, &enc_name(&tgt), &enc_name(&src), sfx)) {
        Ok(Ok(rn)) => { match parse(&rn) { Err(e) => fail("rename-out-rejected", format!("{} {}", e, hex(inp))), Ok(_) => {
            let rf = |n: &Vec<Vec<u8>>| -> Vec<Vec<u8>> { let ln = lc(n); let ls = lc(&src); if (sfx && ln.len() >= ls.len() && ln[ln.len() - ls.len()..] == ls[..]) || (!sfx && ln == ls) { let mut x = n[..n.len() - ls.len()].to_vec(); x.extend(tgt.clone()); x } else { n.clone() } };
            let mut em = m.clone(); if let Some(q) = em.q.as_mut() { q.0 = rf(&q.0); }
            for s in em.secs.iter_mut() { for rec in s.iter_mut() { if rec.typ != 41 { rec.name = rf(&rec.name); } rec.rd = match &rec.rd { Rd::Raw(x) => Rd::Raw(x.clone()), Rd::Name(n) => Rd::Name(rf(n)), Rd::Mx(p, n) => Rd::Mx(*p, rf(n)), Rd::Soa(a, b, c) => Rd::Soa(rf(a), rf(b), c.clone()) }; } }
            let mut em2 = em.clone(); if let Some(i) = em2.secs[2].iter().position(|x| x.typ == 41) { let o = em2.secs[2].remove(i); em2.secs[2].push(o); }
            match decode(&rn) { Some(dm) => if lc_msg(&dm) != lc_msg(&em) && lc_msg(&dm) == lc_msg(&em2) { fail("rename-opt-moved-to-end", hex(inp)) } else if lc_msg(&dm) != lc_msg(&em) { fail("rename-msg-differs", format!("sfx={} {}", sfx, hex(inp))) }, None => fail("rename-undecodable", hex(inp)) } } } }
        Ok(Err(e)) => fail("rename-err", e.to_string()), Err(e) => fail("rename-panic", format!("{} {}", e, hex(inp))) } } }
    // mutations on compressed packet c
    let mut pp = parse(&c).unwrap(); let mut em = m.clone();
    for step in 0..6 {
      let s = r.below(3); let op = r.below(5);
      let res = guard(|| -> Result<String, String> {
        let n = em.secs[s].iter().filter(|x| s != 2 || x.typ != 41).count();
        match op {
          0 | 1 if n > 0 => { let k = r.below(n); let newn = if op == 0 { vec![b"q".to_vec()] } else { vec![b"averyveryverylonglabel".to_vec(), b"zz".to_vec(), b"example".to_vec(), b"com".to_vec()] };
            let mut it = match s { 0 => pp.into_iter_answer(), 1 => pp.into_iter_nameservers(), _ => pp.into_iter_additional() };
            for _ in 0..k { it = it.unwrap().next(); }
            let mut i = it.unwrap(); i.set_raw_name(&enc_name(&newn)).map_err(|e| e.to_string())?;
            let nm = i.name(); let nx = i.next().map(|x| x.name());
            let idx = em.secs[s].iter().enumerate().filter(|(_, x)| s != 2 || x.typ != 41).nth(k).unwrap().0; em.secs[s][idx].name = newn;
            let exp_next = em.secs[s].iter().enumerate().filter(|(j, x)| *j > idx && (s != 2 || x.typ != 41)).next().map(|(_, x)| x.name.iter().map(|l| String::from_utf8_lossy(&l.to_ascii_lowercase()).to_string()).collect::<Vec<_>>().join("."));
            Ok(format!("{:?}|{:?}|{:?}", String::from_utf8_lossy(&nm), nx.map(|x| String::from_utf8_lossy(&x).to_string()), exp_next)) }
          2 if n > 0 => { let k = r.below(n);
            let mut it = match s { 0 => pp.into_iter_answer(), 1 => pp.into_iter_nameservers(), _ => pp.into_iter_additional() };
            for _ in 0..k { it = it.unwrap().next(); }
            let mut i = it.unwrap(); i.delete().map_err(|e| e.to_string())?; let second = i.delete().is_err();
            let idx = em.secs[s].iter().enumerate().filter(|(_, x)| s != 2 || x.typ != 41).nth(k).unwrap().0; em.secs[s].remove(idx); let c = em.secs[s].len() as u16; em.hdr[6 + 2 * s] = (c >> 8) as u8; em.hdr[7 + 2 * s] = c as u8;
            Ok(format!("second-delete-err={}", second)) }
          3 => { let sec = [Section::Answer, Section::NameServers, Section::Additional][s];
            if em.hdr[2] & 0x80 == 0 && s < 2 { return Ok("skip".into()); }
            pp.insert_rr_from_string(sec, "New.Example.com. 77 IN MX 5 mail.example.com.").map_err(|e| e.to_string())?;
            em.secs[s].push(Rec { name: vec![b"New".to_vec(), b"Example".to_vec(), b"com".to_vec()], typ: 15, class: 1, ttl: 77, rd: Rd::Mx(5, vec![b"mail".to_vec(), b"example".to_vec(), b"com".to_vec()]) });
            let c = em.secs[s].len() as u16; em.hdr[6 + 2 * s] = (c >> 8) as u8; em.hdr[7 + 2 * s] = c as u8; Ok("ins".into()) }
          4 if n > 0 => { let k = r.below(n); let mut it = match s { 0 => pp.into_iter_answer(), 1 => pp.into_iter_nameservers(), _ => pp.into_iter_additional() };
            for _ in 0..k { it = it.unwrap().next(); } let mut i = it.unwrap(); i.set_rr_ttl(0xdeadbeef);
            let idx = em.secs[s].iter().enumerate().filter(|(_, x)| s != 2 || x.typ != 41).nth(k).unwrap().0; em.secs[s][idx].ttl = 0xdeadbeef; Ok("ttl".into()) }
          _ => Ok("skip".into()) } });
      match res { Err(e) => { fail(&format!("mut-panic-op{}", op), format!("step{} {} {}", step, e, hex(&c))); break; } Ok(Err(e)) => { fail(&format!("mut-err-op{}", op), e); }
        Ok(Ok(info)) => { if op <= 1 && info != "skip" { let parts: Vec<&str> = info.split('|').collect(); if parts.len() == 3 && parts[1] != parts[2] { fail("setname-next-wrong", info.clone()); } }
          if op == 2 && info == "second-delete-err=false" { fail("second-delete-ok", String::new()); } } }
      let bytes = pp.packet().to_vec();
      match parse(&bytes) { Err(e) => { fail(&format!("mut-rejected-op{}", op), format!("{} {}", e, hex(&c))); break; }
        Ok(fr) => { if view(&fr) != view(&pp) { fail(&format!("mut-view-op{}", op), format!("obj={} fresh={}", view(&pp), view(&fr))); }
          match decode(&bytes) { Some(dm) => if lc_msg(&dm) != lc_msg(&em) { fail(&format!("mut-msg-op{}", op), hex(&c)); break; }, None => { fail("mut-undecodable", hex(&c)); break; } } } } }
  }
  for (k, (n, d)) in &fails { println!("{:28} x{:<6} e.g. {}", k, n, &d[..d.len().min(300)]); }
  println!("done {} iters, {} failure kinds", iters, fails.len());
}
fn hex(b: &[u8]) -> String { b.iter().map(|x| format!("{:02x}", x)).collect() }
