import Dm.Name
namespace Dm

theorem ccnLoop_terminates (p : Bytes) (fuel : Nat) (s : NW)
    (hn : s.nameLen ≤ 255) (hf : fuel > s.refs + (255 - s.nameLen)) : ccnLoop p fuel s ≠ .diverge := by
  induction fuel generalizing s with
  | zero => omega
  | succ n ih =>
    unfold ccnLoop
    split
    · simp
    · cases h1 : idx p s.offset with
      | ok len =>
        simp only []
        split
        · split
          · simp
          · split
            · simp
            · cases h2 : idx p (s.offset + 1) with
              | ok lo =>
                simp only []
                split
                · simp
                · cases h3 : idx p (((len &&& 0x3f) <<< 8) ||| lo) with
                  | ok t =>
                    simp only []
                    split
                    · simp
                    · apply ih <;> simp <;> omega
                  | err e => simp
                  | panic => simp
                  | diverge => simp [idx] at h3; split at h3 <;> simp at h3
              | err e => simp
              | panic => simp
              | diverge => simp [idx] at h2; split at h2 <;> simp at h2
        · split
          · simp
          · split
            · simp
            · split
              · simp
              · cases h4 : labelHasBadChar p s.offset len with
                | ok b =>
                  cases b with
                  | true => simp
                  | false =>
                    simp only []
                    split
                    · simp
                    · apply ih <;> simp <;> omega
                | err e => simp
                | panic => simp
                | diverge => simp [labelHasBadChar] at h4; split at h4 <;> simp at h4
      | err e => simp
      | panic => simp
      | diverge => simp [idx] at h1; split at h1 <;> simp at h1

theorem checkCompressedName_total (p : Bytes) (off : Nat) :
    (∃ e, checkCompressedName p off = .err e) ∨ (∃ n, checkCompressedName p off = .ok n) := by
  have h1 := checkCompressedName_no_panic p off
  have h2 : checkCompressedName p off ≠ .diverge := by
    unfold checkCompressedName; split
    · simp
    · apply ccnLoop_terminates <;> simp
  cases h : checkCompressedName p off <;> simp_all
end Dm
