namespace Dm
abbrev Bytes := List UInt8
def byteAt (p : Bytes) (i : Nat) : Option Nat := (p[i]?).map (·.toNat)
theorem byteAt_lt {p : Bytes} {i b : Nat} (h : byteAt p i = some b) : b < 256 := by
  unfold byteAt at h
  cases hp : p[i]? with
  | none => simp [hp] at h
  | some x => simp [hp] at h; subst h; exact x.toNat_lt
def isPtr (b : Nat) : Bool := b &&& 0xc0 == 0xc0
theorem isPtr_iff : ∀ b : Fin 256, isPtr b.val = decide (b.val ≥ 192) := by decide +kernel
def walk : Nat → Bytes → Nat → Nat → Option Nat
  | 0, _, _, _ => none
  | fuel+1, p, off, acc =>
    match byteAt p off with
    | none => none
    | some 0 => some (acc+1)
    | some b => if b > 63 then none else walk fuel p (off + b + 1) (acc + b + 1)
example : walk 10 [1, 97, 0] 0 0 = some 3 := by decide
end Dm
