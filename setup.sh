#!/bin/sh
# Builds the framework from files on disk only (offline): the Rust harness against /repo's working
# tree with hooks on, and the whole Lean library (model, lemmas, theorems) plus the driver.
set -e
cd "$(dirname "$0")"
export CARGO_NET_OFFLINE=true
cp /repo/Cargo.lock harness/Cargo.lock 2>/dev/null || true
(cd harness && cargo build --release --offline)
harness/target/release/harness dump-constants > lean/DnsModel/Generated/Constants.lean.new
if cmp -s lean/DnsModel/Generated/Constants.lean.new lean/DnsModel/Generated/Constants.lean; then rm lean/DnsModel/Generated/Constants.lean.new; else mv lean/DnsModel/Generated/Constants.lean.new lean/DnsModel/Generated/Constants.lean; fi
if [ -f gen_fntable.py ]; then python3 gen_fntable.py /repo/src/c_abi.rs /repo/src/bin/c_hook/c_hook.h > lean/DnsModel/Generated/FnTable.lean.new && { if cmp -s lean/DnsModel/Generated/FnTable.lean.new lean/DnsModel/Generated/FnTable.lean; then rm lean/DnsModel/Generated/FnTable.lean.new; else mv lean/DnsModel/Generated/FnTable.lean.new lean/DnsModel/Generated/FnTable.lean; fi; }; fi
python3 rs2lean.py lean/DnsModel/Generated || true
(cd lean && lake build)
