#!/usr/bin/env python3
"""rs2lean.py — translator from a subset of Rust to Lean 4 (DESIGN.md §11).

Reads the functions listed in TARGETS from /repo's *current* source text and writes one Lean
module per group (`DnsModel/Generated/Tr<Group>.lean`, namespace `Dns.Tr`).  The translation is
syntax-directed and knows nothing about DNS:

  * integers are `Nat`; every operation is given its machine meaning explicitly
    (`a - b` = `sub a b`, which panics on underflow as a debug build does; `!x`, `<<`, `as uN`
    are reduced modulo the width of the Rust type; `+`/`*` on u8/u16/u32 are overflow-checked;
    `usize` arithmetic is unbounded apart from subtraction — the trusted-base assumption of §3);
  * `p[i]` = `idx p i` (panics out of range), `&p[a..b]` = `slice p a b`,
    `BigEndian::read_u16(&p[i..])` = `be16 p i`, `BigEndian::write_u16(&mut p[i..], v)` =
    `writeAt p i (put16 v)`;
  * `Result`/panic/non-termination are the four outcomes of `Res`; `bail!(DSError::X(..))` = `.err .x`;
    `?` is bind;
  * mutable locals become shadowing `let`s; the statements after an `if`/`match` are copied into every
    branch that falls through (so a branch that assigns sees its own values);
  * `loop { .. }` becomes a function recursive on a fuel argument whose state is the set of outer
    variables the body assigns; `continue` is the recursive call, `break` the code after the loop;
  * `&mut self` methods take the fields they read as parameters and return the fields they write.

Anything outside the subset raises `Unsupported` — the group's file is then written with an
`#exit`-free error marker that makes the tie module fail to build, which the check reports.
"""
import os
import re
import sys

REPO = os.environ.get("DNSSECTOR_REPO", "/repo")


class Unsupported(Exception):
    pass


# --------------------------------------------------------------------------------------------
# tokens
# --------------------------------------------------------------------------------------------
TOK = re.compile(r"""
  (?P<ws>\s+|//[^\n]*|/\*.*?\*/)
 |(?P<bstr>b"(?:\\.|[^"\\])*")
 |(?P<byte>b'(?:\\.|[^\\'])')
 |(?P<str>"(?:\\.|[^"\\])*")
 |(?P<num>0x[0-9a-fA-F_]+(?:u8|u16|u32|u64|usize)?|[0-9][0-9_]*(?:u8|u16|u32|u64|usize)?)
 |(?P<id>[A-Za-z_][A-Za-z0-9_]*)
 |(?P<op><<=|>>=|\.\.=|::|->|=>|==|!=|<=|>=|&&|\|\||\+=|-=|\*=|/=|%=|&=|\|=|\^=|<<|>>|\.\.|[-+*/%&|^!<>=.,;:(){}\[\]\#?@$'])
""", re.X | re.S)


def tokenize(src):
    out, i = [], 0
    while i < len(src):
        m = TOK.match(src, i)
        if not m:
            raise Unsupported("cannot tokenize at %r" % src[i:i + 30])
        i = m.end()
        k = m.lastgroup
        if k == "ws":
            continue
        out.append((k, m.group(k)))
    return out


# --------------------------------------------------------------------------------------------
# parser (Pratt) for the statement/expression subset
# --------------------------------------------------------------------------------------------
BINPREC = {
    "||": 1, "&&": 2,
    "==": 3, "!=": 3, "<": 3, ">": 3, "<=": 3, ">=": 3,
    "|": 4, "^": 5, "&": 6, "<<": 7, ">>": 7, "+": 8, "-": 8, "*": 9, "/": 9, "%": 9,
}
ASSIGN_OPS = {"=", "+=", "-=", "*=", "/=", "%=", "&=", "|=", "^=", "<<=", ">>="}


class Parser:
    def __init__(self, toks):
        self.t, self.i = toks, 0

    def peek(self, k=0):
        return self.t[self.i + k] if self.i + k < len(self.t) else ("eof", "")

    def next(self):
        x = self.peek()
        self.i += 1
        return x

    def at(self, v):
        return self.peek()[1] == v and self.peek()[0] in ("op", "id")

    def eat(self, v):
        if self.at(v):
            self.i += 1
            return True
        return False

    def expect(self, v):
        if not self.eat(v):
            raise Unsupported("expected %r, found %r" % (v, self.peek()[1]))

    def ident(self):
        k, v = self.next()
        if k != "id":
            raise Unsupported("identifier expected, found %r" % v)
        return v

    # ---- types (kept as text) ----
    def type_(self):
        depth, parts = 0, []
        while True:
            k, v = self.peek()
            if depth == 0 and v in (",", ")", "{", "=", ";", ">") and k == "op":
                if v == ">" and depth == 0:
                    break
                break
            if v in ("<", "(", "["):
                depth += 1
            if v in (">", ")", "]"):
                depth -= 1
            if v == ">>" and k == "op":
                depth -= 2
            if k == "eof":
                raise Unsupported("type runs to end of input")
            parts.append(v)
            self.i += 1
            if depth < 0:
                raise Unsupported("unbalanced type")
        return "".join(parts).replace("mut", "mut ").replace("'a", "")

    def type_simple(self):
        """a type after `as`: a path of identifiers"""
        s = self.ident()
        while self.eat("::"):
            s += "::" + self.ident()
        return s

    # ---- blocks and statements ----
    def skip_attr(self):
        """`#[...]`; returns the attribute text"""
        self.expect("#")
        self.expect("[")
        depth, txt = 1, []
        while depth:
            k, v = self.next()
            if v == "[":
                depth += 1
            elif v == "]":
                depth -= 1
                if depth == 0:
                    break
            txt.append(v)
        return "".join(txt)

    def block(self):
        self.expect("{")
        stmts = []
        tail = None
        while not self.at("}"):
            if self.at("#"):
                attr = self.skip_attr()
                if attr.startswith("cfg(dnssector_verif"):
                    # instrumentation guarded by the verification flag: not part of the code verified
                    self.stmt()
                continue
            s = self.stmt()
            if s[0] == "expr" and not s[2] and self.at("}"):
                tail = s[1]
            else:
                stmts.append(s)
        self.expect("}")
        return ("block", stmts, tail)

    def stmt(self):
        if self.eat("let"):
            pat = self.pattern()
            ty = None
            if self.eat(":"):
                ty = self.type_()
            self.expect("=")
            e = self.expr()
            self.expect(";")
            return ("let", pat, ty, e)
        e = self.expr()
        semi = self.eat(";")
        if not semi and e[0] not in ("if", "match", "loop", "while", "for", "block") and not self.at("}"):
            raise Unsupported("`;` expected after expression, found %r" % self.peek()[1])
        return ("expr", e, semi)

    def pattern(self):
        if self.eat("("):
            ps = []
            while not self.at(")"):
                ps.append(self.pattern())
                if not self.eat(","):
                    break
            self.expect(")")
            return ("ptuple", ps)
        if self.eat("_"):
            return ("pwild",)
        if self.eat("&"):
            return self.pattern()
        k, v = self.peek()
        if k in ("num", "byte"):
            self.i += 1
            return ("plit", lit_value(k, v))
        mut = self.eat("mut")
        self.eat("ref")
        name = self.ident()
        segs = [name]
        while self.eat("::"):
            segs.append(self.ident())
        if self.eat("("):
            subs = []
            while not self.at(")"):
                subs.append(self.pattern())
                if not self.eat(","):
                    break
            self.expect(")")
            return ("ppath", segs, subs)
        if len(segs) > 1 or name in ("None",):
            return ("ppath", segs, [])
        return ("pid", name, mut)

    # ---- expressions ----
    def expr(self, nostruct=False):
        lhs = self.binexpr(0, nostruct)
        k, v = self.peek()
        if k == "op" and v in ASSIGN_OPS:
            self.i += 1
            rhs = self.expr(nostruct)
            return ("assign", v, lhs, rhs)
        return lhs

    def binexpr(self, minp, nostruct):
        lhs = self.unary(nostruct)
        while True:
            k, v = self.peek()
            if k == "op" and v == ".." and minp == 0:
                self.i += 1
                k2, v2 = self.peek()
                hi = None
                if not (k2 == "op" and v2 in ("]", ")", "{", ",", ";")):
                    hi = self.binexpr(1, nostruct)
                lhs = ("range", lhs, hi)
                continue
            if k == "op" and v in BINPREC and BINPREC[v] >= max(minp, 1):
                p = BINPREC[v]
                self.i += 1
                rhs = self.binexpr(p + 1, nostruct)
                lhs = ("bin", v, lhs, rhs)
                continue
            if k == "id" and v == "as":
                self.i += 1
                lhs = ("cast", lhs, self.type_simple())
                continue
            return lhs

    def unary(self, nostruct):
        if self.eat("!"):
            return ("unary", "!", self.unary(nostruct))
        if self.eat("-"):
            return ("unary", "-", self.unary(nostruct))
        if self.eat("*"):
            return ("unary", "*", self.unary(nostruct))
        if self.eat("&"):
            if self.eat("mut"):
                return ("unary", "&mut", self.unary(nostruct))
            return ("unary", "&", self.unary(nostruct))
        if self.at(".."):
            self.i += 1
            hi = self.binexpr(1, nostruct)
            return ("range", None, hi)
        e = self.postfix(self.primary(nostruct), nostruct)
        while self.peek() == ("id", "as"):
            self.i += 1
            e = ("cast", e, self.type_simple())
        return e

    def args(self, close=")"):
        xs = []
        while not self.at(close):
            xs.append(self.expr())
            if not self.eat(","):
                break
        self.expect(close)
        return xs

    def postfix(self, e, nostruct):
        while True:
            if self.eat("("):
                e = ("call", e, self.args())
            elif self.eat("["):
                ix = self.expr()
                self.expect("]")
                e = ("index", e, ix)
            elif self.eat("?"):
                e = ("try", e)
            elif self.at(".") and self.peek(1)[0] in ("id", "num"):
                self.i += 1
                k, name = self.next()
                if self.eat("("):
                    e = ("mcall", e, name, self.args())
                else:
                    e = ("field", e, name)
            else:
                return e

    def primary(self, nostruct):
        k, v = self.peek()
        if k in ("num", "byte"):
            self.i += 1
            return ("num", lit_value(k, v), lit_suffix(k, v))
        if k == "bstr":
            self.i += 1
            body, out, j = v[2:-1], [], 0
            while j < len(body):
                if body[j] == "\\":
                    out.append({"\\": 92, '"': 34, "n": 10, "t": 9, "r": 13, "0": 0}[body[j + 1]])
                    j += 2
                else:
                    out.append(ord(body[j]))
                    j += 1
            return ("bytes", out)
        if k == "str":
            self.i += 1
            return ("str", v)
        if k == "op" and v == "(":
            self.i += 1
            if self.eat(")"):
                return ("unit",)
            e = self.expr()
            if self.eat(","):
                es = [e]
                while not self.at(")"):
                    es.append(self.expr())
                    if not self.eat(","):
                        break
                self.expect(")")
                return ("tuple", es)
            self.expect(")")
            return ("paren", e)
        if k == "op" and v == "{":
            return self.block()
        if k == "op" and v in ("|", "||"):
            self.i += 1
            params = []
            if v == "|":
                while not self.at("|"):
                    params.append(self.pattern())
                    if not self.eat(","):
                        break
                self.expect("|")
            body = self.expr()
            return ("closure", params, body)
        if k != "id":
            raise Unsupported("unexpected token %r" % v)
        if v == "if":
            self.i += 1
            return self.if_()
        if v == "match":
            self.i += 1
            scrut = self.expr(nostruct=True)
            self.expect("{")
            arms = []
            while not self.at("}"):
                pat = self.pattern()
                guard = None
                if self.eat("if"):
                    guard = self.expr(nostruct=True)
                self.expect("=>")
                body = self.expr()
                self.eat(",")
                arms.append((pat, guard, body))
            self.expect("}")
            return ("match", scrut, arms)
        if v == "loop":
            self.i += 1
            return ("loop", self.block())
        if v == "while":
            self.i += 1
            c = self.expr(nostruct=True)
            return ("while", c, self.block())
        if v == "for":
            self.i += 1
            pat = self.pattern()
            self.expect("in")
            it = self.expr(nostruct=True)
            return ("for", pat, it, self.block())
        if v == "return":
            self.i += 1
            if self.at(";") or self.at("}"):
                return ("return", None)
            return ("return", self.expr())
        if v == "break":
            self.i += 1
            return ("break",)
        if v == "continue":
            self.i += 1
            return ("continue",)
        # path, possibly a macro call
        segs = [self.ident()]
        while self.eat("::"):
            if self.eat("<"):
                raise Unsupported("turbofish")
            segs.append(self.ident())
        if self.at("!") and self.peek(1)[1] in ("(", "["):
            self.i += 1
            close = ")" if self.next()[1] == "(" else "]"
            return ("macro", segs[-1], self.args(close))
        if self.at("{") and not nostruct and segs[-1][0].isupper() and \
                (self.peek(1)[1] == "}" or (self.peek(1)[0] == "id" and self.peek(2)[1] in (":", ",", "}"))):
            self.i += 1
            fields = []
            while not self.at("}"):
                fname = self.ident()
                if self.eat(":"):
                    fields.append((fname, self.expr()))
                else:
                    fields.append((fname, ("var", fname)))
                if not self.eat(","):
                    break
            self.expect("}")
            return ("struct", segs, fields)
        if len(segs) == 1:
            return ("var", segs[0])
        return ("path", segs)

    def if_(self):
        if self.eat("let"):
            # `if let PAT = e { a } else { b }`  is  `match e { PAT => a, _ => b }`
            pat = self.pattern()
            self.expect("=")
            scrut = self.expr(nostruct=True)
            th = self.block()
            el = ("block", [], None)
            if self.eat("else"):
                if self.eat("if"):
                    el = ("block", [], self.if_())
                else:
                    el = self.block()
            return ("match", scrut, [(pat, None, th), (("pwild",), None, el)])
        c = self.expr(nostruct=True)
        th = self.block()
        el = None
        if self.eat("else"):
            if self.eat("if"):
                el = ("block", [], self.if_())
            else:
                el = self.block()
        return ("if", c, th, el)


def lit_value(k, v):
    if k == "byte":
        body = v[2:-1]
        if body.startswith("\\"):
            return {"\\\\": 92, "\\'": 39, "\\n": 10, "\\t": 9, "\\r": 13, "\\0": 0}[body]
        return ord(body)
    v = re.sub(r"(u8|u16|u32|u64|usize)$", "", v).replace("_", "")
    return int(v, 16) if v.startswith("0x") else int(v)


def lit_suffix(k, v):
    if k == "byte":
        return "u8"
    m = re.search(r"(u8|u16|u32|u64|usize)$", v)
    return m.group(1) if m and not v.startswith("0x") or (m and v.startswith("0x") and not re.fullmatch(r"0x[0-9a-fA-F_]+", v)) else None


# --------------------------------------------------------------------------------------------
# locating functions and constants in the source
# --------------------------------------------------------------------------------------------
def find_fn(toks, impl, name):
    """index of the `fn` token of `name` inside `impl <impl> {`, or at top level when impl is None"""
    start, end = 0, len(toks)
    if impl:
        found = False
        for i in range(len(toks) - 2):
            if toks[i] == ("id", "impl"):
                j = i + 1
                hdr = []
                while toks[j][1] != "{":
                    hdr.append(toks[j][1])
                    j += 1
                # `impl X {` or `impl<'a> T for X {` : the implementing type is the last path head
                target = [h for h in hdr if re.match(r"[A-Za-z_]", h) and h not in ("for",)]
                if "for" in hdr:
                    continue
                if target and target[-1] == impl or (len(target) > 1 and target[0] == impl):
                    depth, k = 0, j
                    while True:
                        if toks[k][1] == "{" and toks[k][0] == "op":
                            depth += 1
                        elif toks[k][1] == "}" and toks[k][0] == "op":
                            depth -= 1
                            if depth == 0:
                                break
                        k += 1
                    for m in range(j, k):
                        if toks[m] == ("id", "fn") and toks[m + 1] == ("id", name):
                            return m
        if not found:
            raise Unsupported("fn %s not found in impl %s" % (name, impl))
    for m in range(start, end - 1):
        if toks[m] == ("id", "fn") and toks[m + 1] == ("id", name):
            return m
    raise Unsupported("fn %s not found" % name)


def find_fn_by_sig(toks, impl, sig):
    """a private function that was renamed: the only function of the impl block with this signature"""
    hits = []
    for m in range(len(toks) - 1):
        if toks[m] == ("id", "fn") and toks[m + 1][0] == "id":
            try:
                fn = parse_fn(toks, m, header_only=True)
            except (Unsupported, IndexError):
                continue
            got = ([p[1].replace(" ", "") for p in fn["params"]], fn["ret"].replace(" ", ""), fn["selfk"])
            if got == (sig[0], sig[1], sig[2] if len(sig) > 2 else None):
                hits.append(m)
    # restrict to the impl block
    if impl:
        inside = []
        for h in hits:
            depth, k, owner = 0, h, None
            while k >= 0:
                if toks[k] == ("op", "}"):
                    depth += 1
                elif toks[k] == ("op", "{"):
                    if depth == 0:
                        j = k - 1
                        hdr = []
                        while j >= 0 and toks[j] != ("id", "impl") and toks[j][1] not in ("}", ";"):
                            hdr.append(toks[j][1])
                            j -= 1
                        if j >= 0 and toks[j] == ("id", "impl"):
                            owner = hdr
                            break
                    else:
                        depth -= 1
                k -= 1
            if owner and impl in owner:
                inside.append(h)
        hits = inside
    if len(hits) != 1:
        raise Unsupported("no unique function with the signature %s in impl %s" % (sig, impl))
    return hits[0]


def parse_fn(toks, at, header_only=False):
    p = Parser(toks)
    p.i = at
    p.expect("fn")
    name = p.ident()
    p.expect("(")
    params = []
    selfk = None
    while not p.at(")"):
        if p.at("&") and (p.peek(1)[1] == "self" or (p.peek(1)[1] == "mut" and p.peek(2)[1] == "self")):
            p.next()
            selfk = "&mut" if p.eat("mut") else "&"
            p.expect("self")
        elif p.at("self"):
            p.next()
            selfk = "own"
        elif p.at("mut") and p.peek(1)[1] == "self":
            p.next()
            p.next()
            selfk = "own"
        else:
            mut = p.eat("mut")
            pn = p.ident()
            p.expect(":")
            params.append((pn, p.type_(), mut))
        if not p.eat(","):
            break
    p.expect(")")
    ret = "()"
    if p.eat("->"):
        ret = p.type_()
    if header_only:
        return dict(name=name, params=params, selfk=selfk, ret=ret, body=None)
    body = p.block()
    return dict(name=name, params=params, selfk=selfk, ret=ret, body=body)


def const_types():
    src = open(os.path.join(REPO, "src", "constants.rs")).read()
    out = {}
    for m in re.finditer(r"pub const (\w+)\s*:\s*(\w+)\s*=", src):
        out[m.group(1)] = m.group(2)
    return out


# --------------------------------------------------------------------------------------------
# translation
# --------------------------------------------------------------------------------------------
LEAN_KEYWORDS = set("""section namespace end open at from fun let in if then else match with do have show by instance
structure class def theorem variable universe import export prefix infix notation macro syntax where deriving mutual
private protected local attribute example abbrev inductive opaque axiom partial unsafe return for unless""".split())
WIDTH = {"u8": 8, "u16": 16, "u32": 32, "u64": 64}
INTS = set(WIDTH) | {"usize", "int"}   # "int": an integer whose type the subset does not need to know (treated as usize)


def lean_ty(t):
    t = t.replace(" ", "")
    if t in INTS:
        return "Nat"
    if t == "bool":
        return "Bool"
    if t == "Section":
        return "Section"
    if t == "rr":
        return "Bytes"
    if t.startswith("struct:"):
        return "_"
    if t == "Option<cachedq>":
        return "(Option (Bytes × Nat × Nat))"
    if t in ("&[u8]", "&mut[u8]", "Vec<u8>", "&Vec<u8>", "&mutVec<u8>", "bytes"):
        return "Bytes"
    if t == "()":
        return "Unit"
    if t == "?":
        return "UNRESOLVED_TYPE"
    m = re.fullmatch(r"Option<(.*)>", t)
    if m:
        return "(Option %s)" % lean_ty(m.group(1))
    raise Unsupported("type %s" % t)


def _opt_bytes(t):
    return t


def norm_ty(t):
    t = t.replace(" ", "")
    if t in ("&[u8]", "&mut[u8]", "Vec<u8>", "&Vec<u8>", "&mutVec<u8>"):
        return "bytes"
    if t == "Option<&[u8]>":
        return "Option<bytes>"
    if t in ("r#gen::RR", "gen::RR", "RR"):
        return "rr"
    m = re.fullmatch(r"Result<(.*),Error>", t)
    if m:
        return norm_ty(m.group(1))
    if t in ("Self", "ParsedPacket"):
        return "struct " + t
    return t


def camel(variant):
    return variant[0].lower() + variant[1:]


class Var:
    def __init__(self, lean, ty, mut=False, place=None):
        self.lean, self.ty, self.mut, self.place = lean, ty, mut, place


class Ctx:
    """per-function translation state"""

    def __init__(self, tr, fn, cfg):
        self.tr, self.fn, self.cfg = tr, fn, cfg
        self.fresh = 0
        self.aux = []          # auxiliary definitions (loops), emitted before the function
        self.taken = set()
        self.loop = None       # (name, fixed params, carried names) of the innermost loop
        self.after = None

    def gensym(self, base="t"):
        self.fresh += 1
        return "%s_%d" % (base, self.fresh)

    def declare(self, env, name, ty, mut=False):
        lean = name + "_" if name in LEAN_KEYWORDS else name
        while lean in self.taken:
            lean += "'"
        self.taken.add(lean)
        env = dict(env)
        ty = self.tr.refined.get((self.fn["name"], lean), ty) if ty in ("int", "Option<?>") else ty
        env[name] = Var(lean, ty, mut)
        return env, lean


def wrap(pre, body):
    """bind the prelude items around `body` (evaluation order = list order)"""
    for kind, name, term in reversed(pre):
        if kind == "bind":
            body = "(%s >>= fun %s =>\n%s)" % (term, name, body)
        else:
            body = "(let %s := %s;\n%s)" % (name, term, body)
    return body


class Translator:
    def __init__(self, group, self_fields):
        self.group = group
        self.consts = const_types()
        self.fns = {}        # name -> parsed fn + analysis
        self.self_fields = self_fields   # field -> (lean var, rust type), in canonical order
        self.order = []
        self.refined = {}

    # ---- analysis: which self fields a method reads / writes (transitively) ----
    def add(self, cfg):
        src = open(os.path.join(REPO, cfg["file"])).read()
        toks = tokenize(src)
        try:
            at = find_fn(toks, cfg.get("impl"), cfg["fn"])
        except Unsupported:
            if not cfg.get("sig"):
                raise
            at = find_fn_by_sig(toks, cfg.get("impl"), cfg["sig"])
        fn = parse_fn(toks, at)
        fn["name"] = cfg["fn"]      # a private helper found by its signature keeps the configured name
        fn["cfg"] = cfg
        fn["lean"] = cfg.get("lean", cfg["fn"])
        self.fns[cfg["fn"]] = fn
        self.order.append(cfg["fn"])

    def analyse(self):
        for fn in self.fns.values():
            fn["reads"], fn["writes"], fn["calls"] = set(), set(), set()
            self.scan(fn["body"], fn)
        changed = True
        while changed:
            changed = False
            for fn in self.fns.values():
                for c in fn["calls"]:
                    if c in self.fns:
                        for k in ("reads", "writes"):
                            extra = self.fns[c][k] - fn[k]
                            if extra:
                                fn[k] |= extra
                                changed = True
        for fn in self.fns.values():
            fn["reads"] |= fn["writes"]

    def self_field_of(self, e):
        """`self.f`, `self.f()` for accessor-style fields → field name"""
        if e[0] == "field" and e[1] == ("var", "self"):
            return e[2]
        if e[0] == "mcall" and e[1] == ("var", "self") and not e[3] and e[2] in self.accessors():
            return self.accessors()[e[2]]
        return None

    def accessors(self):
        return {"packet": "packet", "packet_mut": "packet"} if "packet" in self.self_fields else {}

    def scan(self, e, fn, writing=False):
        if isinstance(e, tuple):
            f = self.self_field_of(e) if e and isinstance(e[0], str) else None
            if f is not None:
                fn["reads"].add(f)
                if writing or (e[0] == "mcall" and e[2] == "packet_mut"):
                    fn["writes"].add(f)
                return
            if e and e[0] == "assign":
                self.scan(e[2], fn, True)
                self.scan(e[3], fn)
                return
            if e and e[0] == "unary" and e[1] == "&mut":
                self.scan(e[2], fn, True)
                return
            if e and e[0] == "mcall" and e[1] == ("var", "self"):
                fn["calls"].add(e[2])
                if e[2] in EXT_METHODS:
                    fn["reads"] |= set(EXT_METHODS[e[2]]["reads"])
                    fn["writes"] |= set(EXT_METHODS[e[2]]["writes"])
            if e and e[0] == "call" and e[1][0] == "path" and e[1][1][0] == "Self":
                fn["calls"].add(e[1][1][1])
            if e and e[0] == "index":
                self.scan(e[1], fn, writing)
                self.scan(e[2], fn)
                return
            for x in e:
                self.scan(x, fn, writing if e[0] in ("paren", "field") else False)
        elif isinstance(e, list):
            for x in e:
                self.scan(x, fn)

    # ---- signatures ----
    def fields(self, fn, which):
        return [f for f in self.self_fields if f in fn[which]]

    def ret_components(self, fn):
        comps = []
        r = norm_ty(fn["ret"])
        if r != "()":
            comps.append(("ret", r))
        if fn["selfk"] != "own":
            for f in self.fields(fn, "writes"):
                comps.append((f, self.self_fields[f][1]))
        for pn, pty, _ in fn["params"]:
            if pty.replace(" ", "") in ("&mutVec<u8>", "&mut[u8]"):
                comps.append(("param." + pn, "bytes"))
        return comps

    def ret_lean(self, fn):
        if fn["cfg"].get("ret_lean"):
            return fn["cfg"]["ret_lean"]
        comps = self.ret_components(fn)
        if not comps:
            return "Unit"
        return " × ".join(lean_ty(t) for _, t in comps)

    def pack(self, fn, env, value):
        """the value returned at a return point: Rust's return value and the current written fields"""
        comps = self.ret_components(fn)
        parts = []
        for name, _ in comps:
            parts.append(value if name == "ret" else env[name[6:]].lean if name.startswith("param.") else env["self." + name].lean)
        if not parts:
            return "()"
        return parts[0] if len(parts) == 1 else "(" + ", ".join(parts) + ")"

    # ---- expressions ----
    def lit(self, n):
        return hex(n) if n > 9 else str(n)

    def expr(self, e, env, cx, expect=None):
        """→ (prelude, term, type).  Fallible sub-expressions are bound in the prelude in evaluation order."""
        k = e[0]
        if k == "paren":
            return self.expr(e[1], env, cx, expect)
        if k == "num":
            return [], self.lit(e[1]), e[2] or expect or "int"
        if k == "unit":
            return [], "()", "()"
        if k == "bytes":
            return [], "([" + ", ".join(str(x) for x in e[1]) + "] : Bytes)", "bytes"
        if k == "var":
            n = e[1]
            if n in env:
                return [], env[n].lean, env[n].ty
            if n in self.consts:
                return [], n, self.consts[n]
            if n == "None":
                return [], "none", "Option<?>"
            if n in ("true", "false"):
                return [], n, "bool"
            raise Unsupported("unknown name %s" % n)
        if k == "path":
            segs = e[1]
            if segs == ["u16", "MAX"]:
                return [], "65535", "u16"
            if segs == ["u8", "MAX"]:
                return [], "255", "u8"
            if len(segs) == 2 and segs[0] == "Type":
                return [], "TYPE_" + segs[1], "u16"
            if len(segs) == 2 and segs[0] == "Class":
                return [], "CLASS_" + segs[1], "u16"
            if len(segs) == 2 and segs[0] == "Section":
                return [], "Section." + camel(segs[1]), "Section"
            raise Unsupported("path %s" % "::".join(segs))
        f = self.self_field_of(e)
        if f is not None:
            v = env["self." + f]
            return [], v.lean, v.ty
        if k == "field" and e[1][0] == "var" and e[1][1] in env and env[e[1][1]].ty.startswith("struct:"):
            info = XSTRUCT[env[e[1][1]].ty[7:]]
            i = info["fields"].index(e[2])
            return [], proj(env[e[1][1]].lean, i, len(info["fields"])), info["types"][i]
        if k == "field" and e[2] == "packet" and e[1][0] == "var" and e[1][1] in env and env[e[1][1]].ty == "rr":
            return [], env[e[1][1]].lean, "bytes"
        if k == "cast":
            pre, t, ty = self.expr(e[1], env, cx)
            to = e[2]
            if to not in INTS:
                raise Unsupported("cast to %s" % to)
            if ty == "bool":
                raise Unsupported("bool cast")
            if to in WIDTH and (ty not in WIDTH or WIDTH[ty] > WIDTH[to]):
                if re.fullmatch(r"0x[0-9a-f]+|\d+", t):
                    return pre, self.lit(int(t, 0) % (1 << WIDTH[to])), to
                return pre, "(%s %% %d)" % (t, 1 << WIDTH[to]), to
            return pre, t, to
        if k == "unary":
            op = e[1]
            if op in ("&", "&mut", "*"):
                if op == "*" and e[2][0] == "var" and env.get(e[2][1]) and env[e[2][1]].place:
                    return self.expr(env[e[2][1]].place, env, cx, expect)
                return self.expr(e[2], env, cx, expect)
            pre, t, ty = self.expr(e[2], env, cx, expect)
            if op == "!":
                if ty == "bool":
                    return pre, "(!%s)" % t, "bool"
                if ty not in WIDTH:
                    raise Unsupported("`!` on an integer of unknown width (%s)" % ty)
                full = (1 << WIDTH[ty]) - 1
                if re.fullmatch(r"0x[0-9a-f]+|\d+", t):
                    return pre, self.lit(full - int(t, 0)), ty
                return pre, "(%d - %s)" % (full, t), ty
            raise Unsupported("unary %s" % op)
        if k == "bin":
            return self.binop(e, env, cx, expect)
        if k == "index":
            if e[2][0] == "range":
                pre, b, ty = self.expr(e[1], env, cx)
                lo, hi = e[2][1], e[2][2]
                pl, tl = ([], "0") if lo is None else self.expr(lo, env, cx, "usize")[:2]
                n = cx.gensym("s")
                if hi is None:
                    return pre + pl + [("bind", n, "sliceFrom %s %s" % (b, tl))], n, "bytes"
                ph, th, _ = self.expr(hi, env, cx, "usize")
                return pre + pl + ph + [("bind", n, "slice %s %s %s" % (b, tl, th))], n, "bytes"
            pre, b, ty = self.expr(e[1], env, cx)
            if ty != "bytes":
                raise Unsupported("index into %s" % ty)
            pi, ti, _ = self.expr(e[2], env, cx, "usize")
            n = cx.gensym("b")
            return pre + pi + [("bind", n, "idx %s %s" % (b, ti))], n, "u8"
        if k == "call":
            return self.call(e, env, cx, expect)
        if k == "mcall":
            return self.mcall(e, env, cx, expect)
        if k == "try":
            pre, t, ty = self.expr(e[1], env, cx, expect)
            return pre, t, ty     # calls are already bound monadically; `?` adds nothing in `Res`
        if k == "if":
            # a value-level conditional without control flow inside
            pc, c, _ = self.expr(e[1], env, cx)
            if e[3] is None:
                raise Unsupported("if-expression without else")
            p1, t1, ty1 = self.block_value(e[2], env, cx, expect)
            p2, t2, ty2 = self.block_value(e[3], env, cx, expect or ty1)
            ty = ty1 if ty1 != "int" else ty2
            if not p1 and not p2:
                return pc, "(if %s then %s else %s)" % (c, t1, t2), ty
            n = cx.gensym("v")
            return pc + [("bind", n, "(if %s then %s else %s)" % (c, wrap(p1, "pure " + t1), wrap(p2, "pure " + t2)))], n, ty
        if k == "tuple":
            raise Unsupported("tuple value")
        if k == "struct":
            # a struct value: the tuple of its fields in the order written
            pre, ts = [], []
            for fname, fe in e[2]:
                if fe == ("var", "true") or fe == ("var", "false"):
                    ts.append(fe[1])
                    continue
                p, t, _ = self.expr(fe, env, cx)
                pre += p
                ts.append(t)
            return pre, "(" + ", ".join(ts) + ")", "struct " + e[1][-1]
        if k == "str":
            return [], "()", "str"
        raise Unsupported("expression %s" % k)

    def block_value(self, b, env, cx, expect):
        if b[0] != "block" or b[1] or b[2] is None:
            raise Unsupported("block with statements used as a value")
        return self.expr(b[2], env, cx, expect)

    def binop(self, e, env, cx, expect):
        op, a, b = e[1], e[2], e[3]
        cmp_ = op in ("==", "!=", "<", ">", "<=", ">=")
        pa, ta, tya = self.expr(a, env, cx, None if cmp_ or op in ("<<", ">>") else expect)
        if op in ("&&", "||"):
            pb, tb, tyb = self.expr(b, env, cx)
            if not pb:
                return pa, "(%s %s %s)" % (ta, op, tb), "bool"
            n = cx.gensym("c")
            short = "false" if op == "&&" else "true"
            cond = ta if op == "&&" else "(!%s)" % ta
            return pa + [("bind", n, "(if %s then %s else pure %s)" % (cond, wrap(pb, "pure " + tb), short))], n, "bool"
        if op in ("<<", ">>"):
            pb, tb, tyb = self.expr(b, env, cx)
        else:
            pb, tb, tyb = self.expr(b, env, cx, tya if tya != "int" else expect)
            if tya == "int" and tyb != "int" and a[0] in ("num", "paren"):
                pa, ta, tya = self.expr(a, env, cx, tyb)
        ty = tya if tya != "int" else tyb
        pre = pa + pb
        if cmp_:
            if op == "==":
                return pre, "(%s == %s)" % (ta, tb), "bool"
            if op == "!=":
                return pre, "(%s != %s)" % (ta, tb), "bool"
            return pre, "(decide (%s %s %s))" % (ta, {"<": "<", ">": ">", "<=": "≤", ">=": "≥"}[op], tb), "bool"
        if ty == "bool":
            raise Unsupported("bit operation on bool")
        if op == "&":
            return pre, "(%s &&& %s)" % (ta, tb), ty
        if op == "|":
            return pre, "(%s ||| %s)" % (ta, tb), ty
        if op == "^":
            return pre, "(%s ^^^ %s)" % (ta, tb), ty
        if op == ">>":
            return pre, "(%s >>> %s)" % (ta, tb), tya
        if op == "<<":
            if tya in WIDTH:
                return pre, "((%s <<< %s) %% %d)" % (ta, tb, 1 << WIDTH[tya]), tya
            return pre, "(%s <<< %s)" % (ta, tb), tya
        LIT = r"0x[0-9a-f]+|\d+"
        if op in ("-", "+", "*") and re.fullmatch(LIT, ta) and re.fullmatch(LIT, tb):
            # constant arithmetic is done by rustc (an overflow would not compile)
            va, vb = int(ta, 0), int(tb, 0)
            v = va - vb if op == "-" else va + vb if op == "+" else va * vb
            if v >= 0:
                return pre, self.lit(v), ty
        if op == "-":
            n = cx.gensym("d")
            return pre + [("bind", n, "sub %s %s" % (ta, tb))], n, ty
        if op in ("+", "*"):
            sym = op
            if ty in WIDTH:
                n = cx.gensym("a")
                return pre + [("bind", n, "checked %d (%s %s %s)" % (1 << WIDTH[ty], ta, sym, tb))], n, ty
            return pre, "(%s %s %s)" % (ta, sym, tb), ty
        if op in ("/", "%"):
            n = cx.gensym("q")
            return pre + [("bind", n, "assert (%s != 0)" % tb)], "(%s %s %s)" % (ta, op, tb), ty
        raise Unsupported("operator %s" % op)

    def call(self, e, env, cx, expect):
        f, args = e[1], e[2]
        if f[0] == "var" and f[1] == "Some":
            pre, t, ty = self.expr(args[0], env, cx)
            return pre, "(some %s)" % t, "Option<%s>" % ty
        if f[0] == "var" and f[1] == "Ok":
            pre, t, ty = self.expr(args[0], env, cx, expect)
            return pre, t, ty
        if f[0] == "path":
            segs = f[1]
            if segs[0] == "BigEndian" and segs[1] in ("read_u16", "read_u32"):
                a = args[0]
                while a[0] in ("unary", "paren"):
                    a = a[2] if a[0] == "unary" else a[1]
                if a[0] != "index" or a[2][0] != "range" or a[2][2] is not None:
                    raise Unsupported("BigEndian::read on something other than &p[i..]")
                pb, b, _ = self.expr(a[1], env, cx)
                pi, ti, _ = self.expr(a[2][1], env, cx, "usize")
                n = cx.gensym("w")
                w = "16" if segs[1] == "read_u16" else "32"
                return pb + pi + [("bind", n, "be%s %s %s" % (w, b, ti))], n, "u" + w
            if segs[0] in XSTRUCT and segs[1] in XSTRUCT[segs[0]].get("ctors", {}):
                lean = XSTRUCT[segs[0]]["ctors"][segs[1]]
                pre, ts = [], []
                for a in args:
                    p, t, _ = self.expr(a, env, cx)
                    pre += p
                    ts.append(t)
                n = cx.gensym("st")
                return pre + [("bind", n, "%s %s" % (lean, " ".join(ts)))], n, "struct:" + segs[0]
            if segs in (["Vec", "with_capacity"], ["Vec", "new"]):
                return [], "([] : Bytes)", "bytes"
            if len(segs) == 2 and segs[1] == "from" and segs[0] in INTS:
                return self.expr(("cast", args[0], segs[0]), env, cx, expect)
            if segs[0] == "mem" and segs[1] == "replace":
                # value: the old content; effect: handled by the statement translator via `pending`
                tgt = args[0]
                while tgt[0] in ("unary", "paren"):
                    tgt = tgt[2] if tgt[0] == "unary" else tgt[1]
                fld = self.self_field_of(tgt)
                if fld is None:
                    raise Unsupported("mem::replace on a non-field")
                pre, t, ty = self.expr(args[1], env, cx, env["self." + fld].ty)
                old = cx.gensym("old")
                v = env["self." + fld]
                return pre + [("let", old, v.lean), ("let", v.lean, t)], old, v.ty
            if segs[0] == "Compress" and segs[1] in EXTERNAL:
                return self.call_external(segs[1], args, env, cx)
            if segs[0] in ("Self", "Compress", "DNSSector", "ParsedPacket") and segs[1] in self.fns:
                return self.call_fn(self.fns[segs[1]], args, env, cx)
            if segs[0] in XGROUP and segs[1] in XGROUP[segs[0]]:
                return self.call_fn(XGROUP[segs[0]][segs[1]], args, env, cx)
            if segs[0] in ("Self", "Compress", "DNSSector") and segs[1] in EXTERNAL:
                return self.call_external(segs[1], args, env, cx)
            raise Unsupported("call of %s" % "::".join(segs))
        raise Unsupported("call")

    def call_external(self, name, args, env, cx):
        lean, ret = EXTERNAL[name]
        pre, ts = [], []
        for a in args:
            p, t, _ = self.expr(a, env, cx, "usize")
            pre += p
            ts.append(t)
        n = cx.gensym("r")
        return pre + [("bind", n, "%s %s" % (lean, " ".join(ts)))], n, ret

    def call_fn(self, callee, args, env, cx):
        pre, ts = [], []
        for f in self.fields(callee, "reads"):
            ts.append(env["self." + f].lean)
        for a, (pn, pty, _) in zip(args, callee["params"]):
            p, t, _ = self.expr(a, env, cx, norm_ty(pty))
            pre += p
            ts.append(t)
        comps = self.ret_components(callee)
        names = []
        val, vty = "()", "()"
        for name, ty in comps:
            if name == "ret":
                val = cx.gensym("r")
                vty = ty
                names.append(val)
            elif name.startswith("param."):
                # the callee writes through this parameter: the argument must be a variable, which receives the result
                idxp = [p[0] for p in callee["params"]].index(name[6:])
                a = args[idxp]
                while a[0] in ("unary", "paren"):
                    a = a[2] if a[0] == "unary" else a[1]
                f = self.self_field_of(a)
                v = env["self." + f] if f else env.get(a[1]) if a[0] == "var" else None
                if v is None:
                    raise Unsupported("a written-through argument that is not a variable")
                names.append(v.lean)
            else:
                names.append(env["self." + name].lean)
        pat = "_" if not names else names[0] if len(names) == 1 else "(" + ", ".join(names) + ")"
        pre.append(("bind", pat, "%s %s" % (callee["lean"], " ".join(ts))))
        return pre, val, vty

    def mcall(self, e, env, cx, expect):
        recv, name, args = e[1], e[2], e[3]
        if recv == ("var", "self"):
            if name in self.fns:
                return self.call_fn(self.fns[name], args, env, cx)
            if name in EXT_METHODS:
                m = EXT_METHODS[name]
                ts = [env["self." + f].lean for f in m["reads"]]
                names = [env["self." + f].lean for f in m["writes"]]
                pat = names[0] if len(names) == 1 else "(" + ", ".join(names) + ")"
                return [("bind", pat, "%s %s" % (m["lean"], " ".join(ts)))], "()", "()"
            if name in EXTERNAL:
                return self.call_external(name, args, env, cx)
            raise Unsupported("method self.%s" % name)
        if recv[0] == "var" and recv[1] in env and env[recv[1]].ty.startswith("struct:"):
            sname = env[recv[1]].ty[7:]
            info = XSTRUCT[sname]
            fields = info["fields"]
            if name in info.get("methods", {}):
                lean, rty = info["methods"][name]
                comps = [proj(env[recv[1]].lean, i, len(fields)) for i in range(len(fields))]
                n = cx.gensym("st")
                return [("bind", n, "%s %s" % (lean, " ".join(comps)))], n, rty
            if name in info.get("unwrap", {}):
                i = fields.index(info["unwrap"][name])
                n = cx.gensym("u")
                return [("bind", n, "unwrapOpt %s" % proj(env[recv[1]].lean, i, len(fields)))], n, "bytes"
            raise Unsupported("method .%s of a %s" % (name, sname))
        if name == "all" and len(args) == 1 and args[0][0] == "closure" and len(args[0][1]) == 1 and args[0][1][0][0] == "pid":
            rng = recv
            while rng[0] == "paren":
                rng = rng[1]
            if rng[0] != "range" or rng[1] != ("num", 0, None) or rng[2] is None:
                raise Unsupported(".all on something other than (0..n)")
            # `(0..n).all(|j| body)`: recursion on the number of indices left, stopping at the first false
            pn, tn, _ = self.expr(rng[2], env, cx, "usize")
            cx.nloops = getattr(cx, "nloops", 0) + 1
            fname = "%s_all%d" % (cx.fn["lean"], cx.nloops)
            env2, lj = cx.declare(env, args[0][1][0][1], "usize")
            pb, tb, _ = self.expr(args[0][2], env2, cx)
            body = wrap(pb, "(if %s then\n%s FIXED left (%s + 1)\nelse\nRes.ok false)" % (tb, fname, lj))
            fixed = [n for n in env if re.search(r"(?<![\w'.])%s(?![\w'])" % re.escape(env[n].lean), body)]
            fixed_args = " ".join(env[n].lean for n in fixed)
            body = body.replace("%s FIXED left" % fname, ("%s %s left" % (fname, fixed_args)).replace("  ", " "))
            sig = "def %s %s : Nat → Nat → Res (Bool)" % (fname, " ".join("(%s : %s)" % (env[n].lean, lean_ty(env[n].ty)) for n in fixed))
            cx.aux.append("%s\n  | 0, _ =>\nRes.ok true\n  | left+1, %s =>\n%s" % (sig, lj, body))
            r = cx.gensym("c")
            return pn + [("bind", r, "%s %s %s 0" % (fname, fixed_args, tn))], r, "bool"
        if name == "is_empty" and not args:
            pre, t, ty = self.expr(recv, env, cx)
            if ty != "bytes":
                raise Unsupported(".is_empty() of %s" % ty)
            return pre, "%s.isEmpty" % t, "bool"
        if name == "len" and not args:
            pre, t, ty = self.expr(recv, env, cx)
            if ty != "bytes":
                raise Unsupported(".len() of %s" % ty)
            return pre, "%s.length" % t, "usize"
        if name == "any" and recv[0] == "mcall" and recv[2] == "iter":
            pre, s, ty = self.expr(recv[1], env, cx)
            cl = args[0]
            if cl[0] != "closure" or len(cl[1]) != 1 or cl[1][0][0] != "pid":
                raise Unsupported("closure shape")
            c = cl[1][0][1]
            env2, lean = cx.declare(env, c, "u8")
            pb, tb, _ = self.expr(cl[2], env2, cx)
            if pb:
                raise Unsupported("fallible closure body")
            return pre, "(%s.any (fun x_ => let %s := x_.toNat; %s))" % (s, lean, tb), "bool"
        if name == "eq_ignore_ascii_case" and len(args) == 1:
            pre, t, ty = self.expr(recv, env, cx)
            pa, ta, _ = self.expr(args[0], env, cx, ty)
            return pre + pa, "(asciiLower %s == asciiLower %s)" % (t, ta), "bool"
        if name == "is_ascii_control" and not args:
            pre, t, ty = self.expr(recv, env, cx)
            return pre, "(decide (%s < 32) || %s == 127)" % (t, t), "bool"
        if name == "unwrap_or_else" and len(args) == 1 and args[0][0] == "closure" and not args[0][1]:
            return self.mcall(("mcall", recv, "unwrap_or", [args[0][2]]), env, cx, expect)
        if name in ("or", "unwrap_or", "is_some", "is_none"):
            pre, t, ty = self.expr(recv, env, cx)
            if not ty.startswith("Option"):
                if name == "unwrap_or" and recv[0] in ("mcall", "call"):
                    raise Unsupported("unwrap_or on a Result")
                raise Unsupported(".%s on %s" % (name, ty))
            inner = ty[7:-1]
            if name == "is_some":
                return pre, "%s.isSome" % t, "bool"
            if name == "is_none":
                return pre, "%s.isNone" % t, "bool"
            pa, ta, tya = self.expr(args[0], env, cx, inner if inner != "?" else None)
            if name == "or":
                return pre + pa, "(%s.or %s)" % (t, ta), tya if inner == "?" else ty
            return pre + pa, "(%s.getD %s)" % (t, ta), tya if inner == "?" else inner
        if name == "map" and args and args[0][0] == "path" and len(args[0][1]) == 2 and args[0][1][1] == "from":
            pre, t, ty = self.expr(recv, env, cx)
            n = cx.gensym("x")
            env2 = dict(env)
            env2[n] = Var(n, ty)
            pb, tb, tyb = self.expr(("cast", ("var", n), args[0][1][0]), env2, cx)
            return pre + [("let", n, t)] + pb, tb, tyb
        if name == "map" and args and args[0][0] == "closure" and len(args[0][1]) == 1 and args[0][1][0][0] == "pid":
            pre0, t0, ty0 = self.expr(recv, env, cx)
            if ty0.startswith("Option<"):
                c = args[0][1][0][1]
                env2, lean = cx.declare(env, c, ty0[7:-1])
                pb, tb, tyb = self.expr(args[0][2], env2, cx)
                if pb:
                    raise Unsupported("fallible closure in Option::map")
                return pre0, "(%s.map (fun %s => %s))" % (t0, lean, tb), "Option<%s>" % tyb
        if name == "map" and args and args[0][0] == "closure":
            # on a `Result`: the receiver is already bound; apply the closure to the value
            pre, t, ty = self.expr(recv, env, cx)
            cl = args[0]
            if not cl[1] or cl[1][0][0] == "pwild":
                return pre, "()", "()"
            c = cl[1][0][1]
            env2, lean = cx.declare(env, c, ty)
            pb, tb, tyb = self.expr(cl[2], env2, cx)
            return pre + [("let", lean, t)] + pb, tb, tyb
        if name == "into" and not args:
            return self.expr(recv, env, cx, expect)
        raise Unsupported("method .%s" % name)

    # ---- statements (continuation-passing) ----
    def stmts(self, ss, tail, env, cx, k):
        """translate the statement list, then the tail expression (or unit); `k(env, value)` is what follows"""
        if not ss:
            if tail is None:
                return k(env, "()")
            return self.cps(tail, env, cx, k)
        s, rest = ss[0], ss[1:]
        if s[0] == "let":
            pat, ty, init = s[1], s[2], s[3]
            if pat[0] == "ptuple":
                if init[0] != "tuple" or len(init[1]) != len(pat[1]):
                    raise Unsupported("tuple pattern without a tuple initialiser")
                lets = [("let", p, None, x) for p, x in zip(pat[1], init[1])]
                return self.stmts(lets + rest, tail, env, cx, k)
            if pat[0] != "pid":
                raise Unsupported("let pattern")
            name, mut = pat[1], pat[2]
            # `let packet = &mut self.packet_mut();` : another name for the field
            inner = init
            while inner[0] in ("unary", "paren") and (inner[0] == "paren" or inner[1] in ("&", "&mut")):
                inner = inner[2] if inner[0] == "unary" else inner[1]
            fld = self.self_field_of(inner) if (inner is not init or (init[0] == "mcall" and init[2].endswith("_mut"))) else None
            if fld is not None:
                env2 = dict(env)
                env2[name] = env["self." + fld]
                return self.stmts(rest, tail, env2, cx, k)
            # `let p = &mut place;` : an alias, resolved at its uses
            if init[0] == "unary" and init[1] == "&mut" and init[2][0] == "index":
                env2 = dict(env)
                env2[name] = Var(name, "place", place=init[2])
                return self.stmts(rest, tail, env2, cx, k)

            def after(env1, v, vty=[None]):
                env2, lean = cx.declare(env1, name, vty[0] or "int", mut)
                return "(let %s := %s;\n%s)" % (lean, v, self.stmts(rest, tail, env2, cx, k))
            want = norm_ty(ty) if ty else None
            if self.is_ctrl(init) and not self.is_value_if(init):
                # the type of a control-flow initialiser: that of its first non-diverting value
                holder = [want]

                def kv(env1, v, vty=None):
                    return after(env1, v, [holder[0] or vty])
                return self.cps(init, env, cx, kv, want_type=holder)
            pre, t, ety = self.expr(init, env, cx, want)
            return wrap(pre, after(self.env_after(pre, env), t, [want or ety]))
        e = s[1]
        return self.cps(e, env, cx, lambda env1, v, vty=None: self.stmts(rest, tail, env1, cx, k))

    def env_after(self, pre, env):
        return env

    def vec_target(self, e, env):
        """the variable a Vec method call acts on: a local / an alias, or the field behind `self.packet_mut()`"""
        f = self.self_field_of(e)
        if f is not None:
            return env["self." + f] if env["self." + f].ty == "bytes" else None
        if e[0] == "var" and e[1] in env and env[e[1]].ty == "bytes":
            return env[e[1]]
        return None

    def is_value_if(self, e):
        """`if c { v1 } else { v2 }` whose branches are plain values (no statements, no control flow)"""
        if e[0] != "if" or e[3] is None:
            return False
        for b in (e[2], e[3]):
            if b[0] == "if":
                if not self.is_value_if(b):
                    return False
                continue
            if b[0] != "block" or b[1] or b[2] is None:
                return False
            if b[2][0] == "if":
                if not self.is_value_if(b[2]):
                    return False
            elif self.is_ctrl(b[2]):
                return False
        return True

    def is_ctrl(self, e):
        if e[0] in ("cast", "paren") and self.is_ctrl(e[1]):
            return True
        if e[0] == "mcall" and e[2] in ("extend", "extend_from_slice", "push", "for_each", "reserve", "resize", "copy_within", "copy_from_slice"):
            return True
        return e[0] in ("if", "match", "loop", "while", "for", "block", "return", "break", "continue", "assign") or \
            (e[0] == "macro") or \
            (e[0] == "call" and e[1][0] == "path" and e[1][1][0] == "BigEndian" and e[1][1][1].startswith("write_"))

    def cps(self, e, env, cx, k, want_type=None):
        kind = e[0]
        if kind == "paren" and self.is_ctrl(e[1]):
            return self.cps(e[1], env, cx, k, want_type)
        if kind == "cast" and self.is_ctrl(e[1]):
            def kc(env1, v, vty=None):
                env2 = dict(env1)
                env2["%cast"] = Var(v, vty or "u8")
                pre, t, ty = self.expr(("cast", ("var", "%cast"), e[2]), env2, cx)
                return wrap(pre, k(env1, t, ty))
            return self.cps(e[1], env, cx, kc, None)
        if kind == "block":
            outer = env

            def kb(env1, v, vty=None):
                # names declared in the block go out of scope; assignments to outer variables persist
                env2 = dict(env1)
                for n in list(env2):
                    if n not in outer:
                        del env2[n]
                    elif env2[n] is not outer[n] and env2[n].lean != outer[n].lean:
                        env2[n] = outer[n]
                return k(env2, v, vty) if vty is not None else k(env2, v)
            return self.stmts(e[1], e[2], env, cx, kb)
        if kind == "if":
            pc, c, _ = self.expr(e[1], env, cx)
            th = self.cps(e[2], env, cx, k, want_type)
            el = self.cps(e[3], env, cx, k, want_type) if e[3] is not None else k(env, "()")
            return wrap(pc, "(if %s then\n%s\nelse\n%s)" % (c, th, el))
        if kind == "match":
            return self.match(e, env, cx, k, want_type)
        if kind == "macro":
            return self.macro(e, env, cx, k)
        if kind == "return":
            if e[1] is None:
                return "Res.ok %s" % self.tr_pack(cx, env, "()")
            return self.ret_value(e[1], env, cx)
        if kind == "break":
            if cx.loop is None:
                raise Unsupported("break outside loop")
            return cx.loop["after"](env)
        if kind == "continue":
            if cx.loop is None:
                raise Unsupported("continue outside loop")
            return cx.loop["again"](env)
        if kind == "loop":
            return self.loop(e[1], None, env, cx, k)
        if kind == "while":
            return self.loop(e[2], e[1], env, cx, k)
        if kind == "for":
            return self.for_(e, env, cx, k)
        if kind == "assign":
            return self.assign(e, env, cx, k)
        if kind == "mcall" and e[2] in ("reserve", "resize", "copy_within", "extend_from_slice", "extend", "push") and self.vec_target(e[1], env) is not None \
                and (e[2] in ("reserve", "resize", "copy_within") or self.self_field_of(e[1]) is not None):
            v = self.vec_target(e[1], env)
            if e[2] == "reserve":
                pre, t, _ = self.expr(e[3][0], env, cx, "usize")
                return wrap(pre, k(env, "()"))
            if e[2] == "resize":
                pn, tn, _ = self.expr(e[3][0], env, cx, "usize")
                pv, tv, _ = self.expr(e[3][1], env, cx, "u8")
                return wrap(pn + pv, "(let %s := vecResize %s %s %s;\n%s)" % (v.lean, v.lean, tn, tv, k(env, "()")))
            if e[2] == "copy_within":
                rng = e[3][0]
                if rng[0] != "range" or rng[1] is None or rng[2] is None:
                    raise Unsupported("copy_within without a bounded range")
                pa, ta, _ = self.expr(rng[1], env, cx, "usize")
                pb, tb, _ = self.expr(rng[2], env, cx, "usize")
                pd, td, _ = self.expr(e[3][1], env, cx, "usize")
                return wrap(pa + pb + pd, "(copyWithin %s %s %s %s >>= fun %s =>\n%s)" % (v.lean, ta, tb, td, v.lean, k(env, "()")))
            pre, t, ty = self.expr(e[3][0], env, cx, "u8" if e[2] == "push" else None)
            add = "[UInt8.ofNat %s]" % t if e[2] == "push" else t
            return wrap(pre, "(let %s := %s ++ %s;\n%s)" % (v.lean, v.lean, add, k(env, "()")))
        if kind == "mcall" and e[2] == "copy_from_slice" and e[1][0] == "index" and e[1][2][0] == "range" \
                and e[1][2][1] is not None and e[1][2][2] is not None and self.vec_target(e[1][1], env) is not None:
            v = self.vec_target(e[1][1], env)
            pa, ta, _ = self.expr(e[1][2][1], env, cx, "usize")
            pb, tb, _ = self.expr(e[1][2][2], env, cx, "usize")
            ps, ts, _ = self.expr(e[3][0], env, cx)
            return wrap(pa + pb + ps, "(copyFromSlice %s %s %s %s >>= fun %s =>\n%s)" % (v.lean, ta, tb, ts, v.lean, k(env, "()")))
        if kind == "mcall" and e[2] in ("extend", "extend_from_slice", "push") and e[1][0] == "var" \
                and e[1][1] in env and env[e[1][1]].ty == "bytes":
            v = env[e[1][1]]
            pre, t, ty = self.expr(e[3][0], env, cx, "u8" if e[2] == "push" else None)
            add = "[UInt8.ofNat %s]" % t if e[2] == "push" else t
            return wrap(pre, "(let %s := %s ++ %s;\n%s)" % (v.lean, v.lean, add, k(env, "()")))
        if kind == "call" and e[1][0] == "path" and e[1][1][0] == "BigEndian" and e[1][1][1] in ("write_u16", "write_u32"):
            a = e[2][0]
            while a[0] in ("unary", "paren"):
                a = a[2] if a[0] == "unary" else a[1]
            if a[0] != "index" or a[2][0] != "range" or a[2][2] is not None:
                raise Unsupported("BigEndian::write target")
            fld = self.self_field_of(a[1])
            tgt = env["self." + fld] if fld else env.get(a[1][1]) if a[1][0] == "var" else None
            if tgt is None:
                raise Unsupported("BigEndian::write target")
            pi, ti, _ = self.expr(a[2][1], env, cx, "usize")
            w = "16" if e[1][1][1] == "write_u16" else "32"
            pv, tv, _ = self.expr(e[2][1], env, cx, "u" + w)
            return wrap(pi + pv, "(writeAt %s %s (put%s %s) >>= fun %s =>\n%s)" % (tgt.lean, ti, w, tv, tgt.lean, k(env, "()")))
        if kind == "mcall" and e[2] == "for_each" and e[1][0] == "mcall" and e[1][2] == "iter" and not e[1][3] \
                and len(e[3]) == 1 and e[3][0][0] == "closure" and len(e[3][0][1]) == 1 and e[3][0][1][0][0] == "pid":
            # `x.iter().for_each(|&c| body)`  is  `for &c in x { body; }`
            cl = e[3][0]
            body = cl[2] if cl[2][0] == "block" else ("block", [("expr", cl[2], True)], None)
            return self.for_(("for", cl[1][0], e[1][1], body), env, cx, k)
        if kind == "try" and e[1][0] == "mcall" and e[1][2] == "try_for_each" and len(e[1][3]) == 1 \
                and e[1][3][0][0] == "closure":
            # `(a..b).try_for_each(|_| f)?`  is  `for _ in a..b { f?; }`
            rng = e[1][1]
            while rng[0] == "paren":
                rng = rng[1]
            cl = e[1][3][0]
            if rng[0] == "range" and len(cl[1]) == 1 and cl[1][0][0] == "pwild":
                body = ("block", [("expr", ("try", cl[2]), True)], None)
                return self.for_(("for", ("pwild",), rng, body), env, cx, k)
        # plain expression
        pre, t, ty = self.expr(e, env, cx, want_type[0] if want_type else None)
        return wrap(pre, self.callk(k, env, t, ty))

    @staticmethod
    def callk(k, env, t, ty):
        import inspect
        try:
            n = len(inspect.signature(k).parameters)
        except (TypeError, ValueError):
            n = 3
        return k(env, t, ty) if n >= 3 else k(env, t)

    def tr_pack(self, cx, env, v):
        return self.pack(cx.fn, env, v)

    def ret_value(self, e, env, cx):
        """`return e` / the function's tail expression"""
        fn = cx.fn
        # Ok(x)
        if e[0] == "call" and e[1] == ("var", "Ok"):
            inner = e[2][0]
            if inner[0] == "unit":
                return "Res.ok %s" % self.pack(fn, env, "()")
            pre, t, _ = self.expr(inner, env, cx, norm_ty(fn["ret"]))
            return wrap(pre, "Res.ok %s" % self.pack(fn, self.env_after(pre, env), t))
        if self.is_ctrl(e):
            return self.cps(e, env, cx, lambda env1, v, vty=None: "Res.ok %s" % self.pack(fn, env1, v))
        pre, t, _ = self.expr(e, env, cx, norm_ty(fn["ret"]))
        return wrap(pre, "Res.ok %s" % self.pack(fn, env, t))

    def macro(self, e, env, cx, k):
        name, args = e[1], e[2]
        if name == "bail":
            a = args[0]
            if a[0] == "call":
                a = a[1]
            if a[0] != "path" or a[1][0] != "DSError":
                raise Unsupported("bail! with something other than a DSError")
            return "Res.err .%s" % camel(a[1][1])
        if name == "panic":
            return "Res.panic"
        if name in ("assert", "debug_assert"):
            pre, c, _ = self.expr(args[0], env, cx)
            return wrap(pre, "(assert %s >>= fun _ =>\n%s)" % (c, k(env, "()")))
        if name in ("assert_eq", "debug_assert_eq"):
            pa, ta, tya = self.expr(args[0], env, cx)
            pb, tb, _ = self.expr(args[1], env, cx, tya)
            return wrap(pa + pb, "(assert (%s == %s) >>= fun _ =>\n%s)" % (ta, tb, k(env, "()")))
        raise Unsupported("macro %s!" % name)

    def assign(self, e, env, cx, k):
        op, lhs, rhs = e[1], e[2], e[3]
        # the place written
        fld = self.self_field_of(lhs)
        if fld is not None:
            var = env["self." + fld]
        elif lhs[0] == "var" and lhs[1] in env and not env[lhs[1]].place:
            var = env[lhs[1]]
        elif lhs[0] == "unary" and lhs[1] == "*" and lhs[2][0] == "var" and env.get(lhs[2][1]) and env[lhs[2][1]].place:
            # `*p op= e` where `p = &mut bytes[i]` : read-modify-write of one byte
            place = env[lhs[2][1]].place
            bf = self.self_field_of(place[1])
            bvar = env["self." + bf] if bf else env[place[1][1]]
            pi, ti, _ = self.expr(place[2], env, cx, "usize")
            if op == "=":
                pv, tv, _ = self.expr(rhs, env, cx, "u8")
            else:
                pv, tv, _ = self.expr(("bin", op[:-1], ("unary", "*", lhs[2]), rhs), env, cx, "u8")
            return wrap(pi + pv, "(writeAt %s %s [UInt8.ofNat %s] >>= fun %s =>\n%s)" % (bvar.lean, ti, tv, bvar.lean, k(env, "()")))
        else:
            raise Unsupported("assignment target")
        if op == "=" and fld == "packet" and rhs[0] == "call" and rhs[1] == ("var", "Some"):
            rhs = rhs[2][0]
        if op == "=":
            pre, t, ty = self.expr(rhs, env, cx, var.ty if var.ty != "int" else None)
        else:
            pre, t, ty = self.expr(("bin", op[:-1], lhs, rhs), env, cx, var.ty if var.ty != "int" else None)
        if var.ty in ("int", "Option<?>") and ty not in ("int", "Option<?>"):
            self.refined[(cx.fn["name"], var.lean)] = ty
            env = dict(env)
            key = [n for n in env if env[n] is var][0]
            env[key] = Var(var.lean, ty, var.mut)
        return wrap(pre, "(let %s := %s;\n%s)" % (var.lean, t, k(env, "()")))

    def match(self, e, env, cx, k, want_type):
        scrut, arms = e[1], e[2]
        pre, t, ty = self.expr(scrut, env, cx)
        if ty.startswith("Option"):
            inner = ty[7:-1]
            out = []
            for pat, guard, body in arms:
                if guard is not None:
                    raise Unsupported("guard on an Option arm")
                if pat[0] == "ppath" and pat[1] == ["None"]:
                    out.append("| none =>\n%s" % self.cps(body, env, cx, k, want_type))
                elif pat[0] == "ppath" and pat[1] == ["Some"] and pat[2][0][0] == "pid":
                    env2, lean = cx.declare(env, pat[2][0][1], inner)
                    out.append("| some %s =>\n%s" % (lean, self.cps(body, env2, cx, k, want_type)))
                elif pat[0] == "pwild":
                    out.append("| _ =>\n%s" % self.cps(body, env, cx, k, want_type))
                else:
                    raise Unsupported("Option pattern")
            return wrap(pre, "(match %s with\n%s)" % (t, "\n".join(out)))
        if ty not in INTS and ty != "Section":
            raise Unsupported("match on %s" % ty)
        # integer scrutinee: arms are tried in order
        sv = cx.gensym("m")
        chain = None
        rendered = []
        for pat, guard, body in arms:
            env2 = env
            binds = ""
            if pat[0] == "pid":
                env2, lean = cx.declare(env, pat[1], ty)
                binds = lean
                cond = None
            elif pat[0] == "plit":
                cond = "(%s == %s)" % (sv, self.lit(pat[1]))
            elif pat[0] == "pwild":
                cond = None
            elif pat[0] == "ppath" and len(pat[1]) == 2 and pat[1][0] == "Section" and not pat[2]:
                cond = "(%s == Section.%s)" % (sv, camel(pat[1][1]))
            else:
                raise Unsupported("integer pattern")
            gpre, g = [], None
            if guard is not None:
                gpre, g, _ = self.expr(guard, env2, cx)
                if gpre:
                    raise Unsupported("fallible guard")
            rendered.append((binds, cond, g, self.cps(body, env2, cx, k, want_type)))
        # build from the last arm backwards
        for binds, cond, g, body in reversed(rendered):
            if binds:
                body = "(let %s := %s;\n%s)" % (binds, sv, body)
                g = "(let %s := %s;\n%s)" % (binds, sv, g) if g else None
            test = cond if g is None else g if cond is None else "(%s && %s)" % (cond, g)
            if test is None:
                chain = body
            else:
                if chain is None:
                    chain = "Res.panic"   # non-exhaustive: rustc would have rejected it
                chain = "(if %s then\n%s\nelse\n%s)" % (test, body, chain)
        return wrap(pre, "(let %s := %s;\n%s)" % (sv, t, chain))

    # ---- loops ----
    def assigned(self, e, acc):
        if isinstance(e, tuple):
            if e and e[0] == "assign":
                tgt = e[2]
                f = self.self_field_of(tgt)
                if f is not None:
                    acc.append("self." + f)
                elif tgt[0] == "var":
                    acc.append(tgt[1])
            if e and e[0] == "mcall" and e[2] in ("extend", "extend_from_slice", "push", "resize", "copy_within") and e[1][0] == "var":
                acc.append(e[1][1])
            if e and e[0] in ("mcall",) and e[1] == ("var", "self") and e[2] in self.fns:
                for f in self.fields(self.fns[e[2]], "writes"):
                    acc.append("self." + f)
            if e and e[0] == "mcall" and e[1] == ("var", "self") and e[2] in EXT_METHODS:
                for f in EXT_METHODS[e[2]]["writes"]:
                    acc.append("self." + f)
            if e and e[0] == "call" and e[1][0] == "path" and e[1][1][:2] == ["mem", "replace"]:
                tgt = e[2][0]
                while tgt[0] in ("unary", "paren"):
                    tgt = tgt[2] if tgt[0] == "unary" else tgt[1]
                f = self.self_field_of(tgt)
                if f:
                    acc.append("self." + f)
            for x in e:
                self.assigned(x, acc)
        elif isinstance(e, list):
            for x in e:
                self.assigned(x, acc)

    def loop(self, body, cond, env, cx, k):
        fn = cx.fn
        fuel = fn["cfg"].get("fuel")
        if not fuel:
            raise Unsupported("loop in a function without a configured fuel bound")
        acc = []
        self.assigned(body, acc)
        # loop state in the order of first assignment in the body (independent of the names and of the order
        # in which the locals were declared)
        carried = [n for n in dict.fromkeys(acc) if n in env]
        cx.nloops = getattr(cx, "nloops", 0) + 1
        name = "%s_loop" % fn["lean"] + ("" if cx.nloops == 1 else str(cx.nloops))
        outer = cx.loop
        holder = {}

        def again(env1):
            return "%s %s fuel %s" % (name, "FIXED", " ".join(env1[n].lean for n in carried))

        def after(env1):
            # leaving the loop: the code after it, in the scope of the loop function
            env2 = dict(env1)
            for n in list(env2):
                if n not in env:
                    del env2[n]
            return k(env2, "()")
        cx.loop = {"again": again, "after": after}
        if cond is not None:
            pc, c, _ = self.expr(cond, env, cx)
            inner = self.cps(body, env, cx, lambda env1, v, vty=None: again(env1))
            text = wrap(pc, "(if %s then\n%s\nelse\n%s)" % (c, inner, after(env)))
        else:
            text = self.cps(body, env, cx, lambda env1, v, vty=None: again(env1))
        cx.loop = outer
        fixed = [n for n in env if n not in carried and re.search(r"(?<![\w'.])%s(?![\w'])" % re.escape(env[n].lean), text)]
        fixed_args = " ".join(env[n].lean for n in fixed)
        text = text.replace("%s FIXED fuel" % name, ("%s %s fuel" % (name, fixed_args)).replace("  ", " "))
        sig = "def %s %s : Nat → %s → Res (%s)" % (
            name, " ".join("(%s : %s)" % (env[n].lean, lean_ty(env[n].ty)) for n in fixed),
            " → ".join(lean_ty(env[n].ty) for n in carried), self.ret_lean(fn))
        pats0 = ", ".join(["0"] + ["_"] * len(carried))
        pats1 = ", ".join(["fuel+1"] + [env[n].lean for n in carried])
        cx.aux.append("%s\n  | %s => .diverge\n  | %s =>\n%s" % (sig, pats0, pats1, text))
        return "%s %s (%s) %s" % (name, fixed_args, fuel, " ".join(env[n].lean for n in carried))

    def for_(self, e, env, cx, k):
        """`for _ in 0..n { body }` : recursion on the number of iterations left"""
        pat, it, body = e[1], e[2], e[3]
        if it[0] == "mcall" and it[2] == "zip" and it[1][0] == "mcall" and it[1][2] == "iter" and \
                it[3] and it[3][0][0] == "mcall" and it[3][0][2] == "iter" and pat[0] == "ptuple" and len(pat[1]) == 2:
            return self.for_zip(pat, it[1][1], it[3][0][1], body, env, cx, k)
        if it[0] == "mcall" and it[2] == "enumerate" and it[1][0] == "mcall" and it[1][2] == "iter" and \
                pat[0] == "ptuple" and len(pat[1]) == 2 and pat[1][0][0] == "pid" and pat[1][1][0] == "pid":
            return self.for_zip(("ptuple", [pat[1][1], None]), it[1][1], None, body, env, cx, k, index=pat[1][0][1])
        if pat[0] == "pid" and it[0] != "range":
            return self.for_zip(("ptuple", [pat, None]), it, None, body, env, cx, k)
        if pat[0] != "pwild" or it[0] != "range" or it[1] != ("num", 0, None) or it[2] is None:
            raise Unsupported("for loop other than `for _ in 0..n`")
        fn = cx.fn
        pn, tn, _ = self.expr(it[2], env, cx)
        acc = []
        self.assigned(body, acc)
        carried = [n for n in dict.fromkeys(acc) if n in env]
        cx.nloops = getattr(cx, "nloops", 0) + 1
        name = "%s_for%d" % (fn["lean"], cx.nloops)
        outer = cx.loop

        def again(env1):
            return "%s FIXED left %s" % (name, " ".join(env1[n].lean for n in carried))

        def after(env1):
            raise Unsupported("break inside a for loop")
        cx.loop = {"again": again, "after": after}
        text = self.cps(body, env, cx, lambda env1, v, vty=None: again(env1))
        cx.loop = outer
        done = k(env, "()")
        both = text + "\n" + done
        fixed = [n for n in env if n not in carried and re.search(r"(?<![\w'.])%s(?![\w'])" % re.escape(env[n].lean), both)]
        fixed_args = " ".join(env[n].lean for n in fixed)
        text = text.replace("%s FIXED left" % name, ("%s %s left" % (name, fixed_args)).replace("  ", " "))
        sig = "def %s %s : Nat → %s → Res (%s)" % (
            name, " ".join("(%s : %s)" % (env[n].lean, lean_ty(env[n].ty)) for n in fixed),
            " → ".join(lean_ty(env[n].ty) for n in carried), self.ret_lean(fn))
        pats = ", ".join(env[n].lean for n in carried)
        cx.aux.append("%s\n  | 0, %s =>\n%s\n  | left+1, %s =>\n%s" % (sig, pats, done, pats, text))
        return wrap(pn, "%s %s %s %s" % (name, fixed_args, tn, " ".join(env[n].lean for n in carried)))

    def escapes(self, e, top=True):
        """does the loop body leave the loop other than by falling through or failing (`return`, `break`, `continue`)?"""
        if isinstance(e, tuple):
            if e and e[0] == "return":
                return True
            if e and e[0] in ("break", "continue"):
                return top
            inner = top and not (e and e[0] in ("loop", "while", "for"))
            return any(self.escapes(x, inner) for x in e)
        if isinstance(e, list):
            return any(self.escapes(x, top) for x in e)
        return False

    def for_zip(self, pat, ea, eb, body, env, cx, k, index=None):
        """`for (&a, &b) in x.iter().zip(y.iter()) { body }` : recursion on the two byte lists"""
        fn = cx.fn
        single = eb is None
        pa, ta, tya = self.expr(ea, env, cx)
        pb, tb, tyb = ([], "", "bytes") if single else self.expr(eb, env, cx)
        if tya != "bytes" or tyb != "bytes" or pat[1][0][0] != "pid" or (not single and pat[1][1][0] != "pid"):
            raise Unsupported("loop over something other than byte slices")
        acc = []
        self.assigned(body, acc)
        carried = [n for n in dict.fromkeys(acc) if n in env]
        cx.nloops = getattr(cx, "nloops", 0) + 1
        name = "%s_%s%d" % (fn["lean"], "each" if single else "zip", cx.nloops)
        env2, la = cx.declare(env, pat[1][0][1], "u8")
        li = None
        if index is not None:
            env2, li = cx.declare(env2, index, "usize")
        lb = None
        if not single:
            env2, lb = cx.declare(env2, pat[1][1][1], "u8")
        outer = cx.loop

        def again(env1):
            return "%s FIXED rest_a%s%s %s" % (name, "" if single else " rest_b", " (%s + 1)" % li if li else "",
                                               " ".join(env1[n].lean for n in carried))

        def after(env1):
            raise Unsupported("break inside a slice loop")
        cx.loop = {"again": again, "after": after}
        text = self.cps(body, env2, cx, lambda env1, v, vty=None: again(env1))
        cx.loop = outer
        local = not self.escapes(body)
        if local:
            # the body only accumulates: the loop is a function from the state to the state, bound at the call site
            tup = "()" if not carried else env[carried[0]].lean if len(carried) == 1 else "(" + ", ".join(env[n].lean for n in carried) + ")"
            done = "Res.ok %s" % tup
        else:
            done = k(env, "()")
        both = text + "\n" + done
        fixed = [n for n in env if n not in carried and re.search(r"(?<![\w'.])%s(?![\w'])" % re.escape(env[n].lean), both)]
        fixed_args = " ".join(env[n].lean for n in fixed)
        text = text.replace("%s FIXED rest_a" % name, ("%s %s rest_a" % (name, fixed_args)).replace("  ", " "))
        if local:
            rty = "Unit" if not carried else " × ".join(lean_ty(env[n].ty) for n in carried)
            sig = "def %s %s : Bytes%s%s%s → Res (%s)" % (
                name, " ".join("(%s : %s)" % (env[n].lean, lean_ty(env[n].ty)) for n in fixed), "" if single else " → Bytes",
                " → Nat" if li else "", "".join(" → " + lean_ty(env[n].ty) for n in carried), rty)
            pats = (", " + li if li else "") + "".join(", " + env[n].lean for n in carried)
            if single:
                cx.aux.append("%s\n  | a_ :: rest_a%s =>\n(let %s := a_.toNat;\n%s)\n  | []%s =>\n%s" % (sig, pats, la, text, pats, done))
            else:
                cx.aux.append("%s\n  | a_ :: rest_a, b_ :: rest_b%s =>\n(let %s := a_.toNat;\n(let %s := b_.toNat;\n%s))\n  | _, _%s =>\n%s" % (
                    sig, pats, la, lb, text, pats, done))
            call = "%s %s %s %s %s %s" % (name, fixed_args, ta, tb, "0" if li else "", " ".join(env[n].lean for n in carried))
            return wrap(pa + pb, "(%s >>= fun %s =>\n%s)" % (call, tup if carried else "_", k(env, "()")))
        sig = "def %s %s : Bytes%s%s%s → Res (%s)" % (
            name, " ".join("(%s : %s)" % (env[n].lean, lean_ty(env[n].ty)) for n in fixed), "" if single else " → Bytes",
            " → Nat" if li else "", "".join(" → " + lean_ty(env[n].ty) for n in carried), self.ret_lean(fn))
        pats = (", " + li if li else "") + "".join(", " + env[n].lean for n in carried)
        if single:
            cx.aux.append("%s\n  | a_ :: rest_a%s =>\n(let %s := a_.toNat;\n%s)\n  | []%s =>\n%s" % (sig, pats, la, text, pats, done))
        else:
            cx.aux.append("%s\n  | a_ :: rest_a, b_ :: rest_b%s =>\n(let %s := a_.toNat;\n(let %s := b_.toNat;\n%s))\n  | _, _%s =>\n%s" % (
                sig, pats, la, lb, text, pats, done))
        return wrap(pa + pb, "%s %s %s %s %s %s" % (name, fixed_args, ta, tb, "0" if li else "", " ".join(env[n].lean for n in carried)))

    # ---- functions ----
    def function(self, fname):
        for _ in range(4):
            n = len(self.refined)
            out = self.function1(fname)
            if len(self.refined) == n:
                break
        if "UNRESOLVED_TYPE" in out:
            raise Unsupported("a local of %s has a type the translator cannot infer" % fname)
        return out

    def function1(self, fname):
        fn = self.fns[fname]
        cx = Ctx(self, fn, fn["cfg"])
        env = {}
        params = []
        for f in self.fields(fn, "reads"):
            lean, ty = self.self_fields[f]
            env["self." + f] = Var(lean, ty, True)
            cx.taken.add(lean)
            params.append("(%s : %s)" % (lean, lean_ty(ty)))
        for pn, pty, mut in fn["params"]:
            ty = norm_ty(pty)
            env, lean = cx.declare(env, pn, ty, mut)
            params.append("(%s : %s)" % (lean, lean_ty(ty)))
        body = fn["body"]
        stmts, tail = body[1], body[2]
        if tail is not None:
            text = self.stmts(stmts, None, env, cx, lambda env1, v, vty=None: self.ret_value_env(tail, env1, cx))
        else:
            text = self.stmts(stmts, None, env, cx, lambda env1, v, vty=None: "Res.ok %s" % self.pack(fn, env1, "()"))
        out = "\n\n".join(cx.aux)
        if out:
            out += "\n\n"
        out += "def %s %s : Res (%s) :=\n%s" % (fn["lean"], " ".join(params), self.ret_lean(fn), text)
        return out

    def ret_value_env(self, tail, env, cx):
        return self.ret_value(tail, env, cx)


# functions that are called by translated code but are themselves tied elsewhere: (Lean name, result type)
EXTERNAL = {}
# functions of another translated group, by Rust type name: name -> parsed fn (with its Lean name qualified)
XGROUP = {}
# methods of `self` that are not translated but modelled by hand: name -> {lean, reads, writes}
EXT_METHODS = {}
# struct values produced by functions of another translated group: field lists in the order of the struct literal there
XSTRUCT = {}


def proj(term, i, n):
    """the i-th component of a right-nested n-tuple"""
    return "%s%s%s" % (term, ".2" * i, "" if i == n - 1 else ".1")


def indent(text):
    """re-indent the generated term by parenthesis depth (cosmetic only)"""
    out, depth = [], 1
    for line in text.split("\n"):
        s = line.strip()
        if not s:
            continue
        lead = len(s) - len(s.lstrip(")"))
        d = max(depth - lead, 1)
        out.append("  " * d + s)
        depth += s.count("(") - s.count(")")
        depth = max(depth, 1)
    return "\n".join(out)


def render(defs_text):
    blocks = []
    for d in defs_text.split("\n\n"):
        lines = d.split("\n")
        # header lines: `def …` and the pattern lines of loop functions stay at fixed columns
        head, i = [], 0
        while i < len(lines) and (lines[i].startswith("def ") or lines[i].startswith("  | ")):
            head.append(lines[i])
            i += 1
            if head[-1].startswith("  | fuel+1") or head[-1].startswith("  | 0, ") or head[-1].startswith("  | a_ :: ") or (head[-1].startswith("def ") and head[-1].endswith(":=")):
                break
        blocks.append("\n".join(head) + "\n" + indent("\n".join(lines[i:])))
    return "\n\n".join(blocks)


# --------------------------------------------------------------------------------------------
# what is translated
# --------------------------------------------------------------------------------------------
NAME_FUEL = "DNS_MAX_HOSTNAME_INDIRECTIONS + DNS_MAX_HOSTNAME_LEN + 2"

GROUPS = {
    "Header": dict(
        self_fields={"packet": ("packet", "bytes"), "ext_flags": ("ext_flags", "Option<u16>")},
        fns=[dict(file="src/parsed_packet.rs", impl="ParsedPacket", fn=f) for f in
             ["tid", "set_tid", "flags", "set_flags", "dnssec", "is_response", "set_response", "rcode", "set_rcode",
              "opcode", "set_opcode"]],
    ),
    "Name": dict(
        self_fields={},
        fns=[dict(file="src/compress.rs", impl="Compress", fn="check_compressed_name", fuel=NAME_FUEL),
             dict(file="src/dns_sector.rs", impl="DNSSector", fn="check_uncompressed_name", fuel=NAME_FUEL)],
    ),
    "Reader": dict(
        self_fields={},
        fns=[dict(file="src/compress.rs", impl="Compress", fn="raw_name_len", fuel="name.length + 1"),
             dict(file="src/compress.rs", impl="Compress", fn="raw_name_len_after_decompression", fuel=NAME_FUEL),
             dict(file="src/compress.rs", impl="Compress", fn="copy_uncompressed_name", fuel=NAME_FUEL,
                  ret_lean="(Nat × Nat) × Bytes"),
             dict(file="src/compress.rs", impl="Compress", fn="raw_name_to_str", fuel=NAME_FUEL + " + 20"),
             dict(file="src/compress.rs", impl="SuffixDict", fn="raw_names_eq_ignore_case",
                  sig=(["&[u8]", "&[u8]"], "bool"))],
    ),
    "Counts": dict(
        self_fields={"packet": ("packet", "bytes"), "offset_question": ("offset_question", "Option<usize>"),
                     "offset_answers": ("offset_answers", "Option<usize>"),
                     "offset_nameservers": ("offset_nameservers", "Option<usize>"),
                     "offset_additional": ("offset_additional", "Option<usize>"),
                     "offset_edns": ("offset_edns", "Option<usize>"), "edns_count": ("edns_count", "u16"),
                     "ext_rcode": ("ext_rcode", "Option<u8>"), "edns_version": ("edns_version", "Option<u8>"),
                     "ext_flags": ("ext_flags", "Option<u16>"), "maybe_compressed": ("maybe_compressed", "bool"),
                     "max_payload": ("max_payload", "usize"), "cached": ("cached", "Option<cachedq>")},
        imports=["DnsModel.Mutate", "DnsModel.Generated.TrSector"],
        externals={"uncompress": ("uncompress", "bytes")},
        xstruct={"DNSSector": dict(ctors={"new": "Tr.Sector.new"},
                                   fields=["packet", "offset", "edns_start", "edns_end", "edns_count", "ext_rcode", "edns_version",
                                           "ext_flags", "max_payload"],
                                   types=["bytes", "usize", "Option<usize>", "Option<usize>", "u16", "Option<u8>", "Option<u8>",
                                          "Option<u16>", "usize"],
                                   methods={"parse": ("Tr.Sector.parse", "struct:ParsedPacket")}),
                 "ParsedPacket": dict(fields=["packet", "offset_question", "offset_answers", "offset_nameservers", "offset_additional",
                                              "offset_edns", "ext_rcode", "edns_version", "ext_flags", "edns_count", "maybe_compressed",
                                              "max_payload", "cached"],
                                      types=["Option<bytes>", "Option<usize>", "Option<usize>", "Option<usize>", "Option<usize>",
                                             "Option<usize>", "Option<u8>", "Option<u8>", "Option<u16>", "u16", "bool", "usize",
                                             "Option<cachedq>"],
                                      unwrap={"into_packet": "packet"})},
        fns=[dict(file="src/dns_sector.rs", impl="DNSSector", fn=f) for f in
             ["qdcount", "ancount", "nscount", "arcount", "set_qdcount", "set_ancount", "set_nscount", "set_arcount"]] +
            [dict(file="src/parsed_packet.rs", impl="ParsedPacket", fn=f) for f in
             ["rrcount_inc", "rrcount_dec", "insertion_offset", "recompute", "insert_rr"]],
    ),
    "Rename": dict(
        self_fields={},
        fns=[dict(file="src/renamer.rs", impl="Renamer", fn="replace_raw", fuel="name.length + 1")],
    ),
    "Text": dict(
        self_fields={},
        fns=[dict(file="src/synth/gen.rs", impl=None, fn="copy_raw_name_from_str")],
    ),
    "Sector": dict(
        self_fields={"packet": ("packet", "bytes"), "offset": ("offset", "usize"),
                     "edns_start": ("edns_start", "Option<usize>"), "edns_end": ("edns_end", "Option<usize>"),
                     "edns_count": ("edns_count", "u16"), "ext_rcode": ("ext_rcode", "Option<u8>"),
                     "edns_version": ("edns_version", "Option<u8>"), "ext_flags": ("ext_flags", "Option<u16>"),
                     "max_payload": ("max_payload", "usize")},
        imports=["DnsModel.Sector", "DnsModel.Generated.TrName"],
        externals={"check_compressed_name": ("Tr.Name.check_compressed_name", "usize"),
                   "check_uncompressed_name": ("Tr.Name.check_uncompressed_name", "usize")},
        fns=[dict(file="src/dns_sector.rs", impl="DNSSector", fn=f) for f in
             ["is_response", "qdcount", "ancount", "nscount", "arcount", "remaining_len", "ensure_remaining_len",
              "set_offset", "increment_offset", "u8_load", "be16_load", "rr_type", "rr_class", "rr_rdlen",
              "edns_remaining_len", "edns_ensure_remaining_len", "edns_increment_offset", "edns_be16_load",
              "edns_rr_rdlen"]] +
            [dict(file="src/dns_sector.rs", impl="DNSSector", fn="check_compressed_name", lean="check_compressed_name_at")] +
            [dict(file="src/dns_sector.rs", impl="DNSSector", fn=f) for f in
             ["skip_name", "ensure_in_class", "parse_question", "opt_rr_max_payload", "opt_rr_ext_rcode",
              "opt_rr_edns_version", "opt_rr_edns_ext_flags", "opt_rr_rdlen", "edns_skip_rr"]] +
            [dict(file="src/dns_sector.rs", impl="DNSSector", fn="new",
                  ret_lean="Bytes × Nat × Option Nat × Option Nat × Nat × Option Nat × Option Nat × Option Nat × Nat")] +
            [dict(file="src/dns_sector.rs", impl="DNSSector", fn="parse_opt",
                  fuel="edns_len / DNS_EDNS_RR_HEADER_SIZE + 2"),
             dict(file="src/dns_sector.rs", impl="DNSSector", fn="parse_rr"),
             dict(file="src/dns_sector.rs", impl="DNSSector", fn="parse",
                  ret_lean="Option Bytes × Option Nat × Option Nat × Option Nat × Option Nat × Option Nat × "
                           "Option Nat × Option Nat × Option Nat × Nat × Bool × Nat × Option Unit")],
    ),
}

PRELUDE = """-- GENERATED by rs2lean.py from /repo/%s — do not edit; rewritten on every run.
import DnsModel.Basic
import DnsModel.TrSupport
import DnsModel.Generated.Constants
%s
set_option linter.unusedVariables false
namespace Dns.Tr.%s
"""

SUPPORT = ""


def translate_group(gname):
    g = GROUPS[gname]
    tr = Translator(gname, g["self_fields"])
    EXTERNAL.clear()
    EXTERNAL.update(g.get("externals", {}))
    EXT_METHODS.clear()
    EXT_METHODS.update(g.get("ext_methods", {}))
    XSTRUCT.clear()
    XSTRUCT.update(g.get("xstruct", {}))
    for cfg in g["fns"]:
        tr.add(cfg)
    tr.analyse()
    defs = []
    for f in tr.order:
        fn = tr.fns[f]
        fn["lean"] = fn["cfg"].get("lean", f)
    for f in tr.order:
        defs.append(render(tr.function(f)))
    files = sorted({c["file"] for c in g["fns"]})
    return PRELUDE % (", ".join(files), "\n".join("import " + m for m in g.get("imports", [])), gname) + SUPPORT + "\n" + "\n\n".join(defs) + "\n\nend Dns.Tr.%s\n" % gname


def main():
    outdir = sys.argv[1] if len(sys.argv) > 1 else None
    only = sys.argv[2:] or list(GROUPS)
    rc = 0
    for g in only:
        try:
            text = translate_group(g)
        except (Unsupported, KeyError, IndexError) as ex:
            rc = 1
            text = ("-- GENERATED by rs2lean.py — the translator could not translate this group:\n"
                    "-- %s: %s\n" % (type(ex).__name__, str(ex).replace("\n", " ")) +
                    "namespace Dns.Tr.%s\ndef translationFailed : Unit := ()\nend Dns.Tr.%s\n" % (g, g))
            sys.stderr.write("rs2lean: group %s: %s: %s\n" % (g, type(ex).__name__, ex))
        if outdir:
            path = os.path.join(outdir, "Tr%s.lean" % g)
            try:
                same = open(path).read() == text
            except OSError:
                same = False
            if not same:
                with open(path, "w") as f:
                    f.write(text)
        else:
            sys.stdout.write(text)
    return rc


if __name__ == "__main__":
    sys.exit(main())
