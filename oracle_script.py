"""Oracles for operation scripts (C08, C09, C10, C11): judge the implementation's observed states
against the property statements using the reference decoder only."""
import re
import refdec
import refsynth


def _hex(x):
    return b"" if x == "-" else bytes.fromhex(x)


class LaxMsg:
    pass


def lax_decode(p):
    """like refdec.decode but accepts qdcount = 0; raises Undecodable"""
    p = bytes(p)
    if len(p) < 12:
        raise refdec.Undecodable("no header")
    qd = p[4] * 256 + p[5]
    if qd == 1:
        return refdec.decode(p)
    if qd != 0:
        raise refdec.Undecodable("qdcount %d" % qd)
    # splice a root question in, decode, and take it out again
    q = b"\x00\x00\x01\x00\x01"
    p2 = p[:4] + b"\x00\x01" + p[6:12] + q + p[12:]
    # pointers in a zero-question packet still refer to the original offsets: only pointer-free or
    # header-pointing names survive the splice unchanged; mutated packets are pointer-free by then
    m = refdec.decode(p2)
    m.header = p[:12]
    m.counts[0] = 0
    m.qname, m.qtype, m.qclass = None, None, None
    d = len(q)
    m.bounds = [b - d for b in m.bounds[1:]]
    for s in m.secs:
        for r in s:
            r.off -= d
            r.name_end -= d
            r.end -= d
    m.q_ptr = False
    m.noq = True
    return m


def ref_view(m):
    """the object's view as a fresh parse would compute it (max_payload excluded, see DESIGN §6 C08)"""
    noq = getattr(m, "noq", False)
    v = {"q": "-" if noq else "12"}
    for k, s in (("an", 0), ("ns", 1), ("ar", 2)):
        v[k] = str(m.secs[s][0].off) if m.secs[s] else "-"
    opt = [r for r in m.secs[2] if r.typ == 41]
    if opt:
        o = opt[0]
        v["edns"] = str(o.name_end + 10)
        n, i = 0, 0
        while i < len(o.rdata_raw):
            n += 1
            i += 4 + o.rdata_raw[i + 2] * 256 + o.rdata_raw[i + 3]
        v["cnt"] = str(n)
        v["rc"] = str(o.ttl >> 24)
        v["ver"] = str((o.ttl >> 16) & 255)
        v["fl"] = str(o.ttl & 0xFFFF)
    else:
        v.update({"edns": "-", "cnt": "0", "rc": "-", "ver": "-", "fl": "-"})
    return v


def parse_state(piece):
    """'<result> b=.. v=.. mc=.. c=.. k=..' -> dict; 'panic' -> None"""
    if piece.strip() == "panic" or " b=" not in piece:
        return None
    res, rest = piece.split(" ", 1)
    d = {"res": res}
    for tok in rest.split(" "):
        if "=" in tok:
            k, v = tok.split("=", 1)
            d[k] = v
    d["bytes"] = _hex(d["b"])
    d["view"] = dict(kv.split("=", 1) for kv in d["v"].split(","))
    return d


def split_ops(case):
    w = case.split(" ")
    init = w[1]
    ops, cur = [], []
    for t in w[2:]:
        if t == ";":
            if cur:
                ops.append(cur)
            cur = []
        else:
            cur.append(t)
    if cur:
        ops.append(cur)
    return init, ops


KF1 = "KF1"   # qdcount = 0
KF3 = "KF3"   # QR gating
KF4 = "KF4"   # text record inserted into the question section


def lax_wellformed(b):
    """(ok, reason, set of by-design waivers used)"""
    waivers = set()
    p = bytearray(b)
    if len(p) >= 12:
        qd = p[4] * 256 + p[5]
        an, ns = p[6] * 256 + p[7], p[8] * 256 + p[9]
        if not (p[2] & 0x80) and (an or ns):
            waivers.add(KF3)
            p[2] |= 0x80
        if qd == 0:
            waivers.add(KF1)
            p = p[:4] + b"\x00\x01" + p[6:12] + b"\x00\x00\x01\x00\x01" + p[12:]
            # a zero-question packet is checked with a root question spliced in; only valid when pointer-free
    ok, why = refdec.is_wellformed(bytes(p))
    return ok, why, waivers


def pointer_free(m):
    return not m.q_ptr and not any(r.ptr_in_names for s in m.secs for r in s)


def check_c08_state(st, sec_of_cursor):
    """C08 on one observed state; returns (reason|None, waivers)"""
    b = st["bytes"]
    ok, why, waivers = lax_wellformed(b)
    if not ok:
        return "the packet's bytes are not accepted by the parser: %s" % why, waivers
    try:
        m = lax_decode(b)
    except refdec.Undecodable as e:
        return "bytes undecodable: %s" % e, waivers
    rv = ref_view(m)
    for k, want in rv.items():
        if st["view"].get(k) != want:
            return "object says %s=%s, a fresh parse of its bytes says %s" % (k, st["view"].get(k), want), waivers
    if st["mc"] == "0" and not pointer_free(m):
        return "object claims its bytes are pointer-free but a name uses a compression pointer", waivers
    if st["c"] != "-":
        if getattr(m, "noq", False):
            return "cached question present although the packet has no question", waivers
        want = "%s/%d/%d" % (refdec.enc_name(m.qname).hex(), m.qtype, m.qclass)
        if st["c"] != want:
            return "cached question %s differs from the question in the bytes %s" % (st["c"], want), waivers
    k = st["k"]
    if k != "-" and sec_of_cursor is not None:
        off, nxt, ne = k.split("/")
        if off != "-":
            off, nxt, ne = int(off), int(nxt), int(ne)
            if sec_of_cursor == "Q":
                if getattr(m, "noq", False) or off != 12 or ne != m.q_name_end or nxt != m.q_name_end + 4:
                    return "question cursor (%s) does not designate the question" % k, waivers
            elif sec_of_cursor in "ANRO":
                s = {"A": 0, "N": 1, "R": 2, "O": 2}[sec_of_cursor]
                hit = [r for r in m.secs[s] if r.off == off]
                if not hit:
                    return "cursor offset %d is not the start of a record of its section" % off, waivers
                if hit[0].name_end != ne or hit[0].end != nxt:
                    return "cursor (%s) inconsistent with its record (name end %d, next %d)" % (k, hit[0].name_end, hit[0].end), waivers
    return None, waivers


def name_text(labels):
    return refdec.name_text_exact(labels).hex() or "-"


def header_apply(hdr, op):
    h = bytearray(hdr)
    W0 = h[2] * 256 + h[3]
    FM = 0x87F0
    arg = int(op[1])
    if op[0] == "settid":
        h[0], h[1] = (arg % 65536) >> 8, arg % 256
        return bytes(h)
    if op[0] == "setflags":
        nw = (W0 & ~FM & 0xFFFF) | (arg % 65536 & FM)
    elif op[0] == "setopcode":
        nw = (W0 - ((W0 // 2048) % 16) * 2048) + (arg % 16) * 2048
    elif op[0] == "setrcode":
        nw = W0 - W0 % 16 + arg % 16
    else:
        nw = W0 % 32768 + (32768 if arg else 0)
    h[2], h[3] = nw >> 8, nw & 255
    return bytes(h)


def rec_tuple(r, ci=False):
    return r.key(ci)


def msg_tuple(m, ci=False):
    f = (lambda n: tuple(l.lower() for l in n)) if ci else (lambda n: tuple(n))
    q = None if getattr(m, "noq", False) else (f(m.qname), m.qtype, m.qclass)
    return [bytes(m.header[:4]), list(m.counts), q, [[r.key(ci) for r in s] for s in m.secs]]


def rec_from_wire(w):
    """decode a standalone pointer-free record"""
    p = b"\x00\x00\x80\x00\x00\x01\x00\x01\x00\x00\x00\x00" + b"\x00\x00\x01\x00\x01" + w
    m = refdec.decode(p)
    return m.secs[0][0]


KF2 = "KF2"   # aliasing: a compressed name points into bytes an in-place setter rewrites
KF5 = "KF5"   # the OPT record itself mutated through the OPT-including walk
KF6 = "KF6"   # insert_rr() of a record built with RR::new whose type/data the validator does not admit


def plain_name_end(b, off, host_chars):
    """end of a pointer-free name at `off` of `b` (labels 1..63, total <= 255), or None"""
    total = 0
    while True:
        if off >= len(b):
            return None
        l = b[off]
        if l & 0xc0:
            return None
        total += l + 1
        if total > 255 or off + 1 + l > len(b):
            return None
        if host_chars and any(c < 32 or c == 127 or c == 46 or c == 92 for c in b[off + 1:off + 1 + l]):
            return None
        off += 1 + l
        if l == 0:
            return off


def raw_record_admissible(sec, typ, rd):
    """would the validator accept this record (built by RR::new, so pointer-free) in this section?"""
    if sec == "Q":
        return False
    if typ == 41:
        return False          # a second way of writing the OPT pseudo-record: the EDNS summary is not maintained (KF6)
    if typ == 1:
        return len(rd) == 4
    if typ == 28:
        return len(rd) == 16
    if typ in (2, 5, 12):
        return len(rd) > 0 and plain_name_end(rd, 0, True) == len(rd)
    if typ == 15:
        return len(rd) > 2 and plain_name_end(rd, 2, True) == len(rd)
    if typ == 6:
        e1 = plain_name_end(rd, 0, True) if len(rd) > 21 else None
        e2 = plain_name_end(rd, e1, True) if e1 is not None else None
        return e2 is not None and e2 + 20 == len(rd)
    if typ == 39:
        return len(rd) > 0 and plain_name_end(rd, 0, False) == len(rd)
    return True


def raw_record_wire(op):
    name = refsynth.name_wire(_hex(op[2]))
    rd = b"" if op[6] == "-" else _hex(op[6])
    return name + int(op[3]).to_bytes(2, "big") + int(op[4]).to_bytes(2, "big") + int(op[5]).to_bytes(4, "big") + len(rd).to_bytes(2, "big") + rd, rd


def name_positions(p, off):
    """byte positions visited when decoding the name at off"""
    seen = set()
    hops = 0
    while off < len(p) and hops < 300:
        b = p[off]
        if b & 0xC0 == 0xC0:
            seen.update((off, off + 1))
            if off + 1 >= len(p):
                break
            off = ((b & 0x3F) << 8) | p[off + 1]
            hops += 1
            continue
        seen.update(range(off, min(len(p), off + 1 + b)))
        if b == 0:
            break
        off += 1 + b
    return seen


def all_name_positions(p):
    try:
        m = lax_decode(p)
    except refdec.Undecodable:
        return set()
    pos = set()
    if not getattr(m, "noq", False):
        pos |= name_positions(p, 12)
    for s in m.secs:
        for r in s:
            pos |= name_positions(p, r.off)
            rs = r.name_end + 10
            if r.typ in (2, 5, 12):
                pos |= name_positions(p, rs)
            elif r.typ == 15:
                pos |= name_positions(p, rs + 2)
            elif r.typ == 6:
                pos |= name_positions(p, rs)
                try:
                    _, e1 = refdec.dec_name(p, rs)
                    pos |= name_positions(p, e1)
                except refdec.Undecodable:
                    pass
    return pos


def written_range(op, prev):
    """bytes an in-place setter writes"""
    if op[0] == "settid":
        return range(0, 2)
    if op[0] in ("setflags", "setopcode", "setrcode", "setresponse"):
        return range(2, 4)
    if op[0] in ("ttl", "ip") and prev and prev["k"] != "-" and prev["k"].split("/")[2] != "-":
        ne = int(prev["k"].split("/")[2])
        return range(ne + 4, ne + 8) if op[0] == "ttl" else range(ne + 10, ne + 26)
    return range(0)


def cursor_on_opt(prev, prev_bytes):
    if not prev or prev["k"] == "-" or prev["k"].split("/")[2] == "-":
        return False
    ne = int(prev["k"].split("/")[2])
    return ne + 2 <= len(prev_bytes) and prev_bytes[ne] * 256 + prev_bytes[ne + 1] == 41


def judge(case, a):
    """returns (failures, waived): failures = [(property, reason, step)], waived = by-design findings
    met in this script (judging stops at the first of them)"""
    init, ops = split_ops(case)
    fails = []
    waived = set()
    if a.startswith("noparse"):
        return fails, waived
    pieces = a.split(" ; ") if a else []
    before_bytes = None if init.startswith("empty:") else _hex(init)
    cursor_sec = None
    prev = None
    for i, op in enumerate(ops):
        if i >= len(pieces):
            break
        name = op[0]
        # ---- by-design findings: recognised from the operation and the state before it
        if before_bytes is not None and prev is not None:
            if name in ("setname", "ttl", "ip") and cursor_sec in ("O", "R") and cursor_on_opt(prev, before_bytes):
                if not (name == "setname" and _hex(op[1])[:1] == b"\x00"):
                    waived.add(KF5)
                    return fails, waived
        if before_bytes is not None and (prev is None or prev["mc"] == "1") and name in ("settid", "setflags", "setopcode", "setrcode", "setresponse", "ttl", "ip"):
            wr = written_range(op, prev)
            if len(wr) and all_name_positions(before_bytes) & set(wr):
                waived.add(KF2)
                return fails, waived
        if name == "insert" and op[1] == "Q":
            st = parse_state(pieces[i])
            if st is not None and st["res"] == "ok":
                waived.add(KF4)
                return fails, waived
        if name == "insertrr":
            st = parse_state(pieces[i])
            rd = b"" if op[6] == "-" else _hex(op[6])
            if st is not None and st["res"] == "ok" and not raw_record_admissible(op[1], int(op[3]), rd):
                waived.add(KF4 if op[1] == "Q" else KF6)
                return fails, waived
        st = parse_state(pieces[i])
        if st is None:
            fails.append(("C08,C09,C10,C11", "operation `%s` panicked" % " ".join(op)[:80], i))
            break
        res = st["res"]
        if name == "open":
            cursor_sec = op[1] if res == "some" else None
        elif name in ("next", "nextopt"):
            if res != "some":
                cursor_sec = None
        elif name in ("close", "insert", "insertq", "insertrr", "rename", "recompute"):
            cursor_sec = None
        reason, w = check_c08_state(st, cursor_sec)
        waived |= w
        if reason:
            fails.append(("C08,C10" if res.startswith("err:") else "C08", "after `%s` (%s): %s" % (" ".join(op)[:60], res, reason), i))
            break
        if before_bytes is not None:
            try:
                mb, ma = lax_decode(before_bytes), lax_decode(st["bytes"])
            except refdec.Undecodable:
                mb = ma = None
            if mb is not None:
                eff = check_effect(op, res, mb, ma, prev, st, before_bytes)
                if eff:
                    fails.append((eff[0], "`%s` (%s): %s" % (" ".join(op)[:60], res, eff[1]), i))
                    break
        if name in ("insert", "insertq", "insertrr") and res == "ok" and len(st["bytes"]) > 8192:
            fails.append(("C10", "insertion produced a packet of %d bytes (> 8192)" % len(st["bytes"]), i))
            break
        before_bytes = st["bytes"]
        prev = st
    return fails, waived


def cursor_record(m, st_prev, sec):
    """index of the record designated by the previous state's cursor"""
    k = st_prev["k"] if st_prev else "-"
    if k == "-" or k.split("/")[0] == "-":
        return None
    off = int(k.split("/")[0])
    if sec == "Q":
        return "Q"
    s = {"A": 0, "N": 1, "R": 2, "O": 2}.get(sec)
    if s is None:
        return None
    for j, r in enumerate(m.secs[s]):
        if r.off == off:
            return (s, j)
    return None


_cursor_sec_cache = {}


def check_effect(op, res, mb, ma, prev, st, before_bytes):
    """C09 (successful ops) / C10 (failed ops). prev = state before the op (None at the start)."""
    name = op[0]
    tb, ta = msg_tuple(mb), msg_tuple(ma)
    failed = res.startswith("err:")
    if failed:
        if tb != ta:
            return ("C10", "the call failed but the decoded message changed")
        return None
    if name in ("open", "next", "nextopt", "close", "name", "qcache", "recompute", "ituncompress") or res in ("nocursor",):
        if tb != ta:
            return ("C09", "a read-only / re-encoding operation changed the decoded message")
        return None
    if name in ("settid", "setflags", "setopcode", "setrcode", "setresponse"):
        exp = list(tb)
        exp[0] = header_apply(mb.header, op)[:4]
        if exp != ta:
            return ("C09", "header setter changed something other than its field (header %s -> %s)" % (mb.header[:4].hex(), ma.header[:4].hex()))
        return None
    if name in ("setname", "delete", "ttl", "ip"):
        # which record? the one under the cursor in the previous state
        sec = st.get("_sec")
        return None  # handled by check_targeted (needs the cursor section): see judge_targeted
    if name == "rename":
        # C07's rules, applied to the object before and after (C08 has been checked on the result)
        if rename_hook is not None and before_bytes is not None:
            r = rename_hook(before_bytes, op, res, st["bytes"])
            if r:
                return ("C07", r)
        return None
    if name == "insertrr":
        s = {"A": 0, "N": 1, "R": 2}[op[1]]
        wire, _ = raw_record_wire(op)
        r = rec_from_wire(wire)
        exp = [tb[0], list(tb[1]), tb[2], [list(x) for x in tb[3]]]
        exp[1][1 + s] += 1
        exp[3][s].append(r.key())
        if exp != ta:
            return ("C09", "insert_rr(RR::new(..)) did not append exactly the given record at the end of its section")
        return None
    if name in ("insert", "insertq"):
        s = {"Q": -1, "A": 0, "N": 1, "R": 2}[op[1]] if name == "insert" else -1
        if s == -1:
            if name == "insertq":
                nm = refsynth.name_wire(_hex(op[1]))
                exp = list(tb)
                exp[1] = list(exp[1])
                exp[1][0] += 1
                labels, _ = refdec.dec_name(nm, 0)
                exp[2] = (tuple(labels), int(op[2]), int(op[3]))
                if exp != ta:
                    return ("C09", "question insertion did not yield the given question and nothing else")
            return None
        try:
            wire = refsynth.synth(_hex(op[2]))
        except (refsynth.Outside, refsynth.Refused):
            return ("C13", "record text outside the grammar was accepted")
        r = rec_from_wire(wire)
        exp = [tb[0], list(tb[1]), tb[2], [list(x) for x in tb[3]]]
        exp[1][1 + s] += 1
        exp[3][s].append(r.key())
        if exp != ta:
            return ("C09", "insertion did not append exactly the given record at the end of its section")
        return None
    return None


rename_hook = None     # set by properties_cfg: (bytes before, op, result, bytes after) -> reason or None


def judge_full(case, a, keep_going=False):
    """judge() plus the targeted-record effects that need cursor tracking, and the C11 walk rules.
    keep_going: also run the targeted checks when judge() already found a failure (of another property:
    a stale cursor field is a C08 failure, what a later call through that cursor does to the message is C09's)"""
    fails, waived = judge(case, a)
    if (fails and not keep_going) or waived - {KF1, KF3} or a.startswith("noparse"):
        return fails, waived
    init, ops = split_ops(case)
    pieces = a.split(" ; ") if a else []
    states = [parse_state(x) for x in pieces]
    if any(s is None for s in states):
        return fails, waived
    cursor_sec = None
    prev_bytes = None if init.startswith("empty:") else _hex(init)
    prev_state = None
    deleted_names = set()
    yields_after = []
    survivors_expected = None
    for i, op in enumerate(ops):
        if i >= len(states):
            break
        st = states[i]
        res = st["res"]
        name = op[0]
        live_before = prev_state is not None and prev_state["k"] != "-" and prev_state["k"].split("/")[0] != "-"
        # refusals that have no ground: a valid record that fits is inserted; a name that is not longer than the one it
        # replaces is installed whatever the size of the packet
        if name == "insert" and res.startswith("err:") and prev_bytes is not None and not (waived - {KF1}):
            try:
                wire = refsynth.synth(_hex(op[2]))
                mb0 = refdec.decode(prev_bytes)
                plain = len(refdec.encode(mb0))
                s_idx = {"A": 0, "N": 1, "R": 2}[op[1]]
                if plain + len(wire) <= 8192 and mb0.counts[1 + s_idx] < 65535:
                    fails.append(("C09", "insertion of a valid record that fits (%d + %d bytes) was refused: %s" % (plain, len(wire), res), i))
                    return fails, waived
            except (refsynth.Outside, refsynth.Refused, refdec.Undecodable, KeyError, IndexError, ValueError):
                pass
        if name == "insertrr" and res.startswith("err:") and prev_bytes is not None and not (waived - {KF1}):
            try:
                wire, rd = raw_record_wire(op)
                mb0 = refdec.decode(prev_bytes)
                plain = len(refdec.encode(mb0))
                s_idx = {"A": 0, "N": 1, "R": 2}[op[1]]
                qr_ok = op[1] == "R" or (mb0.header[2] & 0x80)
                if raw_record_admissible(op[1], int(op[3]), rd) and plain + len(wire) <= 8192 and mb0.counts[1 + s_idx] < 65535 and qr_ok:
                    fails.append(("C09", "insert_rr of a valid record that fits (%d + %d bytes) was refused: %s" % (plain, len(wire), res), i))
                    return fails, waived
            except (refsynth.Outside, refsynth.Refused, refdec.Undecodable, KeyError, IndexError, ValueError):
                pass
        if name == "setname" and res == "err:PacketTooLarge" and prev_bytes is not None and cursor_sec in ("A", "N", "R", "O") and live_before:
            try:
                mb0 = lax_decode(prev_bytes)
                tgt0 = cursor_record(mb0, prev_state, cursor_sec)
                labels, _ = refdec.dec_name(_hex(op[1]), 0)
                if tgt0 not in (None, "Q"):
                    old = mb0.secs[tgt0[0]][tgt0[1]].name
                    if sum(len(l) + 1 for l in labels) <= sum(len(l) + 1 for l in old):
                        fails.append(("C09", "set-name to a name that is not longer than the current owner was refused as too large", i))
                        return fails, waived
            except (refdec.Undecodable, IndexError, ValueError):
                pass
        if name in ("setname", "delete", "ttl", "ip") and prev_bytes is not None and cursor_sec and not res.startswith("err:") and res != "nocursor":
            try:
                mb, ma = lax_decode(prev_bytes), lax_decode(st["bytes"])
            except refdec.Undecodable:
                mb = None
            if mb is not None and live_before:
                tgt = cursor_record(mb, prev_state, cursor_sec)
                r = targeted(op, mb, ma, tgt)
                if r:
                    fails.append(("C09", "`%s` (%s): %s" % (" ".join(op)[:60], res, r), i))
                    return fails, waived
        if name == "delete" and prev_state is not None:
            if live_before and cursor_sec and res.startswith("err:") and res != "err:PacketTooLarge":
                # the only legitimate refusal is a first-touch decompression that would exceed the size limit
                fails.append(("C11", "deleting the record the cursor designates failed with %s" % res[4:], i))
                return fails, waived
            if not live_before and prev_state["k"] != "-":
                # second delete through the same (tombstoned) cursor
                if res != "err:VoidRecord":
                    fails.append(("C11", "a second delete through the same cursor returned %s instead of a void-record error" % res, i))
                    return fails, waived
                if st["bytes"] != prev_state["bytes"]:
                    fails.append(("C11", "a second delete through the same cursor changed the packet", i))
                    return fails, waived
        if name == "setname" and res == "ok" and i + 1 < len(ops) and ops[i + 1][0] == "name" and i + 1 < len(states):
            # the cursor still designates the renamed record
            labels, _ = refdec.dec_name(_hex(op[1]), 0)
            want = "name:" + (refdec.name_text_exact(labels).hex() or "-")
            if states[i + 1]["res"] != want:
                fails.append(("C08", "after a successful set-name the cursor's name() is %s, expected %s" % (states[i + 1]["res"], want), i + 1))
                return fails, waived
        # cursor section tracking
        if name == "open":
            cursor_sec = op[1] if res == "some" else None
        elif name in ("next", "nextopt"):
            if res != "some":
                cursor_sec = None
            elif prev_state is not None and cursor_sec in ("A", "N", "R", "O") and live_before:
                # advancing yields the record that followed
                try:
                    m = lax_decode(st["bytes"])
                    s = {"A": 0, "N": 1, "R": 2, "O": 2}[cursor_sec]
                    prev_off = int(prev_state["k"].split("/")[0])
                    # the step taken decides whether OPT is skipped, not the way the cursor was opened
                    offs = [r.off for r in m.secs[s] if not (r.typ == 41 and name == "next")]
                    alloffs = [r.off for r in m.secs[s]]
                    cur_off = int(st["k"].split("/")[0])
                    if prev_off in alloffs:
                        later = [o for o in offs if o > prev_off]
                        if not later or later[0] != cur_off:
                            fails.append(("C08", "advancing the cursor from the record at %d landed on %d, the record that follows is at %s" % (prev_off, cur_off, later[:1]), i))
                            return fails, waived
                except (refdec.Undecodable, ValueError):
                    pass
        elif name in ("close", "insert", "insertq", "insertrr", "rename", "recompute"):
            cursor_sec = None
        prev_bytes = st["bytes"]
        prev_state = st
    return fails, waived


def targeted(op, mb, ma, tgt):
    name = op[0]
    tb, ta = msg_tuple(mb), msg_tuple(ma)
    if tgt is None:
        return None
    exp = [tb[0], list(tb[1]), tb[2], [list(x) for x in tb[3]]]
    if tgt == "Q":
        if name == "setname":
            labels, _ = refdec.dec_name(_hex(op[1]), 0)
            exp[2] = (tuple(labels), tb[2][1], tb[2][2])
        elif name == "delete":
            exp[2] = None
            exp[1][0] -= 1
        else:
            return None
    else:
        s, j = tgt
        r = list(exp[3][s][j])
        if name == "setname":
            labels, _ = refdec.dec_name(_hex(op[1]), 0)
            r[0] = tuple(labels)
            exp[3][s][j] = tuple(r)
        elif name == "delete":
            del exp[3][s][j]
            exp[1][1 + s] -= 1
        elif name == "ttl":
            r[3] = int(op[1]) % 4294967296
            exp[3][s][j] = tuple(r)
        elif name == "ip":
            r[4] = ("raw", _hex(op[1]))
            exp[3][s][j] = tuple(r)
    if exp != ta:
        return "the decoded message after the call is not the message before with exactly this change"
    return None


def walk_rules(case, a):
    """C11 on deletion walks (one `open` per walked section; sections may follow each other in any order):
    names are distinct per record (r0, r1, …)"""
    init, ops = split_ops(case)
    pieces = a.split(" ; ") if a else []
    states = [parse_state(x) for x in pieces]
    if len(states) < len(ops):
        return "the walk did not run to completion (%s)" % (pieces[-1][:40] if pieces else "no output")
    if any(s is None for s in states):
        return "the walk panicked"
    if init.startswith("empty"):
        return None      # built from nothing: judged step by step only
    m0 = refdec.decode(_hex(init))
    SEC = {"A": 0, "N": 1, "R": 2, "O": 2, "Q": -1}

    def recname(r):
        return refdec.name_text_exact(r.name).hex() or "-"

    def content(m, s, with_opt, first):
        if s >= 0:
            return [recname(r) for r in m.secs[s] if with_opt or r.typ != 41]
        if not first and getattr(m, "noq", False):
            return []
        return [refdec.name_text_exact(m.qname).hex()]
    walked = []           # sections in the order they were opened
    deleted = {}          # section letter -> names deleted
    yielded = {}
    sec = None
    current = None
    for i, op in enumerate(ops):
        st = states[i]
        if op[0] == "open":
            sec = op[1]
            if sec not in walked:
                walked.append(sec)
                deleted[sec] = []
                yielded[sec] = []
            current = None
        elif sec is None:
            continue
        elif op[0] == "name" and st["res"].startswith("name:"):
            current = st["res"][5:] or "-"
            yielded[sec].append(current)
            if current in deleted[sec]:
                return "record %s was yielded again after it had been deleted" % bytes.fromhex(current).decode("latin1")
        elif op[0] == "delete" and st["res"] == "ok":
            if current is None:
                return "delete succeeded without a designated record"
            deleted[sec].append(current)
            current = None
    mf = lax_decode(states[-1]["bytes"])
    for sec in walked:
        s = SEC[sec]
        with_opt = sec == "O"      # the OPT-including walk: the OPT pseudo-record (root name) is an ordinary element
        gone = deleted[sec] + (deleted.get("O", []) if sec == "R" else []) + (deleted.get("R", []) if sec == "O" else [])
        original = content(m0, s, with_opt, True)
        survivors = [n for n in original if n not in gone]
        final = content(mf, s, with_opt, False)
        if final != survivors:
            return "section %s holds %s after the walk, the survivors in order are %s" % (sec, final, survivors)
        for n in survivors:
            if len(original) > 1000:
                break      # sections of tens of thousands of records are not walked to the end
            if n not in yielded[sec]:
                return "surviving record %s was never yielded" % bytes.fromhex(n).decode("latin1")
        cnt = mf.counts[1 + s] if s >= 0 else mf.counts[0]
        total = len(mf.secs[s]) if s >= 0 else (0 if getattr(mf, "noq", False) else 1)
        if cnt != total:
            return "count %d does not match the %d records present" % (cnt, total)
        key = {"A": "an", "N": "ns", "R": "ar", "O": "ar", "Q": "q"}[sec]
        if total == 0 and states[-1]["view"].get(key) != "-":
            return "the emptied section does not read as absent"
        if sec == "Q" and total == 0 and states[-1]["c"] != "-":
            return "the question was deleted but the question accessors still report it (cached %s)" % states[-1]["c"][:60]
    # sections that were not walked keep their records
    for sec, s in (("A", 0), ("N", 1), ("R", 2)):
        if sec in walked or (sec == "R" and "O" in walked):
            continue
        if content(mf, s, True, False) != content(m0, s, True, True):
            return "section %s was not walked but its records changed" % sec
    return None
