"""Per-property configuration: theorem obligations, case families, oracle (DESIGN.md §6)."""
import re
import refdec


def outcome(s):
    return s.split(" ")[0] if s else ""


def bad_outcome(a):
    return outcome(a) in ("panic", "hang", "abort", "diverge", "ok-but-bytes-changed")


# ---------------------------------------------------------------------------------------------
# oracles: (case line, I's output, M's output) -> None | reason.  They judge I's behaviour against
# the property statement S, not against M (exception: C02, where the proved equivalence makes M's
# verdict the executable form of S).

def oracle_c01(c, a, b):
    # every public entry point given arbitrary bytes returns ok/err; parse hands the bytes back unchanged
    for tok in a.split(" "):
        if tok.split(":")[0] in ("panic", "hang", "abort", "ok-but-bytes-changed"):
            return "untrusted input made the call %s" % tok
    if outcome(a) in ("hang", "abort", "panic"):
        return "untrusted input made the call %s" % outcome(a)
    return None


def oracle_c02(c, a, b):
    if bad_outcome(a):
        return "parse did not return: %s" % outcome(a)
    va, vb = outcome(a), outcome(b)
    if vb in ("ok", "err") and va != vb:
        if va == "ok":
            return "accepted a packet that is not well-formed under the policy (model verdict: %s)" % b
        return "rejected a well-formed packet (%s)" % a
    return None


def kv(out):
    d = {}
    for tok in out.split(" "):
        if "=" in tok:
            k, v = tok.split("=", 1)
            d[k] = v
    return d


def oracle_c12(c, a, b):
    """frame condition of the header setters, by RFC 1035 field positions (div/mod), on I's 12 bytes"""
    if outcome(a) != "ok":
        return "header setter did not return normally: %s" % a[:60]
    w = c.split(" ")
    if w[0] != "hdr":
        return None
    before = bytes.fromhex(w[1])[:12]
    ext = None if w[2] == "-" else int(w[2])
    setter, arg = w[3], int(w[4])
    toks = a.split(" ")
    after = bytes.fromhex(toks[1])
    g = kv(a)
    W0 = before[2] * 256 + before[3]
    W1 = after[2] * 256 + after[3]
    exp = bytearray(before)
    FLAGMASK = 0x8000 | 0x0400 | 0x0200 | 0x0100 | 0x0080 | 0x0040 | 0x0020 | 0x0010
    if setter == "settid":
        exp[0], exp[1] = (arg % 65536) // 256, arg % 256
    elif setter == "setflags":
        nw = (W0 & ~FLAGMASK & 0xffff) | (arg % 65536 & FLAGMASK)
        exp[2], exp[3] = nw // 256, nw % 256
    elif setter == "setopcode":
        nw = (W0 - ((W0 // 2048) % 16) * 2048) + (arg % 16) * 2048
        exp[2], exp[3] = nw // 256, nw % 256
    elif setter == "setrcode":
        nw = W0 - W0 % 16 + arg % 16
        exp[2], exp[3] = nw // 256, nw % 256
    elif setter == "setresponse":
        nw = W0 % 32768 + (32768 if arg else 0)
        exp[2], exp[3] = nw // 256, nw % 256
    if bytes(exp) != after:
        return "%s(%d) on flag word 0x%04x gave header %s, expected %s" % (setter, arg, W0, after.hex(), bytes(exp).hex())
    qr = W1 // 32768
    fl = ((ext or 0) << 16) | (W1 & FLAGMASK)
    sec = ((fl >> 31) & 1) if qr == 0 else ((W1 // 32) % 2)
    want = {"tid": after[0] * 256 + after[1], "op": (W1 // 2048) % 16, "rc": W1 % 16, "qr": qr, "fl": fl, "sec": sec}
    for k, v in want.items():
        if g.get(k) != str(v):
            return "getter %s returned %s, bytes say %d" % (k, g.get(k), v)
    return None


def first_diff(x, y):
    tx, ty = re.split(r"[ ;]", x), re.split(r"[ ;]", y)
    for u, v in zip(tx, ty):
        if u != v:
            return "got %s, bytes say %s" % (u[:120], v[:120])
    return "got %d items, bytes say %d" % (len(tx), len(ty))


def oracle_c03(c, a, b):
    """every walk visits exactly the records present, each accessor returns the RFC 1035 value"""
    w = c.split(" ")
    if w[0] != "iter":
        return None
    if a.startswith("noparse"):
        return None  # not an accepted packet: outside the property's quantifier
    if "panic" in a or outcome(a) in ("hang", "abort"):
        return "an iterator or accessor panicked on an accepted packet"
    try:
        want = refdec.expected_iter_dump(bytes.fromhex(w[1]))
    except refdec.Undecodable as e:
        return "accepted packet is not decodable per RFC 1035: %s" % e
    if a != want:
        return "walk/accessor mismatch: " + first_diff(a, want)
    return None


def oracle_c04(c, a, b):
    w = c.split(" ")
    if w[0] != "summary":
        return None
    if a.startswith("noparse"):
        return None
    if "panic" in a or outcome(a) in ("hang", "abort"):
        return "a summary getter panicked on an accepted packet"
    try:
        want = refdec.expected_summary(bytes.fromhex(w[1]))
    except refdec.Undecodable as e:
        return "accepted packet is not decodable per RFC 1035: %s" % e
    if a != want:
        return "summary mismatch: " + first_diff(a, want)
    return None


def nontrivial_accepted(c, a):
    return not a.startswith("noparse")


def match_known(known, prop, c, a, b, reason):
    """a failing case is suppressed only if a listed finding's selector holds for it"""
    for k in known:
        sel = SELECTORS.get(k["selector"])
        if sel and sel(c, a, b, reason):
            return k
    return None


SELECTORS = {}


def nontrivial_parse(c, a):
    # got past the header checks: not a too-small packet / question-count rejection
    w = c.split(" ")
    if w[0] != "parse":
        return not a.startswith("err InternalError")
    return len(w[1]) > 24 and w[1][8:12] == "0001"


PROPS = {
    "C01": {
        "module": "DnsModel.Theorems.C01",
        "theorems": ["Dns.C01.parse_total", "Dns.C01.checkCompressedName_total", "Dns.C01.checkUncompressedName_total",
                     "Dns.C01.checkCompressedName_in_bounds", "Dns.C01.cursor_total"],
        "families": [
            {"name": "boundary-parse", "quick": 0, "thorough": 0, "fixed": True},
            {"name": "parse", "quick": 6000, "thorough": 300000},
            {"name": "names", "quick": 4000, "thorough": 200000},
        ],
        "oracle": oracle_c01,
        "nontrivial": nontrivial_parse,
        "rule": "structured (five layouts) 60% / single-point damaged 35% / arbitrary 5% packets, name-checker and cursor scripts; "
                "non-trivial = distinct case lines that get past the header checks (parse) or do not die on the first bounds check (walkers)",
        "level": "proof",
        "explanation": "theorems: parse/checkCompressedName/checkUncompressedName/cursor scripts return Ok or Err for every input (no panic, no fuel exhaustion) on the model; "
                       "correspondence: real parse()/checkers/cursor primitives agree with the model on every generated case, panics caught per case, hangs by watchdog",
        "assumptions": ["termination of the real loops is inferred from the model's termination proof plus agreement of outcomes and of the step counter (C18), not proved of the Rust code",
                        "absence of recursion in the validator (iterative loops), safe-Rust bounds checks"],
    },
    "C03": {
        "module": "DnsModel.Theorems.C03",
        "theorems": [],
        "families": [{"name": "iter", "quick": 3000, "thorough": 150000}],
        "oracle": oracle_c03,
        "nontrivial": nontrivial_accepted,
        "rule": "accepted packets from the structured stream (all record shapes, 4 layouts incl. chained pointers and pointers into rdata names, OPT absent/first/middle/last); "
                "each case runs the six walks and every accessor on every record; non-trivial = distinct accepted packets",
        "level": "other",
        "explanation": "",
        "assumptions": [],
    },
    "C04": {
        "module": "DnsModel.Theorems.C04",
        "theorems": [],
        "families": [{"name": "summary", "quick": 3000, "thorough": 100000}],
        "oracle": oracle_c04,
        "nontrivial": nontrivial_accepted,
        "rule": "accepted packets with random flag words, OPT present/absent with random version/flags/rcode/payload, question names through pointers incl. into the header; every getter, question getters twice (cold/warm cache)",
        "level": "other",
        "explanation": "",
        "assumptions": [],
    },
    "C12": {
        "module": "DnsModel.Theorems.C12",
        "theorems": [],
        "families": [
            {"name": "hdr-quick", "quick": 0, "thorough": 0, "fixed": True, "only": "quick"},
            {"name": "hdr-full", "quick": 0, "thorough": 0, "fixed": True, "only": "thorough"},
        ],
        "oracle": oracle_c12,
        "nontrivial": lambda c, a: True,
        "rule": "flag words x setter arguments: quick = 1024 words incl. all single-bit words and mask constants x (6 fixed + 11 single-bit + 1 random) set_flags arguments, "
                "8 opcode / 8 rcode arguments, both response values, a random tid; thorough = all 65536 words x (6 fixed + all 32 single-bit + 8 random) arguments; every case is distinct",
        "level": "proof",
        "shrink": False,
        "explanation": "",
        "assumptions": [],
    },
    "C02": {
        "module": "DnsModel.Theorems.C02",
        "theorems": [],
        "families": [
            {"name": "boundary-parse", "quick": 0, "thorough": 0, "fixed": True},
            {"name": "parse", "quick": 8000, "thorough": 400000},
        ],
        "oracle": oracle_c02,
        "nontrivial": nontrivial_parse,
        "rule": "as C01's parse stream; verdicts compared in both directions; non-trivial = distinct packets past the header checks",
        "level": "proof",
        "explanation": "",
        "assumptions": [],
    },
}
