"""Per-property configuration: theorem obligations, case families, oracle (DESIGN.md §6)."""
import re
import refdec
import oracle_script
import refsynth


def outcome(s):
    return s.split(" ")[0] if s else ""


def bad_outcome(a):
    return outcome(a) in ("panic", "hang", "abort", "diverge", "ok-but-bytes-changed")


# ---------------------------------------------------------------------------------------------
# oracles: (case line, I's output, M's output) -> None | reason.  They judge I's behaviour against
# the property statement S, not against M (exception: C02, where the proved equivalence makes M's
# verdict the executable form of S).

def oracle_c01(c, a, b):
    # every public entry point given arbitrary bytes returns ok/err; parse hands the bytes back unchanged
    for tok in a.split(" "):
        if tok.split(":")[0] in ("panic", "hang", "abort", "ok-but-bytes-changed"):
            return "untrusted input made the call %s" % tok
    if outcome(a) in ("hang", "abort", "panic"):
        return "untrusted input made the call %s" % outcome(a)
    return None


def oracle_c02(c, a, b):
    """both directions against the independent executable statement of the policy (refdec.wellformed)"""
    w = c.split(" ")
    if w[0] == "checkc":
        if bad_outcome(a):
            return "name check did not return: %s" % outcome(a)
        p = b"" if w[1] == "-" else bytes.fromhex(w[1])
        try:
            e = refdec.wf_name(p, int(w[2]))
            if a != "ok %d" % e:
                return "a well-formed name was not accepted as such (%s, expected end %d)" % (a, e)
        except refdec.IllFormed as ex:
            if outcome(a) == "ok":
                return "accepted a name that is not well-formed under the policy: %s" % ex
        except IndexError:
            if outcome(a) == "ok":
                return "accepted a name that reads outside the buffer"
        return None
    if w[0] == "cursor" and " parse=" in a:
        # the verdict of parse() does not depend on where earlier cursor calls left the sector's cursor
        verdict = a.split(" parse=")[1]
        ok, why = refdec.is_wellformed(b"" if w[1] == "-" else bytes.fromhex(w[1]))
        if ok and not verdict.startswith("ok:"):
            return "a well-formed packet was turned away by parse() after cursor calls (%s)" % verdict[:60]
        if not ok and verdict.startswith("ok"):
            return "parse() after cursor calls accepted a packet that is not well-formed: %s" % why
        return None
    if w[0] != "parse":
        return None
    if bad_outcome(a):
        return "parse did not return: %s" % outcome(a)
    ok, why = refdec.is_wellformed(b"" if w[1] == "-" else bytes.fromhex(w[1]))
    if outcome(a) == "ok" and not ok:
        return "accepted a packet that is not well-formed under the policy: %s" % why
    if outcome(a) == "err" and ok:
        return "rejected a well-formed packet (%s)" % a
    return None


def kv(out):
    d = {}
    for tok in out.split(" "):
        if "=" in tok:
            k, v = tok.split("=", 1)
            d[k] = v
    return d


def oracle_c12(c, a, b):
    """frame condition of the header setters, by RFC 1035 field positions (div/mod), on I's 12 bytes"""
    if outcome(a) != "ok":
        return "header setter did not return normally: %s" % a[:60]
    w = c.split(" ")
    if w[0] != "hdr":
        return None
    before = bytes.fromhex(w[1])[:12]
    ext = None if w[2] == "-" else int(w[2])
    setter, arg = w[3], int(w[4])
    toks = a.split(" ")
    after = bytes.fromhex(toks[1])
    g = kv(a)
    W0 = before[2] * 256 + before[3]
    W1 = after[2] * 256 + after[3]
    exp = bytearray(before)
    FLAGMASK = 0x8000 | 0x0400 | 0x0200 | 0x0100 | 0x0080 | 0x0040 | 0x0020 | 0x0010
    if setter == "settid":
        exp[0], exp[1] = (arg % 65536) // 256, arg % 256
    elif setter == "setflags":
        nw = (W0 & ~FLAGMASK & 0xffff) | (arg % 65536 & FLAGMASK)
        exp[2], exp[3] = nw // 256, nw % 256
    elif setter == "setopcode":
        nw = (W0 - ((W0 // 2048) % 16) * 2048) + (arg % 16) * 2048
        exp[2], exp[3] = nw // 256, nw % 256
    elif setter == "setrcode":
        nw = W0 - W0 % 16 + arg % 16
        exp[2], exp[3] = nw // 256, nw % 256
    elif setter == "setresponse":
        nw = W0 % 32768 + (32768 if arg else 0)
        exp[2], exp[3] = nw // 256, nw % 256
    if bytes(exp) != after:
        return "%s(%d) on flag word 0x%04x gave header %s, expected %s" % (setter, arg, W0, after.hex(), bytes(exp).hex())
    qr = W1 // 32768
    fl = ((ext or 0) << 16) | (W1 & FLAGMASK)
    sec = ((fl >> 31) & 1) if qr == 0 else ((W1 // 32) % 2)
    want = {"tid": after[0] * 256 + after[1], "op": (W1 // 2048) % 16, "rc": W1 % 16, "qr": qr, "fl": fl, "sec": sec}
    for k, v in want.items():
        if g.get(k) != str(v):
            return "getter %s returned %s, bytes say %d" % (k, g.get(k), v)
    return None


def first_diff(x, y):
    tx, ty = re.split(r"[ ;]", x), re.split(r"[ ;]", y)
    for u, v in zip(tx, ty):
        if u != v:
            return "got %s, bytes say %s" % (u[:120], v[:120])
    return "got %d items, bytes say %d" % (len(tx), len(ty))


def oracle_c03(c, a, b):
    """every walk visits exactly the records present, each accessor returns the RFC 1035 value"""
    w = c.split(" ")
    if w[0] != "iter":
        return None
    if a.startswith("noparse"):
        return None  # not an accepted packet: outside the property's quantifier
    if "RAWNAME-CONTRACT-BROKEN" in a:
        return "copy_raw_name did not append exactly the name to the caller's vector / return the name's length: %s" % a[a.index("RAWNAME-CONTRACT-BROKEN"):][:60]
    if "panic" in a or outcome(a) in ("hang", "abort"):
        return "an iterator or accessor panicked on an accepted packet"
    try:
        want = refdec.expected_iter_dump(bytes.fromhex(w[1]))
    except refdec.Undecodable as e:
        return "accepted packet is not decodable per RFC 1035: %s" % e
    if a != want:
        return "walk/accessor mismatch: " + first_diff(a, want)
    return None


def oracle_c04(c, a, b):
    w = c.split(" ")
    if w[0] != "summary":
        return None
    if a.startswith("noparse"):
        return None
    if "panic" in a or outcome(a) in ("hang", "abort"):
        return "a summary getter panicked on an accepted packet"
    try:
        want = refdec.expected_summary(bytes.fromhex(w[1]))
    except refdec.Undecodable as e:
        return "accepted packet is not decodable per RFC 1035: %s" % e
    if a != want:
        return "summary mismatch: " + first_diff(a, want)
    return None


def _hex(x):
    return b"" if x == "-" else bytes.fromhex(x)


def oracle_c05(c, a, b):
    w = c.split(" ")
    if w[0] != "uncompress":
        return None
    p = _hex(w[1])
    ok_in, _ = refdec.is_wellformed(p)
    if not ok_in:
        return None  # outside the quantifier
    if outcome(a) != "ok":
        return "decompression of an accepted packet did not succeed: %s" % a[:60]
    t = a.split(" ")
    u = _hex(t[1])
    ok_out, why = refdec.is_wellformed(u)
    if not ok_out:
        return "decompressed packet is not accepted: %s" % why
    mi, mo = refdec.decode(p), refdec.decode(u)
    if refdec.msg_key(mi) != refdec.msg_key(mo):
        return "decompression changed the message"
    if u != refdec.encode(mi):
        return "output is not the pointer-free encoding of the message (a name still uses a pointer, or bytes differ)"
    if w[2] == "-":
        if "idem=1" not in a:
            return "a second decompression changed the packet (%s)" % t[-1]
    else:
        ro = int(w[2])
        if ro not in mi.bounds:
            return None
        k = mi.bounds.index(ro) if ro != len(p) else len(mi.bounds) - 1
        if int(t[2]) != mo.bounds[k]:
            return "boundary %d of the input (record #%d) was translated to %s, the same boundary in the output is %d" % (ro, k, t[2], mo.bounds[k])
    return None


def ptr_free_names(m):
    return not m.q_ptr and not any(r.ptr_in_names for s in m.secs for r in s)


def oracle_c06(c, a, b):
    w = c.split(" ")
    if w[0] != "compress":
        return None
    p = _hex(w[1])
    ok_in, _ = refdec.is_wellformed(p)
    if not ok_in:
        return None
    mi = refdec.decode(p)
    if not ptr_free_names(mi):
        return None
    if outcome(a) != "ok":
        return "compression of an accepted pointer-free packet did not succeed: %s" % a[:60]
    o = _hex(a.split(" ")[1])
    ok_out, why = refdec.is_wellformed(o)
    if not ok_out:
        return "compressed packet is not accepted: %s" % why
    if len(o) > len(p):
        return "compression grew the packet (%d -> %d)" % (len(p), len(o))
    mo = refdec.decode(o)
    if refdec.msg_key(mi, ci=True) != refdec.msg_key(mo, ci=True):
        return "compression changed the message (a pointer does not designate the suffix it stands for, or a record was lost)"
    if mi.qname != mo.qname:
        return "question name not byte-identical"
    return None


def lower(n):
    return [l.lower() for l in n]


def rename_name(n, target, source, sfx):
    ln, ls = lower(n), lower(source)
    if (sfx and len(ln) >= len(ls) and ln[len(ln) - len(ls):] == ls) or (not sfx and ln == ls):
        return n[:len(n) - len(ls)] + target
    return n


def wire_len(n):
    return sum(len(l) + 1 for l in n) + 1


def rename_rules(p, traw, sraw, sfx, out_kind, o, what="rename"):
    """C07 on one renaming: p = packet before, o = bytes after (None unless out_kind == "ok")"""
    ok_in, _ = refdec.is_wellformed(p)
    if not ok_in:
        return None
    try:
        for raw in (traw, sraw):
            if refdec.wf_name(raw, 0, allow_ptr=False) != len(raw) or len(raw) < 2:
                return None  # not a well-formed non-root pointer-free name: outside the quantifier
    except refdec.IllFormed:
        return None
    target, _ = refdec.dec_name(traw, 0)
    source, _ = refdec.dec_name(sraw, 0)
    mi = refdec.decode(p)
    too_long = False

    def rn(n):
        nonlocal too_long
        x = rename_name(n, target, source, sfx)
        if wire_len(x) > 255:
            too_long = True
        return x
    exp_q = rn(mi.qname)
    exp = []
    for s in mi.secs:
        es = []
        for r in s:
            rd = r.rd
            if rd[0] == "name":
                rd = ("name", tuple(lower(rn(rd[1]))))
            elif rd[0] == "mx":
                rd = ("mx", rd[1], tuple(lower(rn(rd[2]))))
            elif rd[0] == "soa":
                rd = ("soa", tuple(lower(rn(rd[1]))), tuple(lower(rn(rd[2]))), rd[3])
            es.append((tuple(lower(rn(r.name))), r.typ, r.cls, r.ttl, rd))
        exp.append(tuple(es))
    if out_kind == "err":
        if too_long:
            return None
        return "%s failed although no rewritten name exceeds 255 bytes" % what
    if out_kind != "ok":
        return "%s did not return normally" % what
    if too_long:
        return "%s produced a packet although a rewritten name exceeds 255 bytes" % what
    ok_out, why = refdec.is_wellformed(o)
    if not ok_out:
        return "renamed packet is not accepted: %s" % why
    mo = refdec.decode(o)
    got = refdec.msg_key(mo, ci=True)
    want = (mi.header[:4], tuple(mi.counts), tuple(lower(exp_q)), mi.qtype, mi.qclass, tuple(exp))
    if got != want:
        return "renamed message differs from the specified one"
    # the question name is written first and never as a pointer into a record: where it is rewritten, the part that
    # replaces the source is the target as given (its spelling, not the source's)
    lq, ls = lower(mi.qname), lower(source)
    q_matches = (sfx and len(lq) >= len(ls) and lq[len(lq) - len(ls):] == ls) or (not sfx and lq == ls)
    if q_matches and [bytes(x) for x in mo.qname] != [bytes(x) for x in exp_q]:
        if True:
            return "the rewritten question name is not spelled as the target given (%r, expected %r)" % (b".".join(bytes(x) for x in mo.qname), b".".join(bytes(x) for x in exp_q))
    return None


def oracle_c07(c, a, b):
    w = c.split(" ")
    if w[0] != "rename":
        return None
    p, traw, sraw, sfx = _hex(w[1]), _hex(w[2]), _hex(w[3]), w[4] == "1"
    kind = outcome(a)
    o = _hex(a.split(" ")[1]) if kind == "ok" else None
    r = rename_rules(p, traw, sraw, sfx, kind, o)
    if r and kind not in ("ok", "err"):
        return "rename did not return normally: %s" % a[:60]
    return r


def _rename_hook(before_bytes, op, res, after_bytes):
    """the object-level rename of a script step, judged by the same rules"""
    if res.startswith("err:"):
        kind = "err"
    elif res == "ok":
        kind = "ok"
    else:
        return None
    return rename_rules(before_bytes, _hex(op[1]), _hex(op[2]), op[3] == "1", kind, after_bytes if kind == "ok" else None, what="object-level rename")


oracle_script.rename_hook = _rename_hook


def _script_oracle(props, walk=False):
    def o(c, a, b):
        o.waived = set()
        if not c.startswith("script "):
            return None
        if outcome(a) in ("hang", "abort"):
            return "script %s" % outcome(a)
        fails, waived = oracle_script.judge_full(c, a)
        o.waived = waived
        for prop, reason, step in fails:
            if any(p in props for p in prop.split(",")):
                return "%s [step %d]" % (reason, step)
        if fails:
            # failures of other properties only: look further along the script for one of ours
            fails2, _ = oracle_script.judge_full(c, a, keep_going=True)
            for prop, reason, step in fails2:
                if any(p in props for p in prop.split(",")):
                    return "%s [step %d]" % (reason, step)
        if walk and not a.startswith("noparse") and not waived - {"KF1"}:
            return oracle_script.walk_rules(c, a)
        return None
    o.waived = set()
    return o


oracle_c08 = _script_oracle(("C08",))
_oracle_c07_scripts = _script_oracle(("C07", "C08", "C09"))


def oracle_c07x(c, a, b):
    """C07 on `rename` lines; on `script` lines (object-level rename followed by reads) the script oracle"""
    if c.startswith("script "):
        r = _oracle_c07_scripts(c, a, b)
        oracle_c07x.waived = _oracle_c07_scripts.waived
        return r
    oracle_c07x.waived = set()
    return oracle_c07(c, a, b)


oracle_c07x.waived = set()
_oracle_c03_scripts = _script_oracle(("C03", "C08", "C09"))


def oracle_c03x(c, a, b):
    """C03 on `iter` lines; on `script` lines (cursor walks mixing the two step functions) the script oracle"""
    if c.startswith("script "):
        r = _oracle_c03_scripts(c, a, b)
        oracle_c03x.waived = _oracle_c03_scripts.waived
        return r
    oracle_c03x.waived = set()
    return oracle_c03(c, a, b)


oracle_c03x.waived = set()
oracle_c09 = _script_oracle(("C09", "C13"))
oracle_c10 = _script_oracle(("C10",))
oracle_c11 = _script_oracle(("C11", "C08", "C09"), walk=True)


def nontrivial_script(c, a):
    return " ok b=" in a or a.startswith("ok b=")


def oracle_c13(c, a, b):
    w = c.split(" ")
    if w[0] == "script":
        return oracle_c13_insert(c, a, b)
    if w[0] != "synth":
        return None
    if a == "not-utf8":
        return None
    if outcome(a) not in ("ok", "err"):
        return "record synthesis did not return normally: %s" % a[:40]
    text = _hex(w[1])
    try:
        want = refsynth.synth(text)
    except refsynth.Outside as e:
        if outcome(a) == "ok":
            return "text outside the grammar (%s) was accepted" % e
        return None
    except refsynth.Refused as e:
        if outcome(a) == "ok":
            return "record beyond a documented limit (%s) was produced" % e
        return None
    if outcome(a) != "ok":
        return "record text in the grammar was refused (%s)" % a
    got = _hex(a.split(" ")[1])
    if got != want:
        return "synthesised record differs from the RFC 1035 wire form: got %s want %s" % (got.hex()[:80], want.hex()[:80])
    return None


oracle_c08_for_c13 = None


def oracle_c13_insert(c, a, b):
    # inserting a synthesised record into answer/authority/additional of a valid response leaves an accepted packet
    r = oracle_c08(c, a, b)
    if r:
        return r
    r = oracle_c09(c, a, b)
    return r


def name_labels_of_text(s):
    body = s[:-1] if s.endswith(b".") else s
    return body.split(b".") if body else []


def oracle_c14(c, a, b):
    w = c.split(" ")
    if w[0] != "name2raw":
        return None
    if outcome(a) not in ("ok", "err"):
        return "name conversion did not return normally: %s" % a[:40]
    s = _hex(w[1])
    zone = None if w[2] == "." else _hex(w[2])
    appended = zone is not None and len(s) > 0 and not s.endswith(b".") and s != b"."
    labels = name_labels_of_text(s) if s != b"." else []
    ldh = all(1 <= len(l) <= 62 and all((chr(ch).isascii() and chr(ch).isalnum()) or ch in (45, 95) for ch in l) for l in labels)
    zl = []
    if appended:
        try:
            zl, ze = refdec.dec_name(zone, 0)
        except refdec.Undecodable:
            return None
    wire_len = sum(len(l) + 1 for l in labels + list(zl)) + 1
    empty_interior = any(len(l) == 0 for l in labels) and s not in (b"", b".")
    if outcome(a) == "ok":
        t = a.split(" ")
        wv = _hex(t[1])
        try:
            got, e = refdec.dec_name(wv, 0)
        except refdec.Undecodable as ex:
            return "accepted name is not a well-formed wire name: %s" % ex
        if e != len(wv) or refdec.name_has_ptr(wv, 0):
            return "accepted name is not a complete pointer-free wire name"
        if len(wv) > 255 or any(len(l) > 63 for l in got):
            return "accepted name exceeds 255 bytes or has a label longer than 63"
        if [bytes(l) for l in got] != [bytes(l) for l in labels + list(zl)]:
            return "labels of the wire name are not the dot-separated labels of the input (+ zone)"
        rt = [x for x in t if x.startswith("rt=")]
        if rt and not rt[0].startswith("rt=err:"):
            if rt[0] == "rt=panic":
                return "giving a record the converted name panicked"
            want = refdec.name_text_exact(labels + list(zl)).hex() or "-"
            if rt[0][3:] != want:
                return "a record given that name reads back as %s, expected %s" % (rt[0][3:], want)
        return None
    # rejected
    if ldh and wire_len <= 253 and (not appended or True):
        if zone is not None and appended and not all(len(l) <= 63 for l in zl):
            return None
        return "a letter-digit-hyphen-underscore name within the limits was rejected (%s)" % a
    return None


def oracle_c15(c, a, b):
    w = c.split(" ")
    if w[0] not in ("cabi", "cabic"):
        return None
    if outcome(a) in ("abort", "hang", "panic"):
        return "a table call crashed the process instead of returning -1 (%s)" % outcome(a)
    if a.startswith("noparse"):
        return None
    if a.startswith("cdriver-does-not-compile"):
        return "a C hook using the table as declared in c_hook.h does not compile / link against the library: %s" % a[:300]
    for bad in ("CANARY-BROKEN", "WROTE-PAST-ADDRESS", "name-not-terminated", "state-panic", "err=?", "err=null"):
        if bad in a:
            return "table call misbehaved: %s" % bad
    halves = a.split(" @@ ")
    if w[0] == "cabic":
        if len(halves) != 2 or halves[0] != halves[1]:
            return "a hook compiled against c_hook.h observes something else than a caller using the Rust table: " + first_diff(halves[0], halves[-1])
    # the final packet state must satisfy C08 (unless a by-design finding applies)
    fin = halves[0].split(" ; ")[-1]
    if fin.startswith("b="):
        d = dict(tok.split("=", 1) for tok in fin.split(" ") if "=" in tok)
        st = {"bytes": _hex(d["b"]), "view": dict(kv.split("=", 1) for kv in d["v"].split(",")), "mc": "1", "c": "-", "k": "-"}
        reason, waivers = oracle_script.check_c08_state(st, None)
        if reason and not waivers and " addq " not in c:
            return "after the hook script: " + reason
    # copy-out discipline
    pieces = halves[0].split(" ; ")
    for piece in pieces:
        m = re.match(r"ret=0 len=(\d+) bytes=(\S+)", piece)
        if m and int(m.group(1)) * 2 != len(m.group(2)) and not (m.group(1) == "0"):
            return "raw_packet length does not match the bytes copied"
    # add_to_*: a record text the grammar accepts, whose record fits, is inserted (judged on the first operation of a
    # script over a small packet, where the size before the call is the input's)
    ops0 = [o.strip() for o in re.sub(r" #\S*$", "", " ".join(w[2:])).split(" ; ")]
    first = ops0[0].split(" ") if ops0 else []
    if first and first[0] in ("adda", "addn", "addr") and len(first) == 2 and len(w[1]) // 2 < 600:
        try:
            wire = refsynth.synth(_hex(first[1]))
        except (refsynth.Outside, refsynth.Refused):
            wire = None
        piece0 = halves[0].split(" ; ")[0]
        if wire is not None and len(wire) < 7000 and piece0.startswith("ret=-1"):
            return "%s refused a record text the grammar accepts and whose record fits (%d characters of text, %d bytes of record): %s" % (first[0], len(first[1]) // 2, len(wire), piece0)
    # set_raw_name / set_name through the table, judged on the first operation of a script over a small packet: a well-formed
    # pointer-free raw name is installed; a fully-qualified host name is installed whatever the zone slice holds
    if len(first) >= 5 and first[0] == "iter" and len(w[1]) // 2 < 600:
        piece0 = halves[0].split(" ; ")[0]
        if first[3] == "setrawname":
            raw = _hex(first[4])
            try:
                wf = len(raw) >= 1 and refdec.wf_name(raw, 0, allow_ptr=False) == len(raw)
            except (refdec.IllFormed, IndexError):
                wf = False
            if wf and "n=0" not in piece0 and "ret=-1" in piece0:
                return "set_raw_name refused a well-formed pointer-free name (%d bytes): %s" % (len(raw), piece0)
        if first[3] == "setname" and len(first) >= 6:
            txt = _hex(first[4])
            if txt.endswith(b".") and len(txt) > 1 and len(txt) <= 253 and re.fullmatch(rb"([A-Za-z0-9_-]{1,62}\.)+", txt) and "n=0" not in piece0 and "ret=-1" in piece0:
                return "set_name refused a fully-qualified host name (the default zone plays no part for it): %s" % piece0
    for m in re.finditer(r"ip=([0-9a-f]*)/(\d+)", halves[0]):
        n = int(m.group(2))
        if n not in (4, 16) or len(m.group(1)) != 2 * n:
            return "rr_ip reported a length of %d for an address of %d bytes (an address is 4 or 16 bytes whatever capacity was announced)" % (n, len(m.group(1)) // 2)

    ops = [o.strip() for o in re.sub(r" #\S*$", "", " ".join(w[2:])).split(" ; ")]
    # reads made before the script changes anything: the address copied out is the data of an A / AAAA record of the input
    for op, piece in zip(ops, pieces):
        ow = op.split(" ")
        if not (ow[0] == "iter" and len(ow) >= 4 and ow[3] in ("ip", "ipcap", "name", "type")):
            break
        for m in re.finditer(r"ip=([0-9a-f]*)/(\d+)", piece):
            n = int(m.group(2))
            if "%04x%s" % (n, m.group(1)) not in w[1]:
                return "rr_ip copied out %s (%d bytes), which is not the data of any A/AAAA record of the packet" % (m.group(1), n)
    for op, piece in zip(ops, pieces):
        ow = op.split(" ")
        if ow[0] == "rawpacket" and len(ow) == 2:
            m = re.match(r"ret=0 len=(\d+)", piece)
            if m and int(m.group(1)) > int(ow[1]):
                return "raw_packet copied %s bytes into a buffer of stated capacity %s" % (m.group(1), ow[1])
    return None


def oracle_c16(c, a, b):
    w = c.split(" ")
    if w[0] != "errslots":
        return None
    if outcome(a) in ("abort", "hang", "panic"):
        return "error-slot script %s" % outcome(a)
    last = {}
    got = a.split(" ")
    steps = w[2:]
    if len(got) != len(steps):
        return "script produced %d results for %d steps" % (len(got), len(steps))
    for st, g in zip(steps, got):
        m = re.match(r"(\d+)(f(\d+)|r|s(\d+))$", st)
        t = int(m.group(1))
        if m.group(2).startswith("s"):
            # a call that succeeds: returns 0 and leaves the thread's description alone (`last` unchanged)
            if g != "t%ds=0" % t:
                return "a table call that should succeed returned %s" % g
        elif m.group(2) == "r":
            want = "t%d=%s" % (t, last.get(t, "none"))
            if g != want:
                return "thread %d read description %s, its own most recent failure is %s" % (t, g, want)
        else:
            last[t] = m.group(3)
            if g != "t%df=-1" % t:
                return "a failing call returned %s instead of -1" % g
    return None


def oracle_c17(c, a, b):
    if not c.startswith("session "):
        return None
    if outcome(a) in ("abort", "hang", "panic"):
        return "session %s" % outcome(a)
    m = re.match(r"seq=(\S+) conc=(\S+) \|\|", a)
    if not m:
        return "unreadable session output"
    if m.group(1) != "ok":
        return "a call returned something else after earlier calls on the same thread (%s)" % m.group(1)
    if m.group(2) != "ok":
        return "a call returned something else while other threads were working (%s)" % m.group(2)
    return None


STEP_SLOPE, STEP_CONST = 80, 1200


def oracle_c18(c, a, b):
    w = c.split(" ")
    if w[0] != "steps":
        return None
    if outcome(a) in ("abort", "hang", "panic"):
        return "validation %s" % outcome(a)
    m = re.search(r"steps=(\d+)", a)
    if not m:
        return "no step count"
    n = len(_hex(w[1]))
    if int(m.group(1)) > STEP_SLOPE * n + STEP_CONST:
        return "%s steps on a %d-byte packet exceed %d * len + %d" % (m.group(1), n, STEP_SLOPE, STEP_CONST)
    return None


def nontrivial_accepted(c, a):
    return not a.startswith("noparse")


def match_known(known, prop, c, a, b, reason):
    """kept for the search loop: a failure reason is never suppressed; by-design findings are waived
    inside the oracles (oracle.waived) and reported by the check only if KNOWN_FINDINGS lists them"""
    return None


def nontrivial_parse(c, a):
    # got past the header checks: not a too-small packet / question-count rejection
    w = c.split(" ")
    if w[0] != "parse":
        return not a.startswith("err InternalError")
    return len(w[1]) > 24 and w[1][8:12] == "0001"


PROPS = {
    "C01": {
        "module": "DnsModel.Theorems.C01",
        "theorems": ["Dns.C01.parse_total", "Dns.C01.checkCompressedName_total", "Dns.C01.checkUncompressedName_total",
                     "Dns.C01.checkCompressedName_in_bounds", "Dns.C01.cursor_total", "Dns.C01.source_check_compressed_name_total", "Dns.C01.source_check_uncompressed_name_total", "Dns.C01.source_check_compressed_name_in_bounds", "Dns.C01.source_cursor_tie", "Dns.C01.source_loader_tie", "Dns.C01.source_parse_total"],
        "families": [
            {"name": "boundary-parse", "quick": 0, "thorough": 0, "fixed": True},
            {"name": "parse", "quick": 6000, "thorough": 300000},
            {"name": "names", "quick": 4000, "thorough": 200000},
        ],
        "oracle": oracle_c01,
        "nontrivial": nontrivial_parse,
        "rule": "structured (five layouts) 60% / single-point damaged 35% / arbitrary 5% packets, name-checker and cursor scripts; "
                "non-trivial = distinct case lines that get past the header checks (parse) or do not die on the first bounds check (walkers)",
        "level": "proof",
        "explanation": "theorems: parse/checkCompressedName/checkUncompressedName/cursor scripts return Ok or Err for every input (no panic, no fuel exhaustion) on the model; "
                       "correspondence: real parse()/checkers/cursor primitives agree with the model on every generated case, panics caught per case, hangs by watchdog",
        "assumptions": ["termination of the real loops is inferred from the model's termination proof plus agreement of outcomes and of the step counter (C18), not proved of the Rust code",
                        "absence of recursion in the validator (iterative loops), safe-Rust bounds checks"],
    },
    "C03": {
        "module": "DnsModel.Theorems.C03",
        "theorems": ["Dns.C03.accepted_layout", "Dns.C03.walks_faithful", "Dns.C03.no_opt_outside_additional", "Dns.C03.question_walk",
                     "Dns.C03.accessors", "Dns.C03.ip_accessor", "Dns.C03.data_accessor", "Dns.C03.layout_full",
                     "Dns.C03.edns_walk", "Dns.C03.current_section", "Dns.C03.source_reader_tie", "Dns.C03.source_name_text"],
        "families": [{"name": "script-mixed-steps", "quick": 0, "thorough": 0, "fixed": True}, {"name": "iter-boundary", "quick": 0, "thorough": 0, "fixed": True}, {"name": "iter", "quick": 3000, "thorough": 150000}, {"name": "iter-damaged", "quick": 3000, "thorough": 100000}],
        "oracle": oracle_c03x,
        "nontrivial": nontrivial_accepted,
        "rule": "accepted packets from the structured stream (all record shapes, 4 layouts incl. chained pointers and pointers into rdata names, OPT absent/first/middle/last); "
                "each case runs the six walks and every accessor on every record; non-trivial = distinct accepted packets",
        "level": "proof",
        "explanation": "theorems: on every packet the model's parse accepts, the question / answer / authority / additional walks (OPT skipped and included) and the EDNS option walk yield exactly the records / options the declarative policy places in the bytes, in wire order; every accessor returns the value at the record's positions; the section accessor reports the record's section; none panics. "
                       "correspondence: real walks and accessors agree with the model and with the Python RFC 1035 reference decoder on every generated accepted packet",
        "assumptions": ["accessors are pure functions of the bytes in the model; that the real accessors do not write is observed by comparing the packet bytes before and after every case, not proved of the Rust code"],
    },
    "C04": {
        "module": "DnsModel.Theorems.C04",
        "theorems": ["Dns.C04.header_summary", "Dns.C04.question_summary", "Dns.C04.edns_summary", "Dns.C04.source_header_summary"],
        "families": [{"name": "summary-boundary", "quick": 0, "thorough": 0, "fixed": True}, {"name": "summary", "quick": 3000, "thorough": 100000}],
        "oracle": oracle_c04,
        "nontrivial": nontrivial_accepted,
        "rule": "accepted packets with random flag words, OPT present/absent with random version/flags/rcode/payload, question names through pointers incl. into the header; every getter, question getters twice (cold/warm cache)",
        "level": "proof",
        "explanation": "theorems: for every accepted packet the id, opcode, rcode, QR, every bit of the 32-bit flag word, the DNSSEC indicator, the three question forms with type and class (cold and warm cache) and the six EDNS summary fields equal the values read off the bytes at the positions the declarative policy assigns (defaults without OPT); "
                       "correspondence: real getters agree with the model and with an independent div/mod decoding on every generated accepted packet",
        "assumptions": [],
    },
    "C05": {
        "module": "DnsModel.Theorems.C05",
        "theorems": ["Dns.C05.uncompress_canonical", "Dns.C05.output_layout", "Dns.C05.decompress_ok", "Dns.C05.decompressed_accepted",
                     "Dns.C05.decompress_fixed_point", "Dns.C05.layout_unique", "Dns.C05.uncompress_any", "Dns.C05.boundaries", "Dns.C05.source_reader_tie"],
        "families": [{"name": "uncompress-boundary", "quick": 0, "thorough": 0, "fixed": True}, {"name": "uncompress", "quick": 700, "thorough": 40000}],
        "oracle": oracle_c05,
        "nontrivial": lambda c, a: a.startswith("ok"),
        "rule": "accepted packets (4 layouts, OPT anywhere) x {plain decompression + second run, 3 random record boundaries, end of packet}; non-trivial = distinct successful calls",
        "level": "proof",
        "explanation": "theorems: on every packet the model's parse accepts, the model of decompression succeeds and returns the 12 header bytes followed by the canonical form of the question and of every record in wire order (owner and NS/CNAME/PTR/MX/SOA names replaced by the pointer-free encoding of the same labels, fixed fields and all other data including OPT verbatim, data length recomputed); that output satisfies the acceptance policy, has a layout with the same record types whose pieces are their own canonical forms (no pointer in any name), is a fixed point of decompression, and the start of the i-th record / the question / the end of the input is carried to the start of the i-th record / the question / the end of the output; "
                       "correspondence: the real decompression is byte-identical to the model's on every generated accepted packet and boundary; the Python reference decoder compares decoded messages",
        "assumptions": ["offsets that are not record boundaries are outside the property; the model (like the code) panics on them"],
    },
    "C06": {
        "module": "DnsModel.Theorems.C06",
        "theorems": ["Dns.C06.compress_spec", "Dns.C06.decompressed_pointerFree", "Dns.C06.compress_decompressed", "Dns.C06.roundtrip", "Dns.C06.source_reader_tie"],
        "families": [{"name": "compress-families", "quick": 0, "thorough": 0, "fixed": True}, {"name": "compress", "quick": 2500, "thorough": 150000}],
        "oracle": oracle_c06,
        "nontrivial": lambda c, a: a.startswith("ok"),
        "rule": "pointer-free accepted packets: random messages with a shared label pool plus the dictionary families (30..70 distinct suffixes, suffixes of 126..255 bytes, nesting 2..40, names beyond offset 16383, mixed-case duplicates in every name-bearing rdata, OPT in 4 positions)",
        "level": "proof",
        "explanation": "theorems: for every accepted packet whose names are all written without pointers (the outputs of decompression are such), the model of compress() succeeds; its output is no longer than the input, satisfies the acceptance policy, has the same header bytes and a byte-identical question, and its records are one by one those of the input up to the case of names: every owner / NS / CNAME / PTR / MX / SOA name decodes, under the validator's pointer discipline, to labels equal up to ASCII case, and type, class, TTL and all other data (OPT and its options) are identical; decompressing the output gives a packet related to the input in the same way. Proved through an invariant of the 32-entry suffix dictionary (every committed entry designates a place in the output where a name equal up to case decodes with the recorded depth < 16), the soundness of the case-insensitive comparison, and independence of the appended bytes from the output's contents (for the late data-length patch); "
                       "correspondence: the real compress() is byte-identical to the model's on random messages and on the dictionary families",
        "assumptions": ["'pointer-free' is the predicate PointerFree of Theorems/C06.lean (every name the library understands is a literal run of labels ended by the root byte)"],
    },
    "C07": {
        "module": "DnsModel.Theorems.C07",
        "theorems": ["Dns.C07.rename_spec", "Dns.C07.rename_self", "Dns.replaceRaw_spec", "Dns.rename_record", "Dns.C07.source_reader_tie", "Dns.C07.source_replace_raw"],
        "families": [{"name": "rename-families", "quick": 0, "thorough": 0, "fixed": True}, {"name": "rename-misaligned", "quick": 0, "thorough": 0, "fixed": True}, {"name": "rename-script", "quick": 0, "thorough": 0, "fixed": True}, {"name": "rename-boundary", "quick": 0, "thorough": 0, "fixed": True}, {"name": "rename", "quick": 1500, "thorough": 75000}],
        "oracle": oracle_c07x,
        "nontrivial": lambda c, a: a.startswith("ok") or a.startswith("err"),
        "rule": "accepted packets (4 layouts) x 2 (target, source, mode): sources drawn from the packet's own name suffixes (matches at every depth), case variants, one-character near-misses, unrelated, names whose bytes end with the encoded source off a label boundary (rename-misaligned); targets incl. self and names that push the result past 255 bytes",
        "level": "proof",
        "explanation": "theorems: for every accepted packet (compressed or not), every pair of well-formed pointer-free non-root names and both modes, the model of rename_with_raw_names either returns a packet that satisfies the acceptance policy, keeps the 12 header bytes, and whose question and records are one by one the input's with every name the library understands (owner, NS/CNAME/PTR/MX/SOA data) replaced by its renaming - the name, or in suffix mode a suffix on a label boundary, equal to the source up to case becomes the target; any other name is kept - up to ASCII case, type/class/TTL bytes and all other data incl. OPT identical; or it fails with InvalidName and some renamed name would exceed 255 bytes; renaming a name to itself never fails and keeps every name up to case. replace_raw is characterised exactly on pointer-free names (hit / unchanged / too long); "
                       "correspondence: the real renamer is byte-identical to the model's on generated packets, sources drawn from the packet's own suffixes, near-misses, growth past 255",
        "assumptions": ["the theorem is about Renamer::rename_with_raw_names; the ParsedPacket wrapper re-parses its result (accepted by the theorem) and asserts the EDNS summary is unchanged - that assert is covered by correspondence (C08 scripts), not by this theorem"],
    },
    "C08": {
        "module": "DnsModel.Theorems.C08Seq", "theorems": ["Dns.C08.run_total", "Dns.C08.step_total", "Dns.C08.run_inv", "Dns.C08.step_inv", "Dns.C08.inv_start", "Dns.C08.consistent_view", "Dns.C08.consistent_counts", "Dns.C08.after_decompression", "Dns.C08.recompute_consistent", "Dns.C08.iter_uncompress_consistent", "Dns.C08.first_touch_consistent", "Dns.C08.insert_answer_consistent", "Dns.C08.insert_authority_consistent", "Dns.C08.insert_additional_consistent", "Dns.C08.delete_consistent", "Dns.C08.set_ttl_consistent", "Dns.C08.set_ip_consistent", "Dns.C08.set_name_consistent", "Dns.C08.header_consistent", "Dns.C08.rename_fresh", "Dns.C08.question_read", "Dns.C08.PlainObj.pointerFree", "Dns.EdnsOK.matches_parse", "Dns.PlainObj.parse_info", "Dns.ednsOf_of_run", "Dns.ednsOK_replace", "Dns.ednsOK_remove", "Dns.ednsOK_remove_opt", "Dns.C08.source_counts_tie", "Dns.C08.source_insert_rr", "Dns.C08.source_recompute"],
        "families": [{"name": "script-boundary", "quick": 0, "thorough": 0, "fixed": True}, {"name": "rename-script", "quick": 0, "thorough": 0, "fixed": True}, {"name": "script-rawinsert", "quick": 0, "thorough": 0, "fixed": True}, {"name": "script", "quick": 2500, "thorough": 100000}],
        "oracle": oracle_c08, "nontrivial": nontrivial_script, "shrink": False,
        "rule": "scripts of 1-6 macro operations (open/advance/act/observe/advance, header setters, text insertion, question insertion, rename, recompute, cache reads) over accepted packets in 4 layouts with/without OPT and over empty(); state observed after every operation; non-trivial = distinct scripts with at least one successful mutating operation",
        "level": "proof",
        "explanation": "theorems: the invariant Consistent (plain object = header + question + three lists of canonical record pieces with the section starts and counts that follow from them; may-contain-pointers flag cleared; question cache empty or right; EDNS summary = the one the additional pieces determine) implies (consistent_view) that the bytes are accepted by the parser and that a fresh parse reports exactly the object's section starts and EDNS summary (position and count of options, extended rcode, version, flags, payload size), that header counts = numbers of records, absent start iff empty section, bytes pointer-free, cached question = uncached question. It holds after decompression / recompute / in-place decompression through an iterator / the decompress-first step of any accepted packet and is preserved by insert (3 sections), delete (the OPT record included: summary cleared), set_rr_ttl, set_rr_ip, set_raw_name (after which the cursor still designates the record and next yields the one that followed), and the five header setters; a successful object-level rename leaves exactly the view of a fresh parse. "
                       "correspondence: state-machine model (packet object + one cursor) of every mutator; after every operation of every script the real object's bytes, public fields, cache and cursor equal the model's, and the oracle re-derives the view from the bytes alone",
        "assumptions": ["sequences: Theorems/C08Seq.lean defines the script semantics applyOp/run (object + at most one open record-section iterator: open, next, close, delete, set TTL / address / owner name, insert, the five header setters, recompute), the invariant Inv (= Consistent + the cursor is void or stands on a record of its section) and the preconditions Allowed (cursor on a record for TTL/address, well-formed name and record, QR gating, not the OPT record: the by-design exclusions); run_total: from a state satisfying Inv every finite script of allowed operations runs to the end - no panic, no divergence, no internal error - and ends in a state satisfying Inv (run_inv is the partial-correctness half)",
                        "excluded by hypothesis (known findings, by design): question insertion/deletion (KF1, KF4), OPT as the target of set-name/set-TTL (KF5), clearing QR with answers present (KF3); in-place setters on a still-compressed object (KF2) are covered by the script correspondence only"],
    },
    "C09": {
        "module": "DnsModel.Theorems.C09", "theorems": ["Dns.C09.insert_exact_answer", "Dns.C09.insert_exact_authority", "Dns.C09.insert_exact_additional", "Dns.C09.delete_exact", "Dns.C09.set_ttl_exact", "Dns.C09.set_ip_exact", "Dns.C09.set_name_exact", "Dns.C09.header_exact", "Dns.C09.first_touch", "Dns.C09.set_name_flagged", "Dns.C09.delete_flagged", "Dns.PlainObj.replace_at", "Dns.resize_write", "Dns.piece_shape", "Dns.C09.source_counts_tie", "Dns.C09.source_insert_rr"],
        "families": [{"name": "script-boundary", "quick": 0, "thorough": 0, "fixed": True}, {"name": "script-refusals", "quick": 0, "thorough": 0, "fixed": True}, {"name": "script-rawinsert", "quick": 0, "thorough": 0, "fixed": True}, {"name": "script", "quick": 2500, "thorough": 100000}],
        "oracle": oracle_c09, "nontrivial": nontrivial_script, "shrink": False,
        "rule": "same scripts as C08; after every operation the decoded message is compared with the message before plus exactly the specified change",
        "level": "proof",
        "explanation": "theorems: the decoded message of a pointer-free object is its PlainObj representation (header, question labels + type/class, three lists of canonical record pieces). For every such object and every target position: insert_rr appends exactly the given record at the end of the chosen section and raises only that count; delete removes exactly the record under the cursor and lowers only that count; set_rr_ttl replaces exactly the four TTL bytes, set_rr_ip exactly the address bytes (A/AAAA, right family) of that record; set_raw_name replaces exactly that record's owner name (growing, shrinking or equal length; later section starts move by the difference); the five header setters touch bytes 0-3 only (which bits: C12). All other records, their order, the question, the other header fields and the EDNS summary fields are equal. On an object that still has its parse-time flag (compressed or not) the first set_raw_name/delete first makes it the plain object of the canonical pieces with the cursor on the same record (first_touch: names compared after decompression), then acts as above. "
                       "correspondence: after every operation of every script the real object's decoded message is compared with the message before plus exactly the specified change",
        "assumptions": ["each theorem is about one operation from any plain state; sequences follow by chaining them (every conclusion re-establishes the hypothesis PlainObj), the chaining itself is not a Lean statement",
                        "excluded by hypothesis (known findings, by design): OPT as the target of set-name/set-TTL (KF5), delete/insert on the question (KF1, KF4), clearing QR with answers present (KF3); in-place setters on a still-compressed object (KF2) and rename/recompute at object level are covered by C07 / C08.rename_fresh and the script correspondence"],
    },
    "C10": {
        "module": "DnsModel.Theorems.C10", "theorems": ["Dns.C10.insert_size_limit", "Dns.C10.insert_failure_plain", "Dns.C10.insert_too_large", "Dns.C10.delete_void_unchanged", "Dns.C10.set_name_invalid", "Dns.C10.set_name_arg_total", "Dns.C10.set_name_void", "Dns.C10.set_ip_failure", "Dns.C10.rename_failure", "Dns.C10.set_name_too_large", "Dns.C10.source_counts_tie", "Dns.C10.source_insert_rr"],
        "families": [{"name": "script-big", "quick": 0, "thorough": 0, "fixed": True}, {"name": "script-rawinsert", "quick": 0, "thorough": 0, "fixed": True}, {"name": "script-fail", "quick": 2500, "thorough": 100000}, {"name": "script", "quick": 500, "thorough": 20000}],
        "oracle": oracle_c10, "nontrivial": lambda c, a: "err:" in a, "shrink": False,
        "rule": "scripts biased to failing arguments (ill-formed / over-long names, tombstone cursors, malformed and out-of-range record texts, second question, overflowing renames), exact-limit sweeps (8192 +- for insertions, also on packets whose OPT advertises 512..65535 bytes; 65535 +- for owner growth); non-trivial = distinct scripts in which at least one operation failed",
        "level": "proof",
        "explanation": "theorems: for every object (any size, compressed or not), section and record bytes a successful insert_rr leaves at most 8192 bytes, and a packet that would exceed the limit is refused with PacketTooLarge; on a pointer-free object every failing insert_rr (too large, second question, 65535 records) returns the object given; delete / set_raw_name through the cursor of a deleted record report VoidRecord and return object and cursor as they were; an invalid or over-long name is refused by the (total) checker before any byte moves; set_rr_ip with the wrong family or on a non-address record returns the object unchanged; a rename that overflows a name returns the object unchanged; set_raw_name with a name that would push the packet past 65535 bytes reports PacketTooLarge and only empties the question cache. An unchanged object trivially still satisfies C08. "
                       "correspondence: scripts biased to failing arguments and packets around/beyond 8192 and 65535 bytes; after every failed call the decoded message and the object view must equal those before",
        "assumptions": ["partial: not covered by a theorem (script correspondence only): malformed record text at the object API (refused by synthesis, C13.excluded_is_error, before insertion is attempted), failing insertion into a still-compressed object (decompressed first: bytes change, decoded message does not)"],
    },
    "C11": {
        "module": "DnsModel.Theorems.C11", "theorems": ["Dns.C11.walk_delete", "Dns.C11.second_delete", "Dns.C11.delete_void_untouched", "Dns.C11.emptied_absent", "Dns.C11.still_accepted", "Dns.C11.plain_of_accepted", "Dns.C11.first_delete", "Dns.C11.walk_delete_parsed", "Dns.C11.walk_delete_skipping_opt", "Dns.C11.walk_delete_parsed_skipping_opt", "Dns.C11.opt_once", "Dns.delWalkSkip_fresh_refines", "Dns.delWalkSkip_refines", "Dns.delWalk_refines", "Dns.delWalk_fresh_refines", "Dns.PlainObj.delete_at", "Dns.absWalk_terminates", "Dns.absWalk_sublist", "Dns.absWalk_deleted_gone", "Dns.absWalk_yields_survivors", "Dns.absWalk_perm", "Dns.C11.source_counts_tie"],
        "families": [{"name": "delete-walks", "quick": 0, "thorough": 0, "fixed": True}, {"name": "walk-huge-quick", "quick": 0, "thorough": 0, "fixed": True, "only": "quick"}, {"name": "walk-huge-full", "quick": 0, "thorough": 0, "fixed": True, "only": "thorough"}],
        "oracle": oracle_c11, "nontrivial": lambda c, a: "delete" in c, "shrink": False,
        "rule": "every subset of the records of a section of size 0..5 deleted from within one walk, for the three record sections and the question, pointer-free and compressed, OPT absent/first/last; walks over all four sections in one script in all 24 orders (question deleted first / last / in between), a question-less packet built from empty(); exhaustive in both tiers; plus sections of 32767..65535 records (run on the real code, judged by the oracle alone: too large for the list-based model)",
        "level": "proof",
        "explanation": "theorems: on every pointer-free packet object (what decompression, recompute or insertion leave for any accepted packet: plain_of_accepted), for each of the three record sections, for the public walk (OPT-skipping next() in answer/authority, OPT-including in all three) and every stream of delete/keep choices, the walk-and-delete run of the model terminates within (n+1)^2+n+1 steps without error or panic and refines an abstract list machine (delWalk_refines): each deletion removes exactly the record under the cursor and lowers exactly that section's count (PlainObj.delete_at), a second deletion through the same cursor reports VoidRecord and changes nothing, a deleted record is never yielded again, every survivor is yielded at least once, afterwards the section holds exactly the survivors in original order with matching count and an emptied section reads as absent, other sections / question / other header fields untouched, and the bytes are accepted by the parser with the section starts the object holds. The first deletion on a still-flagged (possibly compressed) object is first_delete: decompress, carry the cursor, delete exactly that record. "
                       "correspondence: exhaustive deletion walks (all subsets, sizes 0..5, four sections, two layouts, OPT absent/first/last) on the real iterators vs the model vs the walk oracle",
        "assumptions": ["the run started on a freshly parsed (possibly compressed) packet is walk_delete_parsed: untouched until the first deletion, which decompresses and removes exactly the record under the cursor, then as on a plain object; the public next() walk over an additional section that holds an OPT record is walk_delete_skipping_opt (the walker sees the other records, OPT stays where it was); the same walk started on a freshly parsed (possibly compressed) packet is walk_delete_parsed_skipping_opt (at most one OPT: opt_once); partial: the question section (KF1: by design its deletion leaves a packet parse() rejects) is covered by the exhaustive correspondence walks only"],
    },
    "C13": {
        "module": "DnsModel.Theorems.C13", "theorems": ["Dns.C13.synth_total", "Dns.C13.rawNameFromStr_total", "Dns.C13.grammar_iff", "Dns.C13.excluded_is_error", "Dns.C13.wellformed", "Dns.C13.synth_piece", "Dns.C13.insert_accepted", "Dns.C13.source_from_text"],
        "families": [{"name": "synth-limits", "quick": 0, "thorough": 0, "fixed": True}, {"name": "synth", "quick": 6000, "thorough": 400000}, {"name": "synth-insert", "quick": 1200, "thorough": 40000}],
        "oracle": oracle_c13, "nontrivial": lambda c, a: a.startswith("ok") or " ok b=" in a, "shrink": False,
        "rule": "record texts: 60% grammar-derived over the nine types with boundary values (TTL 0/2^32-1/2^32, 62/63-byte labels, 253/254-byte names, TXT 255/256/3825/3826 bytes and escapes, preference 65535/65536, digests of even/odd/zero length, 14 IPv6 forms), 30% single-token damage, 10% arbitrary bytes; plus insertion of the synthesised record into a valid response; non-trivial = distinct texts that synthesise",
        "level": "proof",
        "explanation": "theorems: synth t = Ok rr exactly when t is a text of the grammar stated in Spec/RecordText.lean (blanks, host-name owner, TTL, IN in any case, one of nine type words in any case, type-specific data) and rr is the RFC 1035 wire record it stands for (both directions, token by token); hence text outside the grammar is an error; synthesis is total (no panic, no loop); whatever is returned is a well-formed class-IN record wherever it is placed; inserting it into the answer / authority / additional section of a parsed packet (response for the first two, within the 8192-byte and 65535-record limits) succeeds and leaves bytes satisfying the acceptance policy; "
                       "correspondence: real synthesis agrees with the model and with an independent Python synthesiser on grammar-derived, damaged and arbitrary texts, and with insertion into valid packets",
        "assumptions": ["Ipv6Addr::from_str is std code: modelled (v6Groups / ipv6FromStr) and compared with Python's ipaddress in the oracle; the chomp1 combinator semantics is read from the vendored source (DESIGN Appendix A)"],
    },
    "C14": {
        "module": "DnsModel.Theorems.C14",
        "theorems": ["Dns.C14.from_text_sound", "Dns.C14.from_text_complete", "Dns.C14.textLabel_of_ldh", "Dns.C14.rejects_long_text",
                     "Dns.C14.rejects_empty_label", "Dns.C14.rejects_leading_dot", "Dns.C14.rejects_long_label", "Dns.C14.never_longer",
                     "Dns.C14.wire_wellformed", "Dns.C14.reads_back", "Dns.C14.with_zone", "Dns.C14.source_from_text"],
        "families": [{"name": "name2raw", "quick": 4, "thorough": 6, "fixed": True}],
        "oracle": oracle_c14, "nontrivial": lambda c, a: a.startswith("ok"), "shrink": False,
        "rule": "all strings over {a,B,0,-,_,.,0x80} up to length 4 (quick) / 6 (thorough), each with and without a default zone, plus label lengths 60..65 and text lengths 245..258, forbidden bytes; each accepted name is also given to a record and read back",
        "level": "proof",
        "explanation": "theorems: for all byte strings and zones the model of the conversion accepts exactly texts made of dot-separated labels of 1..62 dot-free bytes <= 128 (optionally a final dot; the single dot and the empty text give the root) whose result fits 253 bytes, returns the length-prefixed encoding of exactly those labels followed by the root byte or the zone, rejects empty labels, leading dots, runs of 63+, long texts; the result is a valid pointer-free name whose text form is the input without its final dot; "
                       "correspondence: the real conversion agrees with the model exhaustively on short strings over a 7-symbol alphabet and on boundary lengths, and every accepted name is given to a record and read back",
        "assumptions": ["reading back through a record is proved for the accessor applied to the encoded name (C03 accessors + reads_back); installing the name in a packet is covered by C08's correspondence"],
    },
    "C15": {
        "module": "DnsModel.Theorems.C15", "theorems": ["Dns.C15.layout", "Dns.C15.classified", "Dns.C15.name_fits", "Dns.C15.ip_len", "Dns.C15.raw_packet_fits", "Dns.C15.joinText_length"],
        "families": [{"name": "cabi", "quick": 1200, "thorough": 40000}, {"name": "cabic", "quick": 1200, "thorough": 40000}],
        "oracle": oracle_c15, "nontrivial": lambda c, a: " act=" in a or "ret=" in a, "shrink": False,
        "rule": "hook scripts over accepted packets: address accessors on every A/AAAA record (announced capacities 4..255), 1-5 further table calls (getters/setters, section callbacks acting on the k-th record: name/type/class/ttl/set ttl/set raw name/set name with zone/delete/delete twice, add to three sections, raw-packet copy-out with capacities 0/len-1/len/8192, question, rename, name conversion) under the table's preconditions; each script is run through the Rust table and through a C driver compiled against c_hook.h with -Wall -Werror, canaries around all caller buffers",
        "level": "other", "explanation": "", "assumptions": ["memory safety of the unsafe blocks themselves is modelled (bounds theorems on the model) and observed (canaries), not verified"],
    },
    "C16": {
        "module": "DnsModel.Theorems.C16", "theorems": ["Dns.C16.private_slot", "Dns.C16.other_threads_commute", "Dns.C16.read_preserves"],
        "families": [{"name": "errslots-kinds", "quick": 0, "thorough": 0, "fixed": True}, {"name": "errslots-many", "quick": 0, "thorough": 0, "fixed": True}, {"name": "errslots-exhaustive", "quick": 0, "thorough": 0, "fixed": True}, {"name": "errslots", "quick": 300, "thorough": 5000}],
        "oracle": oracle_c16, "nontrivial": lambda c, a: "f" in c, "shrink": False,
        "rule": "all 20 interleavings of 2 threads x 3 steps x 64 assignments of step kinds (failing calls, reads, successful calls made with the same error variable; exhaustive), plus sampled 3- and 4-thread schedules; real threads stepped in the scripted global order; on every other failing call the caller's error variable already holds the pointer most recently handed to any thread (the argument is output-only)",
        "level": "proof", "explanation": "", "assumptions": ["thread_local! gives each thread its own cell (what the schedules probe)"],
    },
    "C17": {
        "module": "DnsModel.Theorems.C17", "theorems": ["Dns.C17.session"],
        "families": [{"name": "session", "quick": 400, "thorough": 20000}],
        "oracle": oracle_c17, "nontrivial": lambda c, a: " ok " in a, "shrink": False,
        "rule": "sessions of 2-7 calls (parse, uncompress, compress, rename, synth; one call repeated, near-duplicates differing only in ASCII case or one field placed side by side, packets overflowing the 32-entry suffix dictionary repeated): each alone on a fresh thread, all back to back twice on one thread, all concurrently on 4 threads in rotated orders; outputs compared byte for byte with each other and with the model",
        "level": "other", "explanation": "", "assumptions": [],
    },
    "C18": {
        "module": "DnsModel.Theorems.C18", "theorems": ["Dns.C18.steps_linear", "Dns.C18.erasure", "Dns.C18.source_walkers", "Dns.C18.source_erasure"],
        "families": [{"name": "steps-adversarial", "quick": 0, "thorough": 0, "fixed": True}, {"name": "steps", "quick": 3000, "thorough": 300000}],
        "oracle": oracle_c18, "nontrivial": nontrivial_parse_steps if False else (lambda c, a: True),
        "rule": "C01's packet stream plus families built to maximise work (chains 1..17 deep x tail labels x up to 400 records; 1000 SOA records naming a 255-byte name three times through pointers; 16000 options; labels interleaved with pointer runs; lying counts); the hook's counter must equal the model's count and stay under the bound",
        "level": "proof", "explanation": "", "assumptions": [],
    },
    "C12": {
        "module": "DnsModel.Theorems.C12",
        "theorems": ["Dns.C12.set_flags_frame", "Dns.C12.set_response_frame", "Dns.C12.set_tid_frame", "Dns.C12.set_rcode_frame", "Dns.C12.set_opcode_frame", "Dns.C12.getters", "Dns.C12.source_set_flags_frame", "Dns.C12.source_set_response_frame", "Dns.C12.source_set_tid_frame", "Dns.C12.source_set_rcode_frame", "Dns.C12.source_set_opcode_frame", "Dns.C12.source_getters", "Dns.C12.source_tie"],
        "families": [
            {"name": "hdr-quick", "quick": 0, "thorough": 0, "fixed": True, "only": "quick"},
            {"name": "hdr-full", "quick": 0, "thorough": 0, "fixed": True, "only": "thorough"},
        ],
        "oracle": oracle_c12,
        "nontrivial": lambda c, a: True,
        "rule": "flag words x setter arguments: quick = 1024 words incl. all single-bit words and mask constants x (6 fixed + 11 single-bit + 1 random) set_flags arguments, "
                "8 opcode / 8 rcode arguments, both response values, a random tid; thorough = all 65536 words x (6 fixed + all 32 single-bit + 8 random) arguments; every case is distinct",
        "level": "proof",
        "shrink": False,
        "explanation": "",
        "assumptions": [],
    },
    "C02": {
        "module": "DnsModel.Theorems.C02",
        "theorems": ["Dns.C02.parse_ok_iff_wf", "Dns.C02.wf_accepted", "Dns.C02.accepted_wf", "Dns.C02.name_ok_iff_valid", "Dns.C02.plain_name_ok_iff", "Dns.C02.source_name_ok_iff_valid", "Dns.C02.source_plain_name_ok_iff", "Dns.C02.source_parse_ok_iff_wf"],
        "families": [
            {"name": "boundary-parse", "quick": 0, "thorough": 0, "fixed": True},
            {"name": "parse", "quick": 8000, "thorough": 400000},
            {"name": "names", "quick": 6000, "thorough": 300000},
        ],
        "oracle": oracle_c02,
        "nontrivial": nontrivial_parse,
        "rule": "as C01's parse stream plus name-checker cases; verdicts compared in both directions with the model and with the independent Python statement of the policy; non-trivial = distinct packets past the header checks",
        "level": "proof",
        "explanation": "",
        "assumptions": [],
    },
}


CORR = "model tied to the code on every run by differential execution on generated cases (I = real dnssector with hooks, M = compiled Lean model), plus an independent Python oracle that judges I's observed behaviour against the property"
NOTE = "Trusted: Lean kernel; axioms propext/Classical.choice/Quot.sound only (audited); hand-written model checked against the code by differential execution, not proved; Python reference decoder/recogniser used only to search for failing inputs; safe-Rust memory safety; usize as Nat."

PENDING = " The full-strength Lean theorem of DESIGN.md §6 for this property is not (yet) proved: the claim rests on the executable model + correspondence + oracle, and on the listed partial theorems; hence category 'other'."

MANIFEST_TEXT = {
    "C01": {"text": "Lean theorems: the model of parse(), of both name checkers and of every script of public cursor calls returns Ok or Err for all byte strings / offsets / increments (no panic, no fuel exhaustion), and a successful name check stays inside the buffer.  The whole validator of the current source (DNSSector::new, parse, parse_question, parse_rr, parse_opt, cursor primitives, loaders, both name walkers) is translated to Lean from /repo's text on every run (rs2lean.py) and proved equal to the model (Tie/Parse.lean, Tie/Name.lean, Tie/Sector.lean): source_parse_total states totality, with the input handed back as Some(packet), about the translated code itself." + CORR,
            "note": NOTE + " Termination of the real loops is inferred from the model's termination proof plus outcome and step-count agreement.",
            "technique": "Lean 4 proof (induction on fuel, cursor invariant; validator translated from the source by rs2lean.py and proved equal to the model) + model/implementation correspondence"},
    "C02": {"text": "Lean theorem for all byte strings: the model's parse succeeds if and only if the declarative policy WF holds (names by inductive relations with the strictly-backward / 16-pointer / no-root-target discipline, label and name limits, forbidden characters; pointer-free DNAME targets; per-type rdata shapes; root-named single OPT in the additional section with options tiling its data; QR gating; one IN question; nothing left over) - both directions, by induction on fuel / on derivations. Verdicts of the real parser are compared in both directions with the model and with an independent executable statement of the policy (Python recogniser) on structured, single-point-damaged, boundary (incl. re-entering names, pointer ladders) and arbitrary packets. The validator of the current source is translated to Lean from /repo's text on every run (rs2lean.py) and proved equal to the model: source_parse_ok_iff_wf, source_name_ok_iff_valid, source_plain_name_ok_iff state the equivalence about the translated code itself.",
            "note": NOTE, "technique": "Lean 4 proof of parse-ok iff well-formed (name-walker iff, per-type rules, option tiling), stated also about the validator translated from the source by rs2lean.py (Tie/Parse.lean) + correspondence + independent recogniser"},
    "C03": {"text": "Proved for every accepted packet (via the C02 equivalence and the decoding lemmas copyUncompressedName_valid / rawNameToStr_valid / skipName_valid): the question walk yields exactly the question; the answer, authority and additional walks yield exactly the records of the policy relation in wire order, with OPT included and with OPT skipped wherever it sits; on each record the owner name (wire and lowercase dotted form), type, class, TTL, data length, raw data and address accessors return the values at the record's positions and never panic; the EDNS option walk yields exactly the options tiling the OPT data (nothing without OPT); the section accessor reports the record's section. Model of the four iterators and all accessors; on every generated accepted packet the real walks/accessors, the model's and the reference decoder's RFC 1035 reading agree (OPT absent/first/middle/last, chained pointers, pointers into rdata). Tie to the source: the name readers (raw_name_len, raw_name_len_after_decompression, copy_uncompressed_name, raw_name_to_str) are re-translated from /repo's text on every run and proved equal to the model's (source_reader_tie, source_name_text).",
            "note": NOTE, "technique": "Lean 4 proof (walk/decoding lemmas over the policy derivation) + model/implementation correspondence + reference decoder oracle"},
    "C04": {"text": "Lean theorems for every accepted packet: transaction id, opcode, rcode, response bit, each bit of the 32-bit flag word (opcode/rcode masked, EDNS flags in the upper half), DNSSEC indicator (AD for responses, DO for queries), question in raw / raw-without-root / lowercase-text form with type and class (cache empty and filled), and EDNS start, option count, extended rcode, version, flags and payload size equal the values at the positions the declarative policy assigns - those of the single OPT record, or none/0/512 without one. Real getters compared with the model and with values decoded independently from the bytes by div/mod. The header getters are translated from /repo's text on every run and proved equal to the model's (Tie/Header.lean): source_header_summary.",
            "note": NOTE, "technique": "Lean 4 proof (EDNS state tracking through the validator, bit lemmas, decoding lemmas) + model/implementation correspondence + div/mod oracle"},
    "C05": {"text": "Lean theorems for every accepted packet: decompression succeeds; its output is the header followed by the canonical pointer-free form of the question and of every record in wire order (same labels in every owner and NS/CNAME/PTR/MX/SOA name, fixed fields and all other data incl. OPT verbatim, data length recomputed); the output satisfies the acceptance policy (hence is accepted), its records have the same types and are their own canonical forms (no compression pointer in any name), a second decompression returns it unchanged, and every record boundary / the question / the end of the input is carried to the corresponding boundary of the output. Real output byte-identical to the model's on every generated accepted packet and boundary; the reference decoder compares the decoded messages. Tie to the source: copy_uncompressed_name and the name-length readers are re-translated from /repo's text on every run and proved equal to the model's (source_reader_tie).",
            "note": NOTE, "technique": "Lean 4 proof (walks as folds, canonical-form relation, translation invariance of the policy under copying, determinism of layouts) + model/implementation correspondence + reference decoder oracle"},
    "C06": {"text": "Lean theorems for every accepted pointer-free packet: compress() (model, with the 32-entry depth-tracked suffix dictionary) succeeds; the output is no longer than the input, satisfies the acceptance policy, keeps the 12 header bytes and the question byte for byte, and its records are one by one the input's up to the case of names - each name decodes under the validator's pointer discipline to labels equal up to ASCII case (so every pointer designates a name equal to the suffix it stands for), everything else including OPT is identical; decompressing the output gives the input up to name case. Invariant: every committed dictionary entry designates a place in the output where a name equal up to case decodes with the recorded depth (< 16 to be pointed at). Real output byte-identical to the model's on random messages and on the dictionary families (31..70 suffixes, 126..255-byte suffixes, nesting to 40, offsets beyond 16383, mixed case, OPT anywhere); oracle checks acceptance, no growth, message equality up to case, question bytes. Tie to the source: the dictionary's case-insensitive comparison and the name readers are re-translated from /repo's text on every run and proved equal to the model's (source_reader_tie).",
            "note": NOTE, "technique": "Lean 4 proof (dictionary invariant, emission lemmas, case-fold comparison soundness, parametricity in the output) + model/implementation correspondence + reference decoder oracle"},
    "C07": {"text": "Lean theorems for every accepted packet, every well-formed pointer-free non-root source/target and both modes: the renamer (model: replace_raw, per-type data lengths, OPT in place, the compressor's dictionary) either returns a packet that satisfies the acceptance policy, keeps the header bytes, counts and record order, and whose question, owner names and NS/CNAME/PTR/MX/SOA names are exactly the renamings of the input's (a name, or in suffix mode a suffix on a label boundary, equal to the source up to case is replaced by the target; every other name kept) up to ASCII case with all other bytes incl. OPT identical, or fails with InvalidName because a renamed name would exceed 255 bytes; self-renaming never fails and changes nothing up to case. Real output byte-identical to the model's; oracle compares the decoded result with the specified renaming of the decoded input (matches at every depth, near-misses, case, growth past 255). Tie to the source: Renamer::replace_raw and the compressor's case-insensitive comparison are re-translated from /repo's text on every run and proved equal to the model's (source_replace_raw, source_reader_tie).",
            "note": NOTE, "technique": "Lean 4 proof (replace_raw characterisation, rename relation, compressor invariant reused) + model/implementation correspondence + reference decoder oracle"},
    "C08": {"text": "Lean theorems: the invariant Consistent (plain object: header, question, three lists of canonical record pieces with the section starts and counts that follow from them; cleared may-contain-pointers flag; question cache empty or right; EDNS summary = the one the additional pieces determine) implies that the bytes are accepted by the parser and that a fresh parse reports exactly the section starts and the EDNS summary (position and count of options, extended rcode, version, flags, payload size) the object holds; counts = numbers of records, absent start iff empty section, bytes pointer-free, cached question = uncached question. The invariant holds after decompression/recompute of any accepted packet and is preserved by insert (3 sections), delete (including the OPT record), set_rr_ttl, set_rr_ip, set_raw_name (after which the cursor still designates the record and next yields the one that followed) and the header setters; a successful object-level rename leaves exactly the view of a fresh parse. Sequences: run_total / run_inv over the script semantics of Theorems/C08Seq.lean: no allowed script panics and every one ends consistent (any finite list of open/next/close/delete/set-TTL/set-address/set-name/insert/header-setter/recompute operations satisfying the documented preconditions); by-design findings KF1-KF6 excluded by the preconditions. State-machine model (packet object + one cursor) of every mutator; after every operation of every script the real object's bytes, public fields, cache and cursor equal the model's, and the oracle re-derives the view from the bytes alone. Tie to the source: insert_rr, recompute, rrcount_inc, rrcount_dec and insertion_offset (with the count writers they call) are re-translated from /repo's Rust text by rs2lean.py on every run and proved equal to the model functions these theorems are about (Tie/Counts.lean, Tie/Insert.lean: source_insert_rr, source_counts_tie, source_recompute; only Compress::uncompress inside them is the model's).",
            "note": NOTE, "technique": "Lean 4 proof (representation invariant incl. EDNS summary as a function of the pieces, preserved by every mutator) + step-wise model/implementation correspondence on operation scripts + reference decoder oracle"},
    "C09": {"text": 'Lean theorems on the piece-list representation of pointer-free objects: insert appends exactly the given record and raises only that count; delete removes exactly the record under the cursor and lowers only that count; set_rr_ttl / set_rr_ip replace exactly the TTL / address bytes of that record; set_raw_name replaces exactly its owner name for growing, shrinking and equal lengths; header setters touch bytes 0-3 only; everything else (other records and their order, question, other header fields, EDNS summary fields) is equal; on a still-flagged (possibly compressed) object the first set_raw_name/delete first turns it into the plain object of the canonical pieces with the cursor carried to the same record. Exclusions are the by-design findings KF1-KF6 (KF6: insert_rr of a record built with RR::new that the validator does not admit; admissible records built that way are exercised by the `insertrr` script operation and judged by the oracle). Same scripts as C08: after every operation the decoded message must be the message before with exactly the specified change (abstract list operation on the decoded message); operations that have no ground to be refused must succeed (a name that is not longer than the one it replaces, on packets of any size; a valid record that fits, into sections of 253-300 records). Tie to the source: insert_rr, recompute, rrcount_inc, rrcount_dec and insertion_offset (with the count writers they call) are re-translated from /repo\'s Rust text by rs2lean.py on every run and proved equal to the model functions these theorems are about (Tie/Counts.lean, Tie/Insert.lean: source_insert_rr, source_counts_tie, source_recompute; only Compress::uncompress inside them is the model\'s).',
            "note": NOTE, "technique": 'Lean 4 proof (piece shape lemmas, replace/delete/insert on the piece lists, resize-then-write byte lemma, decompress-first step) + step-wise correspondence + abstract-message oracle'},
    "C10": {"text": 'Lean theorems: insertion never yields more than 8192 bytes for any object and reports PacketTooLarge instead; a failing insert_rr on a pointer-free object (too large, second question, full section), delete/set_raw_name through a tombstoned cursor, an invalid or over-long name, set_rr_ip with the wrong family, and an overflowing rename all return the object as it was. Scripts biased to failing arguments and packets around/beyond 8192 and 65535 bytes: every failed call must leave the decoded message unchanged and the object consistent. Not proved (correspondence only): malformed text at the object API, failures after the decompress-first step. Tie to the source: insert_rr, recompute, rrcount_inc, rrcount_dec and insertion_offset (with the count writers they call) are re-translated from /repo\'s Rust text by rs2lean.py on every run and proved equal to the model functions these theorems are about (Tie/Counts.lean, Tie/Insert.lean: source_insert_rr, source_counts_tie, source_recompute; only Compress::uncompress inside them is the model\'s).',
            "note": NOTE, "technique": 'Lean 4 proof (order of check and modify in the model of each mutator) + step-wise correspondence + abstract-message oracle'},
    "C11": {"text": "Lean theorems: the cursor protocol on a pointer-free packet object (void cursor restarts the section with the current count, live cursor advances, delete = shrink by the record length + void the cursor + decrement the count + clear the section start at zero) refines an abstract walk-and-delete machine on the list of the section's records, for the three record sections, both public walks and every stream of choices; the list machine terminates ((n+1)^2+n+1 steps), removes exactly the chosen records, never yields a deleted record again, yields every survivor, leaves the survivors in order; the object stays a plain object (count = number of records, emptied section absent, bytes accepted, section starts as a fresh parse reports them), other sections/question/header fields untouched; a second delete reports VoidRecord and changes nothing; the first deletion on a still-compressed object decompresses, carries the cursor and removes exactly that record. The run started on a parsed (possibly compressed) packet is composed from the two phases (walk_delete_parsed). The public next() walk over an additional section holding OPT is proved on plain objects (walk_delete_skipping_opt) and on freshly parsed, possibly compressed packets (walk_delete_parsed_skipping_opt). Question section (KF1): correspondence only. Exhaustive deletion walks (every subset of sections of size 0..5, four sections, two layouts, OPT absent/first/last) compare the real iterators with the model and the walk oracle. Tie to the source: rrcount_dec / rrcount_inc / insertion_offset are re-translated from /repo's text on every run and proved equal to the model's (source_counts_tie).",
            "note": NOTE, "technique": "Lean 4 proof (piece-list representation of pointer-free objects, refinement of the cursor protocol to a list machine, list lemmas) + exhaustive small-scope correspondence + walk oracle"},
    "C12": {"text": "Lean theorems for all header words and all arguments: set_flags changes only bytes 2-3, keeps opcode and rcode (div/mod by position), sets each of QR AA TC RD RA Z AD CD to the argument's bit and ignores the argument's upper half; set_opcode / set_rcode / set_response / set_tid change only their field; every getter returns the stored field. Real behaviour compared with the model and with the frame condition computed from RFC 1035 field positions, exhaustively over all 65536 flag words in the thorough tier. All eleven header getters/setters are translated from /repo's text on every run (rs2lean.py) and proved equal to the model's (Tie/Header.lean); source_set_flags_frame ... source_getters state the frame conditions about the translated code itself.",
            "note": NOTE, "technique": "Lean 4 proof (bitwise frame conditions for every setter and getter, stated also about the functions translated from the source by rs2lean.py) + exhaustive correspondence over flag words + div/mod oracle"},
    "C13": {"text": "Lean theorems: the record-text grammar is stated declaratively on the text (Spec/RecordText.lean: B* owner B+ ttl B+ IN B+ TYPE B+ rdata B*, host-name labels, decimal numerals with bounds, dotted quads, IPv6 groups with '::', quoted strings with \\DDD escapes, hex digests) together with the RFC 1035 wire form each text stands for; synth t = Ok rr holds exactly for the pairs of that relation (both directions), so excluded text (missing or surplus fields, out-of-range numbers, malformed addresses, unbalanced quotes, odd or non-hex digests) yields an error; synthesis is total; anything returned is a well-formed class-IN record wherever it is placed; inserting it into the answer/authority/additional section of a parsed packet leaves bytes that satisfy the acceptance policy. Real synthesis compared with the model and with an independent Python synthesiser on grammar-derived, damaged and arbitrary texts, every numeric and length limit of the grammar from both sides (DS digests around the 16-bit data length, TXT, names, labels, TTL, preference), and the result inserted into valid packets. Tie to the source: copy_raw_name_from_str (every name of every record goes through it) is re-translated from /repo's text on every run and proved equal to the model's (source_from_text).",
            "note": NOTE + " chomp1 combinator semantics read from the vendored source; Ipv6Addr::from_str modelled.", "technique": "Lean 4 proof (token-level iff lemmas for every parser of the recogniser, grammar relation, piece/assembly lemmas for insertion) + model/implementation correspondence + reference synthesiser oracle"},
    "C14": {"text": "Lean theorems for all byte strings and zones: the index-based loop of copy_raw_name_from_str is a left-to-right scan; it accepts exactly dot-separated labels of 1..62 dot-free bytes <= 128 (optional final dot; '.' and '' give the root) whose result fits 253 bytes (so every LDH/underscore name within the limits), returns the length-prefixed encoding of exactly those labels followed by 0 or the zone, rejects an empty label, a leading dot, a dot-free run of 63+, a text or result over 253; the result is a valid pointer-free name (labels 1..63, total <= 255) and the name accessor's text for it is the input without its final dot. Real conversion compared with the model exhaustively over a 7-symbol alphabet up to length 4 (quick) / 6 (thorough) with and without zone, boundary lengths; every accepted name is given to a record and read back. Tie to the source: copy_raw_name_from_str and raw_name_to_str are re-translated from /repo's text on every run and proved equal to the model functions these theorems are about (source_from_text; C03.source_name_text).",
            "note": NOTE, "technique": "Lean 4 proof (loop = scan refinement, scan soundness/completeness by induction) + exhaustive small-alphabet correspondence + label oracle"},
    "C15": {"text": "Proved on data regenerated from c_abi.rs and c_hook.h on every run: the table's order, count (30) and ABI-class signatures agree with the header and the initialiser follows declaration order. Facade behaviour: hook scripts run through the Rust table and through a C driver compiled against the shipped header (-Wall -Werror), with canaries around caller buffers and announced capacities above what is needed; transcripts must equal each other and the model's (which is the native semantics); oracle rules for the table's own obligations (address length written back, nothing written past it, a record text the grammar accepts is inserted whatever its length, a well-formed raw name / a fully-qualified host name is installed whatever the zone slice holds). Proved on the model of the wrappers: on accepted packets a record's name fits the 256-byte buffer with its NUL (the length assertion cannot fire), an address copy-out is exactly 4 or 16 bytes, the raw-packet copy-out never exceeds the stated capacity.",
            "note": NOTE + " Memory safety of the unsafe blocks is observed (canaries), not verified.", "technique": "Lean decide on translated tables + three-way correspondence (C driver / Rust table / model)"},
    "C16": {"text": "Per-thread slot model with the theorem that a read returns the thread's own last failure for every history; real threads stepped through all 2x3 interleavings x step kinds and sampled 3-4 thread schedules.",
            "note": NOTE + " thread_local! semantics assumed, probed by the schedules.", "technique": "Lean proof by induction on histories + exhaustive schedule correspondence"},
    "C17": {"text": "The model's functions are pure by construction; the real calls are executed alone, back to back and concurrently, and every output is compared byte for byte with the others and with the model's.",
            "note": NOTE, "technique": "history-based correspondence (alone / sequential / concurrent)"},
    "C18": {"text": "Lean theorems: the instrumented validator model (one step per name-walk iteration, record and option, also on failing paths) spends at most 80*len+1200 steps on every byte string (potential-function induction: <= 822 + consumed/4 steps per record, >= 11 bytes per accepted record), and erasing the counter gives back parse. The real step counter (cfg-guarded hook) must equal the model's count on every case, including adversarial families (pointer ladders, 17-deep chains x 400 records, 16000 options, lying counts). The counted validator is tied to the validator translated from /repo's text on every run (source_erasure, source_walkers).",
            "note": NOTE, "technique": "Lean 4 proof (potential-function bound on the instrumented model, erasure, validator translated from the source by rs2lean.py and proved equal to the model) + step-count correspondence via the verification hook + bound oracle"},
}
for _p, _spec in PROPS.items():
    if not _spec.get("explanation"):
        _spec["explanation"] = MANIFEST_TEXT[_p]["text"]
