"""Per-property configuration: theorem obligations, case families, oracle (DESIGN.md §6)."""
import re


def outcome(s):
    return s.split(" ")[0] if s else ""


def bad_outcome(a):
    return outcome(a) in ("panic", "hang", "abort", "diverge", "ok-but-bytes-changed")


# ---------------------------------------------------------------------------------------------
# oracles: (case line, I's output, M's output) -> None | reason.  They judge I's behaviour against
# the property statement S, not against M (exception: C02, where the proved equivalence makes M's
# verdict the executable form of S).

def oracle_c01(c, a, b):
    # every public entry point given arbitrary bytes returns ok/err; parse hands the bytes back unchanged
    for tok in a.split(" "):
        if tok.split(":")[0] in ("panic", "hang", "abort", "ok-but-bytes-changed"):
            return "untrusted input made the call %s" % tok
    if outcome(a) in ("hang", "abort", "panic"):
        return "untrusted input made the call %s" % outcome(a)
    return None


def oracle_c02(c, a, b):
    if bad_outcome(a):
        return "parse did not return: %s" % outcome(a)
    va, vb = outcome(a), outcome(b)
    if vb in ("ok", "err") and va != vb:
        if va == "ok":
            return "accepted a packet that is not well-formed under the policy (model verdict: %s)" % b
        return "rejected a well-formed packet (%s)" % a
    return None


def match_known(known, prop, c, a, b, reason):
    """a failing case is suppressed only if a listed finding's selector holds for it"""
    for k in known:
        sel = SELECTORS.get(k["selector"])
        if sel and sel(c, a, b, reason):
            return k
    return None


SELECTORS = {}


def nontrivial_parse(c, a):
    # got past the header checks: not a too-small packet / question-count rejection
    w = c.split(" ")
    if w[0] != "parse":
        return not a.startswith("err InternalError")
    return len(w[1]) > 24 and w[1][8:12] == "0001"


PROPS = {
    "C01": {
        "module": "DnsModel.Theorems.C01",
        "theorems": ["Dns.C01.parse_total", "Dns.C01.checkCompressedName_total", "Dns.C01.checkUncompressedName_total",
                     "Dns.C01.checkCompressedName_in_bounds", "Dns.C01.cursor_total"],
        "families": [
            {"name": "boundary-parse", "quick": 0, "thorough": 0, "fixed": True},
            {"name": "parse", "quick": 6000, "thorough": 300000},
            {"name": "names", "quick": 4000, "thorough": 200000},
        ],
        "oracle": oracle_c01,
        "nontrivial": nontrivial_parse,
        "rule": "structured (five layouts) 60% / single-point damaged 35% / arbitrary 5% packets, name-checker and cursor scripts; "
                "non-trivial = distinct case lines that get past the header checks (parse) or do not die on the first bounds check (walkers)",
        "level": "proof",
        "explanation": "theorems: parse/checkCompressedName/checkUncompressedName/cursor scripts return Ok or Err for every input (no panic, no fuel exhaustion) on the model; "
                       "correspondence: real parse()/checkers/cursor primitives agree with the model on every generated case, panics caught per case, hangs by watchdog",
        "assumptions": ["termination of the real loops is inferred from the model's termination proof plus agreement of outcomes and of the step counter (C18), not proved of the Rust code",
                        "absence of recursion in the validator (iterative loops), safe-Rust bounds checks"],
    },
    "C02": {
        "module": "DnsModel.Theorems.C02",
        "theorems": [],
        "families": [
            {"name": "boundary-parse", "quick": 0, "thorough": 0, "fixed": True},
            {"name": "parse", "quick": 8000, "thorough": 400000},
        ],
        "oracle": oracle_c02,
        "nontrivial": nontrivial_parse,
        "rule": "as C01's parse stream; verdicts compared in both directions; non-trivial = distinct packets past the header checks",
        "level": "proof",
        "explanation": "",
        "assumptions": [],
    },
}
